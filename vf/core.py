"""E5 (part 1) - mergeable result records and the context object handed to every check."""
import os
import json
import hashlib
import collections
import multiprocessing
import traceback

MAX_SAMPLES = 12


def jsonable(x):
    if isinstance(x, (str, int, float, bool, type(None))):
        return x
    if isinstance(x, (bytes, bytearray, memoryview)):
        b = bytes(x)
        return {'hex': b.hex()} if len(b) <= 96 else {'hex_prefix': b[:48].hex(), 'len': len(b),
                                                        'sha256': hashlib.sha256(b).hexdigest()}
    if isinstance(x, dict):
        return {str(k): jsonable(v) for k, v in x.items()}
    if isinstance(x, (list, tuple, set, frozenset)):
        seq = list(x)
        if isinstance(x, (set, frozenset)):
            seq = sorted(seq, key=repr)
        return [jsonable(v) for v in seq]
    return repr(x)


def sig_key(signature):
    return json.dumps(jsonable(signature), sort_keys=True, ensure_ascii=True)


def digest(x):
    return hashlib.blake2b(repr(x).encode('utf-8', 'surrogatepass'), digest_size=8).digest()


class Result:
    """Everything a (partial) exploration produced; merge() is associative and commutative up to
    sample order, so per-worker results can be combined in any order."""

    def __init__(self):
        self.counters = collections.Counter()      # summed
        self.maxes = {}                            # max-merged
        self.distinct = collections.defaultdict(set)   # name -> set of 8-byte digests
        self.samples = []                          # bounded list of written-out cases
        self.violations = {}                       # sig_key -> {signature, what, replay, count}
        self.witnesses = collections.Counter()     # non-vacuity facts
        self.tallies = collections.Counter()       # interpretation-only observations etc.
        self.errors = []                           # harness errors (hard errors, exit 2)

    # -- recording ---------------------------------------------------------------------------
    def count(self, name, n=1):
        self.counters[name] += n

    def setmax(self, name, v):
        if v > self.maxes.get(name, float('-inf')):
            self.maxes[name] = v

    def distinct_add(self, name, key):
        self.distinct[name].add(digest(key))

    def sample(self, case, force=False):
        if force or len(self.samples) < MAX_SAMPLES:
            self.samples.append(jsonable(case))

    def witness(self, name, n=1):
        self.witnesses[name] += n

    def tally(self, name, n=1):
        self.tallies[name] += n

    def violation(self, signature, what, replay):
        """signature: small dict naming the specific failing input class / call site / history;
        what: one line; replay: JSON-able dict from which check.replay() can re-execute the case."""
        k = sig_key(signature)
        v = self.violations.get(k)
        rep = jsonable(replay)
        size = len(json.dumps(rep, sort_keys=True))
        if v is None:
            self.violations[k] = {'signature': jsonable(signature), 'what': str(what),
                                  'replay': rep, 'count': 1, 'size': size}
        else:
            v['count'] += 1
            if size < v.get('size', 1 << 60):      # keep the smallest counterexample of the class
                v.update(what=str(what), replay=rep, size=size)

    def error(self, text):
        if len(self.errors) < 20:
            self.errors.append(text)

    # -- merging / transport -----------------------------------------------------------------
    def merge(self, o):
        self.counters.update(o.counters)
        for k, v in o.maxes.items():
            self.setmax(k, v)
        for k, s in o.distinct.items():
            self.distinct[k] |= s
        for s in o.samples:
            if len(self.samples) < MAX_SAMPLES:
                self.samples.append(s)
        for k, v in o.violations.items():
            if k in self.violations:
                mine = self.violations[k]
                mine['count'] += v['count']
                a, b = v.get('size', 1 << 60), mine.get('size', 1 << 60)
                if a < b or (a == b and json.dumps(v['replay'], sort_keys=True) < json.dumps(mine['replay'], sort_keys=True)):
                    mine.update(what=v['what'], replay=v['replay'], size=a)
            else:
                self.violations[k] = v
        self.witnesses.update(o.witnesses)
        self.tallies.update(o.tallies)
        self.errors.extend(o.errors[:20 - len(self.errors)])
        return self

    def to_json(self):
        return {
            'counters': dict(self.counters), 'maxes': self.maxes,
            'distinct': {k: [d.hex() for d in s] for k, s in self.distinct.items()},
            'samples': self.samples, 'violations': self.violations,
            'witnesses': dict(self.witnesses), 'tallies': dict(self.tallies), 'errors': self.errors,
        }

    @classmethod
    def from_json(cls, d):
        r = cls()
        r.counters.update(d['counters'])
        r.maxes = dict(d['maxes'])
        for k, s in d['distinct'].items():
            r.distinct[k] = {bytes.fromhex(x) for x in s}
        r.samples = list(d['samples'])
        r.violations = dict(d['violations'])
        r.witnesses.update(d['witnesses'])
        r.tallies.update(d['tallies'])
        r.errors = list(d['errors'])
        return r


# ------------------------------------------------------------------------------------------------

_WORKER_FN = None


def _worker_call(item):
    res = Result()
    try:
        _WORKER_FN(item, res)
    except BaseException:   # noqa  - harness bug, reported as a hard error
        res.error(f'worker item {item!r:.300}: ' + traceback.format_exc()[-1500:])
    return res


class Ctx:
    def __init__(self, prop, tier, seed, hashseed, jobs=None):
        self.prop = prop
        self.tier = tier                 # 'quick' | 'thorough'
        self.seed = seed                 # VERIF_SEED (never selects which cases are explored)
        self.hashseed = hashseed         # PYTHONHASHSEED of this process
        self.jobs = jobs or int(os.environ.get('VERIF_JOBS', '0')) or min(16, os.cpu_count() or 1)
        self.res = Result()
        self.meta = {}                   # rule, exhaustive, assumptions, bounds ... set by the check

    @property
    def quick(self):
        return self.tier == 'quick'

    def pmap(self, fn, items, chunksize=1):
        """Run fn(item, res) for every item on a fork pool; merge all partial results into self.res."""
        global _WORKER_FN
        items = list(items)
        if not items:
            return
        _WORKER_FN = fn
        if self.jobs <= 1 or len(items) == 1:
            for it in items:
                self.res.merge(_worker_call(it))
            return
        ctx = multiprocessing.get_context('fork')
        with ctx.Pool(min(self.jobs, len(items))) as pool:
            for part in pool.imap_unordered(_worker_call, items, chunksize):
                self.res.merge(part)
