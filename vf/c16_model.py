"""C16 helper - the independent side of the claim oracle.

A *case* is a JSON-able dict  {'type': 'stream'|'channel'|'repost'|'collection'|None,
                               'ops': [[kind, path, value], ...],
                               'sign': None | {'channel_id': hex40, 'sig': hex128}}.
`apply_ops` drives the real lbry metadata API with the ops; everything else in this module is the
reference: `Model` interprets the same ops into the protobuf content they are specified to produce
(field numbers/names from the published claim.proto, claim id = reversed hash, LBC/BTC in 1e-8 units, USD
in cents, GPS in 1e-7 degrees, numeric UN M.49 regions spelled 'R' + 3 digits in the enum), `flatten`
turns a *plain* protobuf parse of the payload into the same shape, `expected_reads` says what every typed
accessor must return.  Nothing here calls lbry.schema code except `apply_ops`/`read`.
"""
from decimal import Decimal

MEDIA = ('image', 'video', 'audio', 'software')

# ---- value codecs (JSON <-> python) --------------------------------------------------------------


def dec_value(kind, v):
    if kind == 'bytes':
        return bytes.fromhex(v)
    if kind == 'dec':
        return Decimal(v)
    return v


# ---- base58 (Bitcoin alphabet), written from the Base58 description in the Bitcoin wiki ---------------
B58 = '123456789ABCDEFGHJKLMNPQRSTUVWXYZabcdefghijkmnopqrstuvwxyz'


def b58decode(s):
    n = 0
    for ch in s:
        n = n * 58 + B58.index(ch)
    body = n.to_bytes((n.bit_length() + 7) // 8, 'big')
    return b'\0' * (len(s) - len(s.lstrip('1'))) + body


def b58encode(b):
    n = int.from_bytes(b, 'big')
    out = ''
    while n:
        n, r = divmod(n, 58)
        out = B58[r] + out
    return '1' * (len(b) - len(b.lstrip(b'\0'))) + out


# ---- the field table: accessor path -> (protobuf path, conversion) ---------------------------------
SOURCE = {
    'name': ('name', 'text'), 'size': ('size', 'int'), 'media_type': ('media_type', 'text'),
    'url': ('url', 'text'),
    'file_hash': ('hash', 'hex'), 'file_hash_bytes': ('hash', 'raw'),
    'sd_hash': ('sd_hash', 'hex'), 'sd_hash_bytes': ('sd_hash', 'raw'),
    'bt_infohash': ('bt_infohash', 'hex'), 'bt_infohash_bytes': ('bt_infohash', 'raw'),
}


def _with_source(prefix, proto_prefix):
    return {f'{prefix}.{k}': (proto_prefix + (p,), c) for k, (p, c) in SOURCE.items()}


COMMON = {'title': (('title',), 'text'), 'description': (('description',), 'text')}
COMMON.update(_with_source('thumbnail', ('thumbnail',)))

FIELDS = {
    'stream': dict(COMMON, **{
        'author': (('stream', 'author'), 'text'), 'license': (('stream', 'license'), 'text'),
        'license_url': (('stream', 'license_url'), 'text'),
        'release_time': (('stream', 'release_time'), 'int'),
        'image.width': (('stream', 'image', 'width'), 'int'), 'image.height': (('stream', 'image', 'height'), 'int'),
        'video.width': (('stream', 'video', 'width'), 'int'), 'video.height': (('stream', 'video', 'height'), 'int'),
        'video.duration': (('stream', 'video', 'duration'), 'int'),
        'audio.duration': (('stream', 'audio', 'duration'), 'int'),
        'fee.address': (('stream', 'fee', 'address'), 'b58'),
        'fee.address_bytes': (('stream', 'fee', 'address'), 'raw'),
        **_with_source('source', ('stream', 'source')),
    }),
    'channel': dict(COMMON, **{
        'public_key': (('channel', 'public_key'), 'hex'), 'public_key_bytes': (('channel', 'public_key'), 'raw'),
        'email': (('channel', 'email'), 'text'), 'website_url': (('channel', 'website_url'), 'text'),
        **_with_source('cover', ('channel', 'cover')),
    }),
    'repost': dict(COMMON, **{
        'reference.claim_id': (('repost', 'claim_hash'), 'claimid'),
        'reference.claim_hash': (('repost', 'claim_hash'), 'raw'),
    }),
    'collection': dict(COMMON),
    None: {},
}
# fee amount accessors: path -> (currency name, minor units per unit or None for the integer accessor)
FEE_AMOUNT = {'fee.lbc': ('LBC', 10 ** 8), 'fee.dewies': ('LBC', None), 'fee.btc': ('BTC', 10 ** 8),
              'fee.satoshis': ('BTC', None), 'fee.usd': ('USD', 100), 'fee.pennies': ('USD', None)}
CURRENCY = {'LBC': 1, 'BTC': 2, 'USD': 3}          # pb.Fee.Currency in claim.proto
CURRENCY_NAME = {v: k for k, v in CURRENCY.items()}
CLAIM_LISTS = {'channel': {'featured': ('channel', 'featured', 'claim_references')},
               'collection': {'claims': ('collection', 'claim_references')}}
EXT_MEDIA = {'.mp4': ('video/mp4', 'video'), '.png': ('image/png', 'image'), '.mp3': ('audio/mpeg', 'audio'),
             '': ('application/octet-stream', 'binary')}
GPS = 10 ** 7

_ENUMS = {}


def enums():
    """name->number maps read from the descriptors of the generated claim.proto module (plain protobuf
    reflection, no lbry.schema accessor involved)."""
    if not _ENUMS:
        from lbry.schema.types.v2 import claim_pb2
        lang = claim_pb2.Language.DESCRIPTOR
        loc = claim_pb2.Location.DESCRIPTOR
        for key, ed in (('language', lang.enum_types_by_name['Language']), ('script', lang.enum_types_by_name['Script']),
                        ('country', loc.enum_types_by_name['Country'])):
            _ENUMS[key] = {v.name: v.number for v in ed.values}
            _ENUMS[key + '_name'] = {v.number: v.name for v in ed.values}
    return _ENUMS


def region_enum_name(region):
    """BCP47 region subtag -> enum identifier: UN M.49 numeric codes are spelled 'R' + digits."""
    return 'R' + region if region.isdigit() else region


def region_from_enum_name(name):
    return name[1:] if name[0] == 'R' and name[1:].isdigit() else name


def render_langtag(lsr):
    return '-'.join(p for p in lsr if p)


def parse_langtag(tag):
    """language ['-' 4-letter script] ['-' 2-letter or 3-digit region]  (the BCP47 subset the API documents)."""
    parts = tag.split('-')
    lang, script, region = parts.pop(0), '', ''
    if parts and len(parts[0]) == 4:
        script = parts.pop(0)
    if parts:
        region = parts.pop(0)
    assert not parts
    return [lang, script, region]


LOC_KEYS = ('country', 'state', 'city', 'code', 'latitude', 'longitude')


def render_location(spec):
    """spec = {'form': 'str'|'short'|'dict'|'json', 'loc': {...}} -> the value handed to locations.append()."""
    import json
    loc = spec['loc']
    form = spec['form']
    if form == 'dict':
        return dict(loc)
    if form == 'json':
        return json.dumps(loc)
    if form == 'short':         # 'CC' alone or 'lat:long' alone
        if set(loc) == {'country'}:
            return loc['country']
        assert set(loc) == {'latitude', 'longitude'}
        return f"{loc['latitude']}:{loc['longitude']}"
    parts = [str(loc.get(k, '')) for k in LOC_KEYS]       # country:state:city:code:latitude:longitude
    return ':'.join(parts)


# ---- the model -----------------------------------------------------------------------------------
class Model:
    """Expected protobuf content, as {path tuple: non-default leaf value | list}."""

    def __init__(self, typ):
        self.type = typ
        self.f = {}

    def set(self, path, value):
        if len(path) >= 2 and path[0] == 'stream' and path[1] in MEDIA:      # oneof Stream.type
            for k in [k for k in self.f if len(k) >= 2 and k[0] == 'stream' and k[1] in MEDIA and k[1] != path[1]]:
                del self.f[k]
        if value in ('', 0, b'') and not isinstance(value, bool):
            self.f.pop(path, None)
        else:
            self.f[path] = value

    def lst(self, path):
        return self.f.setdefault(path, [])

    # -- single ops
    def scalar(self, path, value):
        if path in FEE_AMOUNT:
            cur, scale = FEE_AMOUNT[path]
            if scale is not None:
                minor = value * scale
                assert minor == minor.to_integral_value(), 'non-representable amount in alphabet'
                value = int(minor)
            self.set(('stream', 'fee', 'amount'), value)
            self.set(('stream', 'fee', 'currency'), CURRENCY[cur])
            return
        proto, conv = FIELDS[self.type][path]
        if conv == 'hex':
            value = bytes.fromhex(value)
        elif conv == 'claimid':
            value = bytes.fromhex(value)[::-1]
        elif conv == 'b58':
            value = b58decode(value)
        self.set(proto, value)

    def append(self, name, value):
        if name == 'tags':
            tags = self.lst(('tags',))
            if value and value not in tags:
                tags.append(value)
        elif name == 'languages':
            lang, script, region = value if isinstance(value, list) else parse_langtag(value)
            e = enums()
            item = {('language',): e['language'][lang]}
            if script:
                item[('script',)] = e['script'][script]
            if region:
                item[('region',)] = e['country'][region_enum_name(region)]
            self.lst(('languages',)).append(item)
        elif name == 'locations':
            loc = value['loc'] if isinstance(value, dict) and 'loc' in value else {'country': value}
            item = {}
            for k in LOC_KEYS:
                v = loc.get(k)
                if v in (None, ''):
                    continue
                if k == 'country':
                    item[(k,)] = enums()['country'][v]
                elif k in ('latitude', 'longitude'):
                    units = Decimal(v) * GPS
                    assert units == units.to_integral_value(), 'non-representable coordinate in alphabet'
                    if int(units):
                        item[(k,)] = int(units)
                else:
                    item[(k,)] = v
            self.lst(('locations',)).append(item)
        else:
            path = CLAIM_LISTS[self.type][name]
            self.lst(path).append({('claim_hash',): bytes.fromhex(value)[::-1]} if value else {})

    def fee_update(self, address, currency, amount):
        if amount:
            cur = currency.upper()
            scale = 100 if cur == 'USD' else 10 ** 8
            self.scalar({'LBC': 'fee.lbc', 'BTC': 'fee.btc', 'USD': 'fee.usd'}[cur], Decimal(amount))
        if address:
            self.scalar('fee.address', address)

    def update(self, kw):
        kw = dict(kw)
        if self.type == 'stream':
            self.fee_update(kw.pop('fee_address', None), kw.pop('fee_currency', None), kw.pop('fee_amount', None))
            for k in ('sd_hash', 'bt_infohash', 'file_hash'):
                if k in kw:
                    self.scalar('source.' + k, kw.pop(k))
            kind = None
            if 'file_name' in kw:
                name = kw.pop('file_name')
                self.scalar('source.name', name)
                ext = name[name.rindex('.'):] if '.' in name else ''
                media_type, kind = EXT_MEDIA[ext]
                self.scalar('source.media_type', media_type)
            if 'file_size' in kw:
                self.scalar('source.size', kw.pop('file_size'))
            dims = {k: kw.pop(k) for k in ('width', 'height', 'duration') if k in kw}
            for k, v in dims.items():
                if kind in ('image', 'video') and k in ('width', 'height') or kind in ('video', 'audio') and k == 'duration':
                    self.scalar(f'{kind}.{k}', v)
        for k in list(kw):
            for obj in ('thumbnail', 'source', 'cover'):
                if k.startswith(obj + '_'):
                    self.scalar(f'{obj}.{k[len(obj) + 1:]}', kw.pop(k))
        for name in ('tags', 'languages', 'locations', 'featured', 'claims'):
            if kw.pop('clear_' + name, False):
                self.f.pop(('tags',) if name == 'tags' else (name,) if name in ('languages', 'locations')
                           else CLAIM_LISTS[self.type][name], None)
            items = kw.pop(name, None)
            if items is not None:
                for it in ([items] if isinstance(items, str) else items):
                    self.append(name, it)
        for k, v in kw.items():
            self.scalar(k, v)

    def apply(self, op):
        kind, path, value = op
        if kind == 'append':
            self.append(path, value)
        elif kind == 'update':
            self.update(value)
        elif kind == 'fee_update':
            self.fee_update(*value)
        else:
            self.scalar(path, dec_value(kind, value))

    def content(self):
        return {k: v for k, v in self.f.items() if v != []}


def model_of(case):
    m = Model(case['type'])
    for op in case['ops']:
        m.apply(op)
    return m


# ---- plain protobuf parse -> same shape -----------------------------------------------------------
def flatten(msg, prefix=()):
    out = {}
    for fd, v in msg.ListFields():
        path = prefix + (fd.name,)
        rep = getattr(fd, 'is_repeated', None)
        if rep is None:
            rep = fd.label == fd.LABEL_REPEATED
        if rep:
            if fd.message_type is not None:
                out[path] = [flatten(x) for x in v]
            else:
                out[path] = list(v)
        elif fd.message_type is not None:
            out.update(flatten(v, path))
        else:
            out[path] = v
    return {k: v for k, v in out.items() if v != []}


# ---- driving the real API -------------------------------------------------------------------------
def _resolve(obj, path):
    parts = path.split('.')
    for p in parts[:-1]:
        obj = getattr(obj, p)
    return obj, parts[-1]


def apply_ops(obj, ops):
    for kind, path, value in ops:
        if kind == 'append':
            if path == 'languages' and isinstance(value, list):
                value = render_langtag(value)
            elif path == 'locations' and isinstance(value, dict) and 'loc' in value:
                value = render_location(value)
            getattr(obj, path).append(value)
        elif kind == 'update':
            obj.update(**value)
        elif kind == 'fee_update':
            obj.fee.update(*value)
        else:
            target, attr = _resolve(obj, path)
            setattr(target, attr, dec_value(kind, value))


def read(obj, path):
    for p in path.split('.'):
        obj = obj[int(p)] if p.isdigit() else getattr(obj, p)
    return obj


# ---- what every accessor must return --------------------------------------------------------------
def expected_reads(typ, content):
    """-> list of (accessor path, expected value, comparison) for the typed object of a decoded claim.
    comparison: 'eq' exact (value and type), 'dec' numeric Decimal equality, 'coord' coordinate string."""
    out = []
    for path, (proto, conv) in FIELDS[typ].items():
        default = 0 if conv == 'int' else '' if conv == 'text' else b''
        v = content.get(proto, default)
        if path in ('public_key', 'public_key_bytes') and len(v) != 33:
            continue            # DER keys are legacy (covered by the fixture); an unset key has no reading
        if conv == 'hex':
            v = v.hex()
        elif conv == 'claimid':
            v = v[::-1].hex()
        elif conv == 'b58':
            v = b58encode(v) if v else None
        out.append((path, v, 'eq'))
    if typ == 'stream':
        cur = content.get(('stream', 'fee', 'currency'), 0)
        amount = content.get(('stream', 'fee', 'amount'), 0)
        name = CURRENCY_NAME.get(cur)
        out.append(('fee.currency', name, 'eq'))
        if name is None:
            out.append(('fee.amount', None, 'eq'))
        else:
            scale = 100 if name == 'USD' else 10 ** 8
            unit, minor = {'LBC': ('lbc', 'dewies'), 'BTC': ('btc', 'satoshis'), 'USD': ('usd', 'pennies')}[name]
            out.append(('fee.amount', Decimal(amount) / scale, 'dec'))
            out.append(('fee.' + unit, Decimal(amount) / scale, 'dec'))
            out.append(('fee.' + minor, amount, 'eq'))
        kinds = [k[1] for k in content if len(k) >= 2 and k[0] == 'stream' and k[1] in MEDIA]
        if kinds:
            out.append(('stream_type', kinds[0], 'eq'))
    if typ is not None:
        e = enums()
        out.append(('tags', list(content.get(('tags',), [])), 'list'))
        langs = content.get(('languages',), [])
        tags = []
        for i, item in enumerate(langs):
            lang = e['language_name'][item[('language',)]] if ('language',) in item else None
            script = e['script_name'][item[('script',)]] if ('script',) in item else None
            region = region_from_enum_name(e['country_name'][item[('region',)]]) if ('region',) in item else None
            out += [(f'languages.{i}.language', lang, 'eq'), (f'languages.{i}.script', script, 'eq'),
                    (f'languages.{i}.region', region, 'eq')]
            tags.append('-'.join(p for p in (lang, script, region) if p))
        out.append(('langtags', tags, 'eq'))
        out.append(('languages.__len__', len(langs), 'len'))
        locs = content.get(('locations',), [])
        out.append(('locations.__len__', len(locs), 'len'))
        for i, item in enumerate(locs):
            country = e['country_name'][item[('country',)]] if ('country',) in item else None
            out.append((f'locations.{i}.country', country, 'eq'))
            for k in ('state', 'city', 'code'):
                out.append((f'locations.{i}.{k}', item.get((k,), ''), 'eq'))
            for k in ('latitude', 'longitude'):
                out.append((f'locations.{i}.{k}', Decimal(item[(k,)]) / GPS if (k,) in item else None, 'coord'))
    for name, path in CLAIM_LISTS.get(typ, {}).items():
        ids = [it.get(('claim_hash',), b'')[::-1].hex() for it in content.get(path, [])]
        out.append((f'{name}.ids', ids, 'eq'))
    return out
