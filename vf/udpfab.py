"""E1 extension - in-memory UDP fabric on the virtual loop (DESIGN.md A.2) and helpers to build networks of real
lbry.dht.node.Node objects on it.

Fabric semantics
  * `sendto` appends (src, dst, bytes) to the in-flight multiset (a list in send order).
  * DGRAM(k) hands one in-flight datagram to the endpoint bound at dst: exactly like a selector loop, the read callback
    is *appended to the ready queue* (it runs after the handles that are already ready, never before them), at most one
    datagram per destination socket per loop iteration, and never after a timer was made ready at the same iteration
    boundary (asyncio processes I/O events before due timers).  A datagram for an address nobody is bound to is
    dropped silently.
  * DROP(k) removes a datagram, DUP(k) puts a copy behind the youngest in-flight datagram (only where the harness
    enables them).
  * TIMER advances virtual time to the earliest timer.  In 'hit' mode a timer may overtake pending work only if it is due
    before the RPC deadline of every recently sent request (DESIGN.md A.6: a datagram held - or a loop stalled - for a
    whole RPC timeout is loss, not delay).
  * An exception escaping datagram_received is handled as CPython's selector datagram transport does: the callback's
    exception reaches Handle._run, i.e. the loop exception handler, and the transport STAYS OPEN (verified against
    3.12.1 with a real socket; DESIGN.md A.2 assumed "transport closed" - opt in with close_on_error=True).
    Every such event is recorded in loop.dgram_errors.

Choice points follow DESIGN.md A.1: canonical order STEP < DGRAM (oldest first) < TIMER < DROP < DUP, choice 0 is the
default schedule (drain ready queue, oldest datagram, timer only when nothing else is pending).  HOLD(k) (opt-in) delays a
datagram until everything else that needs no timer has happened.
"""
import os
import pickle
import asyncio
import hashlib
import traceback
import collections

from vf.vloop import VLoop, Deadlock, Horizon   # noqa: F401  (re-exported)

UDP_PORT = 4444
TCP_PORT = 3333


# ---- tiny independent bencode (harness-side bookkeeping and fake endpoints; not lbry's codec) ------------------------
def benc(x) -> bytes:
    if isinstance(x, bool):
        raise TypeError('bool')
    if isinstance(x, int):
        return b'i' + str(x).encode() + b'e'
    if isinstance(x, (bytes, bytearray)):
        return str(len(x)).encode() + b':' + bytes(x)
    if isinstance(x, str):
        b = x.encode()
        return str(len(b)).encode() + b':' + b
    if isinstance(x, (list, tuple)):
        return b'l' + b''.join(benc(i) for i in x) + b'e'
    if isinstance(x, dict):
        ints = sorted(k for k in x if isinstance(k, int))
        strs = sorted(k for k in x if not isinstance(k, int))
        return b'd' + b''.join(benc(k) + benc(x[k]) for k in ints + strs) + b'e'
    raise TypeError(type(x))


def bdec(data: bytes):
    v, i = _bdec(data, 0, 0)
    if i != len(data):
        raise ValueError('trailing bytes')
    return v


def _bdec(d, i, depth):
    if depth > 32 or i >= len(d):
        raise ValueError('truncated or too deep')
    c = d[i:i + 1]
    if c == b'i':
        j = d.index(b'e', i)
        return int(d[i + 1:j]), j + 1
    if c == b'l':
        i += 1
        out = []
        while d[i:i + 1] != b'e':
            v, i = _bdec(d, i, depth + 1)
            out.append(v)
        return out, i + 1
    if c == b'd':
        i += 1
        out = {}
        while d[i:i + 1] != b'e':
            k, i = _bdec(d, i, depth + 1)
            v, i = _bdec(d, i, depth + 1)
            if isinstance(k, (list, dict)):
                raise ValueError('unhashable key')
            out[k] = v
        return out, i + 1
    j = d.index(b':', i)
    n = int(d[i:j])
    if n < 0 or j + 1 + n > len(d):
        raise ValueError('bad string length')
    return d[j + 1:j + 1 + n], j + 1 + n


def classify(data: bytes):
    """(packet type, rpc id) of a well-formed LBRY DHT datagram prefix `d i0e i<T>e i1e 20:<rpc id>`, else (None, None)."""
    if len(data) >= 33 and data[:5] == b'di0ei' and data[6:13] == b'ei1e20:' and 48 <= data[5] <= 50:
        return data[5] - 48, data[13:33]
    return None, None


class Dgram:
    __slots__ = ('n', 'src', 'dst', 'data', 'sent_at', 'deadline', 'ptype', 'rpc_id', 'copy')

    def __init__(self, n, src, dst, data, sent_at, deadline, ptype, rpc_id, copy=False):
        self.n, self.src, self.dst, self.data, self.sent_at = n, src, dst, data, sent_at
        self.deadline, self.ptype, self.rpc_id, self.copy = deadline, ptype, rpc_id, copy

    def __repr__(self):
        return f'<dgram {self.n} {self.src[0]}>{self.dst[0]} t{self.ptype}{" copy" if self.copy else ""}>'


class FabricTransport(asyncio.DatagramTransport):
    def __init__(self, loop, addr, protocol):
        super().__init__()
        self._loop, self.addr, self.protocol = loop, addr, protocol
        self._closing = False

    def sendto(self, data, addr=None):
        if self._closing or not data:
            return
        self._loop.sendto(self.addr, addr, bytes(data))

    def is_closing(self):
        return self._closing

    def close(self, exc=None):
        if self._closing:
            return
        self._closing = True
        if self._loop.endpoints.get(self.addr) is self.protocol:
            del self._loop.endpoints[self.addr]
            self._loop.transports.pop(self.addr, None)
        if not self._loop.is_closed():
            self._loop.call_soon(self.protocol.connection_lost, exc)

    abort = close

    def get_extra_info(self, name, default=None):
        if name == 'sockname':
            return self.addr
        return default


class FakeEndpoint:
    """A harness-controlled UDP speaker (hostile / scripted contact).  Override datagram_received."""

    def __init__(self, loop, addr):
        self.loop, self.addr = loop, addr
        self.received = []

    def attach(self):
        self.loop.endpoints[self.addr] = self
        return self

    def detach(self):
        if self.loop.endpoints.get(self.addr) is self:
            del self.loop.endpoints[self.addr]

    def send(self, dst, data, src=None):
        self.loop.sendto(src or self.addr, dst, data)

    def datagram_received(self, data, src):
        self.received.append((data, src))


class Alphabet:
    """Which deviations from the default schedule a harness explores.
    reorder: early / non-oldest datagram delivery; timer: 'hit' (never past an in-flight datagram's RPC timeout),
    'any', or None (timers only when nothing else is pending); dup / drop / late: fault events;
    quiescent_only: choice points only at boundaries with an empty ready queue;
    faults_oldest_only: fault events only for the oldest in-flight datagram at quiescent boundaries (loss and lateness
    commute with everything that happens before the datagram would have been delivered, so this is the canonical
    representative of "datagram j is lost/late")."""
    __slots__ = ('reorder', 'timer', 'dup', 'drop', 'late', 'quiescent_only', 'faults_oldest_only', 'hold')

    def __init__(self, reorder=True, timer='hit', dup=False, drop=False, late=False, quiescent_only=False,
                 faults_oldest_only=False, hold=False):
        self.reorder, self.timer, self.dup, self.drop, self.late = reorder, timer, dup, drop, late
        self.quiescent_only, self.faults_oldest_only = quiescent_only, faults_oldest_only
        self.hold = hold       # HOLD(k): datagram k is overtaken by everything else that can happen without a timer firing

    def describe(self):
        return {k: getattr(self, k) for k in self.__slots__}


HIT_FULL = Alphabet(reorder=True, timer='hit', dup=True)
HIT_QUIESCENT = Alphabet(reorder=True, timer='hit', dup=True, quiescent_only=True)
LOSSY = Alphabet(reorder=False, timer=None, drop=True, late=True, faults_oldest_only=True)
HIT_HOLD = Alphabet(reorder=True, timer='hit', dup=True, hold=True)


class UdpLoop(VLoop):
    def __init__(self, close_on_error=False, rpc_timeout=5.0):
        super().__init__()
        self.endpoints = {}        # (ip, port) -> object with datagram_received(data, src)
        self.transports = {}       # (ip, port) -> FabricTransport (real protocols only)
        self.inflight = []         # the in-flight multiset, send order
        self.dgram_counter = 0
        self.stats = collections.Counter()
        self.dgram_errors = []     # exceptions that escaped datagram_received
        self.close_on_error = close_on_error
        self.rpc_timeout = rpc_timeout
        self.req_deadline = {}     # (requester addr, rpc id) -> virtual deadline of that request
        self.replied = collections.defaultdict(set)   # receiver addr -> endpoints that delivered a response/error to it
        self.sent_log = None       # list of (n, vtime, src, dst, ptype) while recording
        self._injected = set()     # destinations that already got a datagram at this iteration boundary
        self._timer_fired = False  # a timer was made ready at this boundary (no more I/O injection before STEP)
        self.trace_digest = None   # optional hashlib object fed with every delivery (observation log)
        self._recent_deadlines = collections.deque()   # RPC deadlines of requests sent, ascending
        self.boundaries = 0        # iteration boundaries visited by run_until (the unit of every step horizon)
        self.dup_on_send = None    # optional predicate(Dgram): the network duplicates these datagrams (scripted histories)
        self._was_held = set()
        self.held = []             # datagrams delayed until nothing else is deliverable (released before any timer fires)

    # -- endpoint creation ---------------------------------------------------------------------------------------
    async def create_datagram_endpoint(self, protocol_factory, local_addr=None, remote_addr=None, **kw):
        protocol = protocol_factory()
        ip = getattr(protocol, 'external_ip', None)
        port = getattr(protocol, 'udp_port', None)
        addr = (ip, port) if ip and port else tuple(local_addr)
        if addr in self.endpoints:
            raise OSError(98, f'address already in use: {addr}')
        tr = FabricTransport(self, addr, protocol)
        self.endpoints[addr] = protocol
        self.transports[addr] = tr
        protocol.connection_made(tr)
        return tr, protocol

    # -- the fabric ----------------------------------------------------------------------------------------------
    def sendto(self, src, dst, data):
        self.dgram_counter += 1
        ptype, rpc_id = classify(data)
        deadline = None
        if ptype == 0:
            deadline = self._vtime + self.rpc_timeout
            self.req_deadline[(src, rpc_id)] = deadline
            self._recent_deadlines.append(deadline)
        elif ptype is not None:
            deadline = self.req_deadline.get((dst, rpc_id))
        d = Dgram(self.dgram_counter, src, tuple(dst), data, self._vtime, deadline, ptype, rpc_id)
        self.inflight.append(d)
        self.stats['sent'] += 1
        if self.sent_log is not None:
            self.sent_log.append((d.n, self._vtime, src, d.dst, ptype))
        if self.dup_on_send is not None and self.dup_on_send(d):
            self.dup(len(self.inflight) - 1)
        return d

    def inject(self, k=0):
        d = self.inflight.pop(k)
        self._injected.add(d.dst)
        self.call_soon(self._read_ready, d)
        return d

    def drop(self, k):
        self.stats['dropped'] += 1
        return self.inflight.pop(k)

    def dup(self, k):
        o = self.inflight[k]
        self.dgram_counter += 1
        c = Dgram(self.dgram_counter, o.src, o.dst, o.data, o.sent_at, o.deadline, o.ptype, o.rpc_id, copy=True)
        self.inflight.append(c)
        self.stats['duplicated'] += 1
        return c

    def _read_ready(self, d):
        ep = self.endpoints.get(d.dst)
        if ep is None:
            self.stats['undeliverable'] += 1
            return
        self.stats['delivered'] += 1
        if self.trace_digest is not None:
            self.trace_digest.update(b'%s>%s:%d@%.3f;' % (d.src[0].encode(), d.dst[0].encode(),
                                                        -1 if d.ptype is None else d.ptype, self._vtime))
        if d.ptype in (1, 2):
            self.replied[d.dst].add(d.src)
        try:
            ep.datagram_received(d.data, d.src)
        except (SystemExit, KeyboardInterrupt):
            raise
        except BaseException as exc:   # noqa - exactly what Handle._run would do with _read_ready's exception
            self.dgram_errors.append({'dst': d.dst, 'src': d.src, 'exception': repr(exc), 'data': d.data,
                                      'vtime': self._vtime})
            self.call_exception_handler({'message': 'Exception in callback UdpFabric._read_ready()',
                                         'exception': exc})
            tr = self.transports.get(d.dst)
            if self.close_on_error and tr is not None:
                tr.close(exc)

    def step(self):
        n = super().step()
        self._injected.clear()
        self._timer_fired = False
        return n

    def fire_timer(self):
        r = super().fire_timer()
        if r:
            self._timer_fired = True
        return r

    def advance_to(self, t, max_steps=50_000_000):
        """Default schedule until virtual time t exactly (timers due at t are fired and run).  Returns False when the
        step budget ran out first (virtual time is not advancing: some exchange never quiesces)."""
        status = self.run_until(lambda: False, horizon_t=t, max_steps=max_steps)
        if status == 'horizon_steps':
            return False
        if self._vtime < t:
            self._vtime = t
        return True

    # -- schedule drivers ----------------------------------------------------------------------------------------
    def timer_allowed_hit(self, when):
        """'hit' rule (DESIGN.md A.6, made precise): exploration may let a timer fire ahead of pending work only if that
        timer is due strictly before the RPC deadline of every request sent during the last rpc_timeout seconds.  So
        neither a held datagram nor a stalled loop can make an RPC time out (delay that long is indistinguishable from
        loss, which no lookup protocol can mask); shorter delays across the periodic timers are all explored."""
        dl = self._recent_deadlines
        while dl and dl[0] <= self._vtime:
            dl.popleft()
        return not dl or when < dl[0]

    def enabled_events(self, alpha, horizon_t=None):
        """[(kind, k, cost, label)] in canonical order (A.1); element 0 always has cost 0."""
        ev = []
        ready = bool(self._ready)
        if ready:
            ev.append(('STEP', None, 0, 'S'))
            if alpha.quiescent_only:
                return ev
        if not self._timer_fired:
            first = True
            for k, d in enumerate(self.inflight):
                if d.dst in self._injected:
                    continue
                cost = (1 if ready else 0) + (0 if first else 1)
                first = False
                if cost and not alpha.reorder:
                    continue
                ev.append(('DGRAM', k, cost, f'D{d.n}'))
        h = self.next_timer()
        if h is not None:
            pending = ready or bool(self.inflight)
            if not pending:
                ev.append(('TIMER', None, 0, 'T'))
            elif horizon_t is not None and h._when > horizon_t:
                pass        # a timer beyond the observation horizon cannot overtake pending work inside the horizon
            elif alpha.timer == 'any' or (alpha.timer == 'hit' and self.timer_allowed_hit(h._when)):
                ev.append(('TIMER', None, 1, 'T'))
        if alpha.drop or alpha.late or alpha.dup:
            ks = range(len(self.inflight))
            if alpha.faults_oldest_only:
                ks = range(min(1, len(self.inflight))) if not ready else ()
            if alpha.drop:
                for k in ks:
                    ev.append(('DROP', k, 1, f'X{self.inflight[k].n}'))
            if alpha.late:
                for k in ks:
                    if not self.inflight[k].copy:
                        ev.append(('LATE', k, 1, f'L{self.inflight[k].n}'))
            if alpha.dup:
                for k in ks:
                    ev.append(('DUP', k, 1, f'U{self.inflight[k].n}'))
        if alpha.hold and len(self.inflight) + len(self._ready) > 1:
            for k, d in enumerate(self.inflight):
                if not d.copy and d.n not in self._was_held:
                    ev.append(('HOLD', k, 1, f'H{d.n}'))
        return ev

    def hold(self, k):
        """Maximal delay that costs no virtual time: the datagram is delivered only when the ready queue and the rest of the
        in-flight multiset have drained, but before any timer fires (so never past an RPC timeout)."""
        d = self.inflight.pop(k)
        self._was_held.add(d.n)
        self.held.append(d)
        self.stats['held'] += 1
        return d

    def _release_held(self):
        self.inflight.extend(self.held)
        self.held.clear()

    def late(self, k):
        """Hold datagram k until just after the RPC timeout of the request it belongs to (over-timeout delay)."""
        d = self.inflight.pop(k)
        release = (d.deadline if d.deadline is not None else self._vtime + self.rpc_timeout) + 0.001
        self.stats['late'] += 1
        self.call_at(max(release, self._vtime), self._release, d)
        return d

    def _release(self, d):
        self.inflight.append(d)

    def run_until(self, done, chooser=None, budget=None, alpha=None, max_steps=400_000, horizon_t=None,
                  on_choice=None):
        """Run until done() is true at an iteration boundary.

        chooser None (or deviation budget spent): default schedule.  Otherwise every boundary with more than one
        enabled event is a choice point.  Returns 'done' | 'horizon_time' (next event lies beyond horizon_t) |
        'horizon_steps' | 'deadlock'."""
        spent = 0
        steps = 0
        alpha = alpha or HIT_FULL
        while True:
            if done():
                return 'done'
            steps += 1
            self.boundaries += 1
            if steps > max_steps:
                return 'horizon_steps'
            if self.held and not self._ready and not self.inflight:
                self._release_held()
            explore = chooser is not None and (budget is None or spent < budget)
            if not explore:
                if self._ready:
                    self.step()
                    continue
                if self.inflight:
                    self.inject(0)
                    continue
                h = self.next_timer()
                if h is None:
                    return 'deadlock'
                if horizon_t is not None and h._when > horizon_t:
                    return 'horizon_time'
                self.fire_timer()
                continue
            ev = self.enabled_events(alpha, horizon_t)
            if not ev:
                if not self._ready and not self.inflight and self.next_timer() is None:
                    return 'deadlock'
                raise RuntimeError('udpfab: no enabled event but work pending')
            if len(ev) == 1:
                c = 0
            else:
                c = chooser.choose(len(ev), [e[2] for e in ev], '|'.join(e[3] for e in ev))
            kind, k, cost, _ = ev[c]
            spent += cost
            if on_choice is not None and c:
                on_choice(kind, k, cost)
            if kind == 'STEP':
                self.step()
            elif kind == 'DGRAM':
                self.inject(k)
            elif kind == 'TIMER':
                h = self.next_timer()
                if horizon_t is not None and h._when > horizon_t:
                    return 'horizon_time'
                self.fire_timer()
            elif kind == 'DROP':
                self.drop(k)
            elif kind == 'LATE':
                self.late(k)
            elif kind == 'DUP':
                self.dup(k)
            elif kind == 'HOLD':
                self.hold(k)

    def run_task(self, coro, **kw):
        """Create a task for coro and drive it with run_until; returns (status, task)."""
        self.activate()
        t = self.create_task(coro)
        status = self.run_until(t.done, **kw)
        return status, t


# ---- fork snapshots ---------------------------------------------------------------------------------------------------
def fork_call(fn, *args):
    """Run fn(*args) in a forked copy of this (single-threaded) process and return its picklable result.  The parent's
    state is untouched, so an expensive deterministic prefix (network join) is paid once per snapshot."""
    r, w = os.pipe()
    pid = os.fork()
    if pid == 0:
        code = 0
        try:
            os.close(r)
            try:
                out = (True, fn(*args))
            except BaseException:   # noqa
                out = (False, traceback.format_exc())
            with os.fdopen(w, 'wb') as f:
                pickle.dump(out, f, protocol=pickle.HIGHEST_PROTOCOL)
        except BaseException:   # noqa
            code = 3
        finally:
            os._exit(code)
    os.close(w)
    with os.fdopen(r, 'rb') as f:
        data = f.read()
    _, status = os.waitpid(pid, 0)
    if status != 0 or not data:
        raise RuntimeError(f'forked snapshot child failed (status {status})')
    ok, val = pickle.loads(data)
    if not ok:
        raise RuntimeError('forked snapshot child raised:\n' + val)
    return val


# ---- networks of real Nodes -------------------------------------------------------------------------------------------
def node_id(i) -> bytes:
    return hashlib.sha384(str(i).encode()).digest()


def node_ip(i) -> str:
    return f'1.2.{3 + i // 200}.{i % 200 + 1}'


def node_addr(i):
    return node_ip(i), UDP_PORT


class _DetUrandom:
    """Deterministic stand-in for the `os` name inside lbry.dht.constants (generate_id -> os.urandom)."""

    def __init__(self, seed):
        self.seed, self.n = seed, 0

    def urandom(self, k):
        out = b''
        while len(out) < k:
            self.n += 1
            out += hashlib.sha256(b'vf-urandom:%d:%d' % (self.seed, self.n)).digest()
        return out[:k]


def patch_determinism(seed=0):
    """Owns the randomness the DHT code draws from: rpc ids / token secrets (constants.os.urandom) and the random
    bucket-refresh ids (routing_table.random).  Idempotent; restarts both streams."""
    import random
    from lbry.dht import constants
    from lbry.dht.protocol import routing_table
    constants.os = _DetUrandom(seed)
    routing_table.random = random.Random(1_000_003 * seed + 12)


def clear_caches():
    """Module-level caches that survive between executions in a long-lived worker."""
    from lbry.dht import peer
    from lbry.dht.protocol.protocol import KademliaProtocol
    peer.make_kademlia_peer.cache_clear()
    KademliaProtocol.get_rpc_peer.cache_clear()


class Net:
    """n real Nodes on one UdpLoop; node i has id sha384(str(i)) and address 1.2.3.(i+1):4444, bootstrap = node 0."""

    def __init__(self, n, seed=0, close_on_error=False):
        from lbry.dht.node import Node
        from lbry.dht.peer import PeerManager
        clear_caches()
        patch_determinism(seed)
        self.n = n
        self.loop = UdpLoop(close_on_error=close_on_error)
        self.loop.activate()
        self.nodes = [Node(self.loop, PeerManager(self.loop), node_id(i), UDP_PORT, UDP_PORT, TCP_PORT, node_ip(i))
                      for i in range(n)]
        self.ids = [node_id(i) for i in range(n)]
        self.started_at = {}

    def start(self, order=None, stagger=0.0):
        """Start the nodes in `order` (a permutation of range(n)); position k starts at k*stagger virtual seconds.
        Every node except node 0 knows only the bootstrap node's address."""
        order = list(order) if order is not None else list(range(self.n))
        assert sorted(order) == list(range(self.n))
        boot = [(node_ip(0), UDP_PORT)]

        def go(i):
            self.started_at[i] = self.loop.time()
            self.nodes[i].start('0.0.0.0', [] if i == 0 else boot)

        for k, i in enumerate(order):
            if stagger == 0:
                go(i)
            else:
                self.loop.call_later(k * stagger, go, i)

    def tables(self):
        """Canonical snapshot of all routing tables: per node the sorted ids per bucket range."""
        out = []
        for nd in self.nodes:
            out.append(tuple((b.range_min, b.range_max, tuple(sorted(p.node_id for p in b.peers)))
                             for b in nd.protocol.routing_table.buckets))
        return tuple(out)

    def known(self, i):
        return {p.node_id for p in self.nodes[i].protocol.routing_table.get_peers()}

    def join(self, min_t=4000.0, window=600.0, max_t=16000.0):
        """Default schedule until every node has joined and the routing tables did not change over a whole `window`
        of virtual seconds that starts at or after min_t.  Returns dict(fixed, vtime, datagrams)."""
        lp = self.loop
        # step budget per leg: whole joins were measured at 14.6k (n=2) .. 68k (n=40) iteration boundaries; more than
        # 10x that with virtual time still short of the target means "virtual time does not advance" (a lookup that
        # never ends spins without consuming time)
        budget = 150_000 + 15_000 * self.n
        if not lp.advance_to(min_t, max_steps=budget):
            return {'fixed': False, 'stuck': True, 'vtime': lp.time(), 'datagrams': lp.stats['sent']}
        snap = self.tables()
        fixed = False
        while lp.time() < max_t:
            if not lp.advance_to(lp.time() + window, max_steps=budget):
                return {'fixed': False, 'stuck': True, 'vtime': lp.time(), 'datagrams': lp.stats['sent']}
            cur = self.tables()
            if cur == snap and all(nd.joined.is_set() for nd in self.nodes[1:] or self.nodes):
                fixed = True
                break
            snap = cur
        return {'fixed': fixed, 'stuck': False, 'vtime': lp.time(), 'datagrams': lp.stats['sent']}

    def stop(self):
        self.loop.activate()
        for nd in self.nodes:
            try:
                nd.stop()
            except Exception:   # noqa - nodes that were replaced by fake endpoints may be half-stopped already
                pass
        # let every task unwind while the loop is still open (their finally blocks call loop.call_soon)
        self.loop.inflight.clear()
        for _ in range(50):
            pending = [t for t in asyncio.all_tasks(self.loop) if not t.done()]
            if not pending and not self.loop._ready:
                break
            for t in pending:
                t.cancel()
            self.loop.step()
        self.loop.shutdown()
        clear_caches()
