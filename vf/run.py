"""E5 (part 2) - the runner: `python -m vf.run <ID> --tier quick|thorough [--replay file]`.

Parent process: decides the PYTHONHASHSEED values, runs the check once per value in a child process
(so that hash-set iteration order is a controlled input), merges the partial results, matches
violations against /verif/known_findings.json, writes replay artefacts and evidence, sets the exit
code.  Exit 0 = property held on everything explored (KNOWN-FINDING lines allowed); exit 1 = at least
one unlisted violation (VIOLATION line per signature); exit 2 = the harness itself failed.
"""
import os
import sys
import json
import time
import hashlib
import argparse
import importlib
import subprocess

ROOT = os.path.dirname(os.path.dirname(os.path.abspath(__file__)))
sys.path.insert(0, ROOT)

from vf.core import Ctx, Result, sig_key, jsonable   # noqa: E402

KNOWN = os.path.join(ROOT, 'known_findings.json')
EVIDENCE_DIR = os.environ.get('VERIF_EVIDENCE_DIR') or os.path.join(ROOT, 'evidence')
REPLAY_DIR = os.environ.get('VERIF_REPLAY_DIR') or os.path.join(ROOT, 'replays')
SCHEMA = '/root/.vp/EVIDENCE.schema.json'
SCHEMA_COPY = os.path.join(ROOT, 'vf', 'EVIDENCE.schema.json')


def load_check(prop):
    return importlib.import_module(f'checks.{prop.lower()}')


def child_main(args):
    import vf.bootstrap  # noqa: F401
    mod = load_check(args.prop)
    ctx = Ctx(args.prop, args.tier, args.seed, args.hashseed)
    t0 = time.time()
    try:
        mod.run(ctx)
    except BaseException:   # noqa
        import traceback
        ctx.res.error('check.run raised: ' + traceback.format_exc()[-3000:])
    out = {'result': ctx.res.to_json(), 'meta': jsonable(ctx.meta), 'wall_s': time.time() - t0,
           'hashseed': args.hashseed}
    with open(args.out, 'w') as f:
        json.dump(out, f)
    return 0


def hashseeds_for(mod, tier, seed):
    n = getattr(mod, 'HASHSEEDS', {}).get(tier, 1)
    return [(seed + i) % 8 for i in range(n)]


def load_known(prop):
    if not os.path.exists(KNOWN):
        return []
    with open(KNOWN) as f:
        data = json.load(f)
    return [e for e in data if e.get('property') == prop]


def parent_main(args):
    t0 = time.time()
    prop = args.prop
    seed = args.seed
    # light import of the check module's static attributes without importing lbry in the parent:
    # the module keeps heavy imports inside functions or we simply read attributes via a child.
    static = read_static(prop)
    level = static['LEVEL']
    nseeds = static.get('HASHSEEDS', {}).get(args.tier, 1)
    seeds = [(seed + i) % 8 for i in range(nseeds)]
    run_dir = os.path.join(ROOT, '.cache', 'run', prop)
    os.makedirs(run_dir, exist_ok=True)
    merged = Result()
    meta = {}
    per_seed = []
    for hs in seeds:
        out = os.path.join(run_dir, f'{args.tier}.{hs}.{os.getpid()}.json')
        env = dict(os.environ)
        env['PYTHONHASHSEED'] = str(hs)
        env['PYTHONDONTWRITEBYTECODE'] = '1'
        cmd = [sys.executable, '-m', 'vf.run', prop, '--tier', args.tier, '--seed', str(seed),
               '--child', '--hashseed', str(hs), '--out', out]
        p = subprocess.run(cmd, cwd=ROOT, env=env)
        if p.returncode != 0 or not os.path.exists(out):
            merged.error(f'child for hashseed {hs} exited {p.returncode} without result')
            continue
        with open(out) as f:
            d = json.load(f)
        os.remove(out)
        r = Result.from_json(d['result'])
        per_seed.append({'hashseed': hs, 'wall_s': round(d['wall_s'], 2),
                         'evaluations': r.counters.get('evaluations', 0),
                         'executions': r.counters.get('executions', 0),
                         'violation_signatures': len(r.violations)})
        merged.merge(r)
        meta = d['meta'] or meta

    known = load_known(prop)
    open_known = {sig_key(e['signature']): e for e in known if e.get('status') == 'open'}
    unlisted = []
    listed = []
    for k, v in merged.violations.items():
        if k in open_known:
            listed.append((open_known[k], v))
        else:
            unlisted.append((k, v))
    for e, v in listed:
        print(f"KNOWN-FINDING: property={prop} {e['what']} [{v['count']} case(s)]")
    os.makedirs(os.path.join(REPLAY_DIR, prop), exist_ok=True)
    for k, v in sorted(unlisted):
        h = hashlib.sha1(k.encode()).hexdigest()[:12]
        path = os.path.join(REPLAY_DIR, prop, f'{h}.json')
        with open(path, 'w') as f:
            json.dump({'property': prop, 'tier': args.tier, 'signature': v['signature'],
                       'what': v['what'], 'count': v['count'], 'replay': v['replay']}, f, indent=1)
        print(f"VIOLATION property={prop} replay={path}")
        print(f"  what: {v['what']}  signature: {json.dumps(v['signature'], sort_keys=True)}  cases: {v['count']}")
    for e in merged.errors:
        print('HARNESS-ERROR:', e)

    write_evidence(prop, args.tier, seed, level, merged, meta, per_seed, time.time() - t0,
                   len(unlisted), [e['what'] for e, _ in listed])
    c = merged.counters
    print(f"[{prop} {args.tier}] evaluations={c.get('evaluations', 0)} executions={c.get('executions', 0)} "
          f"states={len(merged.distinct.get('states', ())) or c.get('states', 0)} transitions={c.get('transitions', 0)} "
          f"violations={len(unlisted)} known={len(listed)} wall={time.time() - t0:.1f}s")
    if unlisted:
        return 1          # a violation was demonstrated; harness errors (printed above) do not mask it
    return 2 if merged.errors else 0


def read_static(prop):
    """LEVEL / HASHSEEDS of a check module, read without importing lbry (ast literal scan)."""
    import ast
    path = os.path.join(ROOT, 'checks', f'{prop.lower()}.py')
    tree = ast.parse(open(path).read())
    out = {}
    for node in tree.body:
        if isinstance(node, ast.Assign) and len(node.targets) == 1 and isinstance(node.targets[0], ast.Name):
            if node.targets[0].id in ('LEVEL', 'HASHSEEDS', 'PROPERTY'):
                out[node.targets[0].id] = ast.literal_eval(node.value)
    return out


def write_evidence(prop, tier, seed, level, res, meta, per_seed, wall, n_viol, known_whats):
    c = res.counters
    cov = {}
    nontrivial = len(res.distinct.get('nontrivial', ()))
    cov['evaluations'] = int(c.get('evaluations', 0) or c.get('executions', 0) or c.get('transitions', 0))
    cov['distinct_nontrivial'] = int(nontrivial)
    cov['rule'] = meta.get('rule', '')
    cov['samples'] = res.samples or [{'note': 'no sample recorded'}]
    cov['exhaustive'] = bool(meta.get('exhaustive', False)) and not c.get('capped', 0)
    if level == 'model_checking':
        cov['states'] = int(len(res.distinct.get('states', ())) or c.get('states', 0))
        cov['transitions'] = int(c.get('transitions', 0))
        cov['traces_validated_against_impl'] = int(c.get('executions', 0))
        cov['validation'] = ('every explored trace is an execution of the real lbry code imported from /repo '
                             '(no separate model); determinism self-check replays: '
                             f"{int(c.get('determinism_replays', 0))}")
    for k in ('bounds', 'bound_completed', 'alphabet', 'interpretation'):
        if k in meta:
            cov[k] = meta[k]
    cov['counters'] = {k: int(v) for k, v in sorted(c.items())}
    cov['maxes'] = res.maxes
    cov['distinct_sets'] = {k: len(s) for k, s in sorted(res.distinct.items())}
    cov['coverage_witnesses'] = {k: int(v) for k, v in sorted(res.witnesses.items())}
    missing = [w for w in meta.get('expected_witnesses', []) if not res.witnesses.get(w)]
    if missing:
        cov['missing_witnesses_WARNING'] = missing
    cov['tallies'] = {k: int(v) for k, v in sorted(res.tallies.items())}
    cov['per_hashseed'] = per_seed
    cov['known_findings_reported'] = known_whats
    ev = {
        'property_id': prop, 'tier': tier, 'seed': int(seed), 'level': level, 'coverage': cov,
        'assumptions': list(meta.get('assumptions', [])), 'wall_s': round(wall, 2),
        'violations': int(n_viol),
    }
    os.makedirs(EVIDENCE_DIR, exist_ok=True)
    path = os.path.join(EVIDENCE_DIR, f'{prop}.json')
    with open(path, 'w') as f:
        json.dump(ev, f, indent=1, sort_keys=True)
    try:
        import jsonschema
        sp = SCHEMA if os.path.exists(SCHEMA) else SCHEMA_COPY
        jsonschema.validate(ev, json.load(open(sp)))
    except ImportError:
        pass
    except Exception as e:   # noqa
        print('HARNESS-ERROR: evidence does not validate:', str(e)[:500])
        res.error('evidence invalid')


def replay_main(args):
    import vf.bootstrap  # noqa: F401
    mod = load_check(args.prop)
    with open(args.replay) as f:
        data = json.load(f)
    rep = data.get('replay', data)
    violated, log = mod.replay(rep)
    print(log)
    print('REPLAY', 'VIOLATION' if violated else 'OK', f'property={args.prop}')
    return 1 if violated else 0


def main():
    ap = argparse.ArgumentParser()
    ap.add_argument('prop')
    ap.add_argument('--tier', default=os.environ.get('VERIF_TIER', 'quick'), choices=['quick', 'thorough'])
    ap.add_argument('--seed', type=int, default=int(os.environ.get('VERIF_SEED', '0') or 0))
    ap.add_argument('--replay')
    ap.add_argument('--child', action='store_true')
    ap.add_argument('--hashseed', type=int, default=0)
    ap.add_argument('--out')
    args = ap.parse_args()
    args.prop = args.prop.upper()
    if args.replay:
        sys.exit(replay_main(args))
    if args.child:
        sys.exit(child_main(args))
    sys.exit(parent_main(args))


if __name__ == '__main__':
    main()
