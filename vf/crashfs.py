"""E4 - crashfs: a recording in-memory POSIX file system and its crash-image enumerator.

The model (DESIGN.md section 2, E4)
-----------------------------------
* An **inode** has `durable` content (what a power cut cannot take away) and an ordered list of
  **volatile** data operations issued since the last fsync of that inode: ('w', offset, bytes) and
  ('t', size).  `fsync(fd)` / `fdatasync(fd)` folds the volatile list into `durable`.
* The **namespace** (path -> inode, plus inode modes) exists in two versions: the *current* one every
  call sees, and the *durable* one.  Every namespace operation (create, mkdir, rename, link, unlink,
  rmdir, chmod) is atomic, is applied to the current version at once and appended to one global queue of
  **pending directory operations**.  The queue is committed (applied to the durable version, in issue
  order) by `fsync` of a directory fd, by `os.sync()`, and - with `journal=True`, the ordered-journal
  behaviour of ext4/xfs where an fsync forces the log up to the present - by `fsync` of any file fd.
  With `journal=False` a file fsync makes only that file's data durable (strict POSIX; btrfs-like).
* Python-level buffering is modelled: `f.write()` fills a user-space buffer that reaches the inode
  (one logged 'write') on `flush()`, `close()`, a read/seek on the same object, or when it outgrows
  `buffer_size`.  Bytes still in the buffer die with the process.

* The builtin `open()` is modelled the way CPython's FileIO works: the mode string is translated to O_* flags
  ("w" = O_WRONLY|O_CREAT|O_TRUNC|O_CLOEXEC ...), the descriptor comes from `opener(path, flags)` when one is
  given and from the fake `os.open(path, flags, 0o666)` otherwise, and the file object is a view on *that*
  descriptor.  Creation, exclusivity, truncation, append and the access mode are therefore decided only by the
  flags that reach the fake `os.open` (an opener that drops O_TRUNC leaves the old bytes in place; a write through
  an O_RDONLY descriptor is EBADF).  `os.open/close/read/write/lseek/fstat/ftruncate/fdopen/fchmod` and the
  Linux O_* values are provided.  Nothing is ignored silently: unknown keyword arguments are a TypeError,
  un-modelled ones (`dir_fd=`, `follow_symlinks=False`, unknown flag bits, a descriptor this file system did not
  hand out) raise NotImplementedError/RuntimeError, missing os attributes raise AttributeError.

Crash images
------------
For **every prefix of the operation log** (`crash_points()`), the images a crash at that point may leave:
the durable namespace plus **any prefix of the pending directory operations** (the un-synced tail may be
lost, never the middle), and for every file reachable in that namespace its durable content plus **any
byte prefix of its volatile data operations** (whole operations in issue order, the last one possibly
torn at any byte; truncations are atomic).  Data and namespace persistence are independent unless an
fsync orders them - that is what makes "rename before the data is synced" observable.  Nothing else is
generated: no reordering of namespace operations, no reordering of writes inside one file, no torn
metadata - i.e. no image an ordered-journal POSIX file system could not leave behind.

Use
---
    fs = CrashFS(files={'/w/old.json': b'{}'})
    with fs.bound(lbry.wallet.wallet):            # module.open / module.os now talk to fs
        WalletStorage('/w/old.json').write({...})
    for cp in fs.crash_points():
        for img in cp.images():                   # torn='all' | 'edges' | 'none' | f(len)->lengths
            rfs = img.mount()
            with rfs.bound(lbry.wallet.wallet):
                ... run the real recovery path ...
    img.choice is JSON-able; cp.image(choice) rebuilds exactly that image (replay files).
"""
import errno
import itertools
import posixpath
import stat as _stat
import types

__all__ = ['CrashFS', 'CrashPoint', 'Image', 'FakeFile', 'selftest']

S_IFREG, S_IFDIR = _stat.S_IFREG, _stat.S_IFDIR


def _apply_data(content, op, partial=None):
    """Apply one volatile data operation (optionally only its first `partial` bytes) to bytes."""
    if op[0] == 't':
        size = op[1]
        return content[:size] if size <= len(content) else content + b'\0' * (size - len(content))
    _, off, data = op
    if partial is not None:
        data = data[:partial]
        if not data:
            return content
    if off > len(content):
        content = content + b'\0' * (off - len(content))
    return content[:off] + data + content[off + len(data):]


def _apply_dirop(names, modes, op):
    kind = op[0]
    if kind in ('create', 'mkdir', 'link'):
        names[op[1]] = op[2]
        if kind != 'link':
            modes[op[2]] = op[3]
    elif kind in ('unlink', 'rmdir'):
        names.pop(op[1], None)
    elif kind == 'rename':
        src, dst = op[1], op[2]
        if src in names:
            ino = names.pop(src)
            names[dst] = ino
            # a renamed directory carries its children
            pre = src.rstrip('/') + '/'
            for p in [p for p in names if p.startswith(pre)]:
                names[dst.rstrip('/') + '/' + p[len(pre):]] = names.pop(p)
    elif kind == 'chmod':
        modes[op[1]] = op[2]
    else:   # pragma: no cover
        raise AssertionError(op)


class _Inode:
    __slots__ = ('ino', 'kind', 'durable', 'vol')

    def __init__(self, ino, kind, durable=b''):
        self.ino, self.kind, self.durable, self.vol = ino, kind, durable, []

    def current(self):
        c = self.durable
        for op in self.vol:
            c = _apply_data(c, op)
        return c


class _Snap:
    """Immutable picture of everything a crash enumerator needs, taken between two logged operations."""
    __slots__ = ('dnames', 'dmodes', 'dq', 'inodes', 'version')

    def __init__(self, dnames, dmodes, dq, inodes, version):
        self.dnames, self.dmodes, self.dq, self.inodes, self.version = dnames, dmodes, dq, inodes, version


class Op:
    __slots__ = ('index', 'name', 'detail', 'mutating', 'error')

    def __init__(self, index, name, detail, mutating):
        self.index, self.name, self.detail, self.mutating, self.error = index, name, detail, mutating, None

    def __repr__(self):
        d = ' '.join(f'{k}={v!r}' for k, v in self.detail.items())
        return f'#{self.index} {self.name} {d}' + (f' !{self.error}' if self.error else '')

    def brief(self):
        return [self.name] + [v for v in self.detail.values()]


class CrashFS:
    def __init__(self, files=None, dirs=(), journal=True, buffer_size=8192, pid=4242, umask=0o022,
                 urandom=None):
        self.journal = journal
        self.buffer_size = buffer_size
        self.pid = pid
        self.umask = umask
        self._urandom = urandom
        self._inodes = {}
        self._next_ino = 2
        self._next_fd = 100
        self._fds = {}                 # fd -> _FD
        self.names = {}                # current namespace: normalised absolute path -> ino
        self.modes = {}                # current modes: ino -> st_mode
        self._dnames = {}              # durable namespace
        self._dmodes = {}
        self._dq = []                  # pending directory operations since the last commit
        self._version = 0              # bumped by every state change (cheap "same state" test)
        self.log = []                  # [Op]
        self.fault_hook = None         # f(name, detail) -> exception to raise instead of doing the op
        root = self._new_inode('d')
        self.names['/'] = root
        self.modes[root] = S_IFDIR | 0o755
        for d in dirs:
            self._mk_parents(d + '/x')
        for path, content in (files or {}).items():
            path = self._norm(path)
            self._mk_parents(path)
            ino = self._new_inode('f', bytes(content))
            self.names[path] = ino
            self.modes[ino] = S_IFREG | (0o666 & ~umask)
        self._dnames = dict(self.names)
        self._dmodes = dict(self.modes)
        self._snaps = [self._snapshot()]       # _snaps[k] = state before log[k]; last = current state
        self.open = self._open                 # the object to bind as a module's `open`
        self.os = FakeOS(self)                 # the object to bind as a module's `os`

    # ---- internals -------------------------------------------------------------------------------
    def _new_inode(self, kind, content=b''):
        ino = self._next_ino
        self._next_ino += 1
        self._inodes[ino] = _Inode(ino, kind, content)
        return ino

    def _mk_parents(self, path):
        parts = self._norm(path).split('/')[1:-1]
        cur = ''
        for p in parts:
            cur += '/' + p
            if cur not in self.names:
                ino = self._new_inode('d')
                self.names[cur] = ino
                self.modes[ino] = S_IFDIR | 0o755

    @staticmethod
    def _norm(path):
        if isinstance(path, bytes):
            path = path.decode()
        if hasattr(path, '__fspath__'):
            path = path.__fspath__()
        if not isinstance(path, str):
            raise TypeError(f'crashfs: path must be str, got {type(path).__name__}')
        return posixpath.normpath(posixpath.join('/', path))

    def _snapshot(self):
        return _Snap(self._dnames, self._dmodes, tuple(self._dq),
                     {i: (n.kind, n.durable, tuple(n.vol)) for i, n in self._inodes.items()}, self._version)

    def _begin(self, name, mutating, **detail):
        op = Op(len(self.log), name, detail, mutating)
        if self.fault_hook is not None:
            exc = self.fault_hook(name, detail)
            if exc is not None:
                op.error = type(exc).__name__
                self.log.append(op)
                self._snaps.append(self._snaps[-1])
                raise exc
        self.log.append(op)
        return op

    def _end(self, op):
        """Called when the operation has taken effect (or failed): record the state after it."""
        last = self._snaps[-1]
        self._snaps.append(last if last.version == self._version else self._snapshot())

    def _fail(self, op, exc):
        op.error = type(exc).__name__
        self._end(op)
        raise exc

    def _dirop(self, *op):
        _apply_dirop(self.names, self.modes, op)
        self._dq.append(op)
        self._version += 1

    def _commit_dirops(self):
        if self._dq:
            names, modes = dict(self._dnames), dict(self._dmodes)
            for op in self._dq:
                _apply_dirop(names, modes, op)
            self._dnames, self._dmodes, self._dq = names, modes, []
            self._version += 1

    def _data_op(self, ino, op):
        self._inodes[ino].vol.append(op)
        self._version += 1

    def _sync_inode(self, ino):
        n = self._inodes[ino]
        if n.vol:
            n.durable = n.current()
            n.vol = []
            self._version += 1

    def _enoent(self, path):
        return FileNotFoundError(errno.ENOENT, 'No such file or directory', path)

    def _parent_check(self, path):
        parent = posixpath.dirname(path)
        ino = self.names.get(parent)
        if ino is None:
            raise self._enoent(path)
        if self._inodes[ino].kind != 'd':
            raise NotADirectoryError(errno.ENOTDIR, 'Not a directory', path)

    # ---- open() ----------------------------------------------------------------------------------
    def _open(self, file, mode='r', buffering=-1, encoding=None, errors=None, newline=None, closefd=True,
              opener=None):
        """The builtin open(), done the way CPython's FileIO does it: the mode string becomes O_* flags, the
        descriptor comes from `opener(file, flags)` (default: this file system's os.open with mode 0o666) and
        the returned object is a view on *that descriptor* - whether the file is created, truncated or
        appended to is decided only by the flags that reach os.open."""
        if not isinstance(mode, str):
            raise TypeError(f'open() argument mode must be str, not {type(mode).__name__}')
        chars = set(mode)
        if not chars <= set('rwxabt+') or len(chars & set('rwxa')) != 1 or ('b' in chars and 't' in chars) \
                or len(mode) != len(chars):
            raise ValueError(f'invalid mode: {mode!r}')
        binary = 'b' in chars
        if binary and (encoding is not None or errors is not None or newline is not None):
            raise ValueError("binary mode doesn't take an encoding/errors/newline argument")
        if not isinstance(buffering, int):
            raise TypeError('buffering must be an integer')
        if buffering == 0 and not binary:
            raise ValueError("can't have unbuffered text I/O")
        if newline not in (None, '', '\n', '\r', '\r\n'):
            raise ValueError(f'illegal newline value: {newline!r}')
        readable = 'r' in chars or '+' in chars
        writable = bool(chars & set('wxa')) or '+' in chars
        O = self.os
        flags = O.O_RDWR if readable and writable else O.O_RDONLY if readable else O.O_WRONLY
        if 'w' in chars:
            flags |= O.O_CREAT | O.O_TRUNC
        elif 'x' in chars:
            flags |= O.O_CREAT | O.O_EXCL
        elif 'a' in chars:
            flags |= O.O_CREAT | O.O_APPEND
        flags |= O.O_CLOEXEC
        if isinstance(file, bool) or isinstance(file, float):
            raise TypeError('integer argument expected')
        if isinstance(file, int):
            if opener is not None:
                raise NotImplementedError('crashfs: open(fd, opener=...) is not modelled')
            if file < 0:
                raise ValueError('negative file descriptor')
            fd = file
            if fd not in self._fds:
                raise OSError(errno.EBADF, 'Bad file descriptor')
        else:
            self._norm(file)                               # type check of the name
            if not closefd:
                raise ValueError('Cannot use closefd=False with file name')
            if opener is None:
                fd = O.open(file, flags, 0o666)
            else:
                fd = opener(file, flags)
                if isinstance(fd, bool) or not isinstance(fd, int):
                    raise TypeError('expected integer from opener')
                if fd < 0:
                    raise ValueError(f'opener returned {fd}')
                if fd not in self._fds:
                    raise RuntimeError(f'crashfs: the opener returned descriptor {fd}, which this fake file system did '
                                       f'not hand out - the opener must go through the bound fake os.open')
        ent = self._fds[fd]
        if self._inodes[ent.ino].kind == 'd':
            if closefd:
                self._fds.pop(fd, None)
            raise IsADirectoryError(errno.EISDIR, 'Is a directory', file)
        f = FakeFile(self, ent, file, mode, binary, encoding or 'utf-8', errors or 'strict', newline,
                     readable=readable, writable=writable, unbuffered=(buffering == 0), closefd=closefd)
        if 'a' in chars:
            f._pos = len(self._inodes[ent.ino].current())     # FileIO seeks to the end once, best effort
        return f

    # ---- binding into a module under test ---------------------------------------------------------
    def bound(self, *modules, names=('open', 'os')):
        return _Binding(self, modules, names)

    # ---- convenience for harnesses ----------------------------------------------------------------
    def read_current(self, path):
        """Bytes a running process would read now (None if absent); not logged."""
        ino = self.names.get(self._norm(path))
        if ino is None or self._inodes[ino].kind != 'f':
            return None
        return self._inodes[ino].current()

    def listing(self):
        return sorted(p for p, i in self.names.items() if self._inodes[i].kind == 'f')

    def mutating_ops(self):
        return [op for op in self.log if op.mutating]

    # ---- crash enumeration ------------------------------------------------------------------------
    def crash_points(self, distinct=True):
        """One CrashPoint per prefix of the log: k = number of operations that completed (0..len(log)).
        With distinct=True prefixes whose file-system state equals the previous prefix's (the operation in
        between only looked) are skipped - their images are identical by construction."""
        prev = None
        for k, snap in enumerate(self._snaps):
            if distinct and prev is not None and snap is prev:
                continue
            prev = snap
            yield CrashPoint(self, k, snap)

    def crash_point(self, k):
        return CrashPoint(self, k, self._snaps[k])


class CrashPoint:
    def __init__(self, fs, k, snap):
        self.fs, self.k, self.snap = fs, k, snap

    @property
    def label(self):
        """Human description: which operation the crash precedes."""
        log = self.fs.log
        before = repr(log[self.k]) if self.k < len(log) else '<end of log>'
        return f'crash after {self.k} ops, before {before}'

    def pending_dirops(self):
        return list(self.snap.dq)

    def namespaces(self):
        """[(j, names, modes)] for j = 0..len(pending) persisted directory operations."""
        names, modes = dict(self.snap.dnames), dict(self.snap.dmodes)
        out = [(0, dict(names), dict(modes))]
        for j, op in enumerate(self.snap.dq, 1):
            _apply_dirop(names, modes, op)
            out.append((j, dict(names), dict(modes)))
        return out

    @staticmethod
    def _partials(torn, n):
        if n <= 1 or torn == 'none':
            return ()
        if torn == 'all':
            return range(1, n)
        if torn == 'edges':
            return sorted({1, n - 1} | {x for x in range(512, n, 512)})
        return sorted({int(x) for x in torn(n) if 0 < int(x) < n})

    def _variants(self, ino, torn):
        """[(nops, partial, content)] - every persisted version of one file's data."""
        kind, durable, vol = self.snap.inodes[ino]
        out = [(0, 0, durable)]
        content = durable
        for i, op in enumerate(vol):
            if op[0] == 'w':
                for p in self._partials(torn, len(op[2])):
                    out.append((i, p, _apply_data(content, op, p)))
            content = _apply_data(content, op)
            out.append((i + 1, 0, content))
        return out

    def images(self, torn='all', paths=None):
        """Every crash image of this crash point.  paths: restrict the data dimension to these paths
        (other files appear with everything volatile applied) - use it when only some files matter."""
        want = None if paths is None else {self.fs._norm(p) for p in paths}
        for j, names, modes in self.namespaces():
            files = sorted((p, i) for p, i in names.items() if self.snap.inodes[i][0] == 'f')
            inos = sorted({i for p, i in files})
            dims = []
            for ino in inos:
                mine = [p for p, i in files if i == ino]
                if want is not None and not any(p in want for p in mine):
                    dims.append(self._variants(ino, 'none')[-1:])
                else:
                    dims.append(self._variants(ino, torn))
            for combo in itertools.product(*dims):
                contents = {ino: c for ino, (_, _, c) in zip(inos, combo)}
                choice = {'k': self.k, 'dirops': j,
                          'data': [[ino, n, p] for ino, (n, p, _) in zip(inos, combo) if self.snap.inodes[ino][2]]}
                yield Image(self, names, modes, contents, choice)

    def image(self, choice):
        """Rebuild exactly one image from Image.choice (replay)."""
        assert choice['k'] == self.k
        j, names, modes = self.namespaces()[choice['dirops']]
        sel = {ino: (n, p) for ino, n, p in choice['data']}
        contents = {}
        for ino in {i for i in names.values() if self.snap.inodes[i][0] == 'f'}:
            kind, durable, vol = self.snap.inodes[ino]
            n, p = sel.get(ino, (0, 0))
            c = durable
            for op in vol[:n]:
                c = _apply_data(c, op)
            if p:
                c = _apply_data(c, vol[n], p)
            contents[ino] = c
        return Image(self, names, modes, contents, choice)

    def count_images(self, torn='all'):
        total = 0
        for j, names, modes in self.namespaces():
            n = 1
            for ino in {i for i in names.values() if self.snap.inodes[i][0] == 'f'}:
                n *= len(self._variants(ino, torn))
            total += n
        return total


class Image:
    """One state the disk may be in after a crash."""

    def __init__(self, cp, names, modes, contents, choice):
        self.cp, self.names, self.modes, self.contents, self.choice = cp, names, modes, contents, choice

    def read(self, path):
        ino = self.names.get(CrashFS._norm(path))
        return self.contents.get(ino) if ino is not None else None

    def files(self):
        return {p: self.contents[i] for p, i in self.names.items() if i in self.contents}

    def key(self):
        return tuple(sorted((p, self.contents.get(i, '<dir>'), self.modes.get(i)) for p, i in self.names.items()))

    def describe(self):
        c = self.choice
        total = len(self.cp.snap.dq)
        data = ', '.join(f'inode {i}: {n} whole + {p} torn bytes of {len(self.cp.snap.inodes[i][2])} unsynced data ops'
                         for i, n, p in c['data']) or 'no unsynced data'
        return f"{self.cp.label}; {c['dirops']}/{total} pending directory ops persisted; {data}"

    def mount(self, **kw):
        """A fresh CrashFS whose durable (and current) state is this image - run recovery on it."""
        kw.setdefault('journal', self.cp.fs.journal)
        kw.setdefault('pid', self.cp.fs.pid)
        kw.setdefault('buffer_size', self.cp.fs.buffer_size)
        fs = CrashFS(**kw)
        fs.names, fs.modes = {}, {}
        remap = {}
        for p in sorted(self.names):
            ino = self.names[p]
            if ino not in remap:
                kind = 'f' if ino in self.contents else 'd'
                remap[ino] = fs._new_inode(kind, self.contents.get(ino, b''))
                fs.modes[remap[ino]] = self.modes.get(ino, (S_IFREG | 0o644) if kind == 'f' else (S_IFDIR | 0o755))
            fs.names[p] = remap[ino]
        if '/' not in fs.names:   # pragma: no cover
            fs.names['/'] = fs._new_inode('d')
        fs._dnames, fs._dmodes = dict(fs.names), dict(fs.modes)
        fs._snaps = [fs._snapshot()]
        return fs


class _Binding:
    _MISSING = object()

    def __init__(self, fs, modules, names):
        self.fs, self.modules, self.names = fs, modules, names
        self.saved = []

    def __enter__(self):
        for m in self.modules:
            for n in self.names:
                self.saved.append((m, n, m.__dict__.get(n, self._MISSING)))
                setattr(m, n, getattr(self.fs, n))
        return self.fs

    def __exit__(self, *a):
        for m, n, old in reversed(self.saved):
            if old is self._MISSING:
                delattr(m, n)
            else:
                setattr(m, n, old)
        self.saved = []


class _FD:
    """An open file description: what os.open returned."""
    __slots__ = ('fd', 'ino', 'path', 'flags', 'pos')

    def __init__(self, fd, ino, path, flags):
        self.fd, self.ino, self.path, self.flags, self.pos = fd, ino, path, flags, 0

    @property
    def readable(self):
        return self.flags & 3 in (FakeOS.O_RDONLY, FakeOS.O_RDWR)

    @property
    def writable(self):
        return self.flags & 3 in (FakeOS.O_WRONLY, FakeOS.O_RDWR)

    @property
    def append(self):
        return bool(self.flags & FakeOS.O_APPEND)

    @property
    def sync(self):
        return bool(self.flags & (FakeOS.O_SYNC | FakeOS.O_DSYNC))


class FakeFile:
    """File object over a crashfs descriptor: text or binary, with Python's user-space write buffer."""

    def __init__(self, fs, ent, name, mode, binary, encoding, errors, newline, readable, writable, unbuffered,
                 closefd=True):
        self._fs, self._ent, self._ino, self.name, self.mode = fs, ent, ent.ino, name, mode
        self._path = ent.path
        self._binary, self.encoding, self.errors, self._newline = binary, encoding, errors, newline
        self._readable, self._writable = readable, writable      # what the mode string allows (Python level)
        self._append = ent.append                                  # what the descriptor does (kernel level)
        self._unbuffered = unbuffered
        self._closefd = closefd
        self._buf = []            # pending user-space writes: [(offset | None for O_APPEND, bytes)]
        self._buffered = 0
        self._pos = ent.pos
        self.closed = False

    # -- helpers
    def _check(self):
        if self.closed:
            raise ValueError('I/O operation on closed file.')

    def _content(self):
        return self._fs._inodes[self._ino].current()

    def _drain(self):
        """Hand the user-space buffer to the file system (one logged write per contiguous run)."""
        if not self._buf:
            return
        runs = []
        for off, data in self._buf:
            if runs and off is not None and runs[-1][0] is not None and runs[-1][0] + len(runs[-1][1]) == off:
                runs[-1] = (runs[-1][0], runs[-1][1] + data)
            elif runs and off is None and runs[-1][0] is None:
                runs[-1] = (None, runs[-1][1] + data)
            else:
                runs.append((off, data))
        self._buf, self._buffered = [], 0
        if not self._ent.writable or self._ent.fd not in self._fs._fds:
            raise OSError(errno.EBADF, 'Bad file descriptor')       # what write(2) says to a read-only/closed fd
        for off, data in runs:
            if off is None:
                off = len(self._content())
            op = self._fs._begin('write', True, path=self._path, offset=off, size=len(data))
            self._fs._data_op(self._ino, ('w', off, data))
            if self._ent.sync:
                self._fs._sync_inode(self._ino)
            self._fs._end(op)
        self._ent.pos = self._pos

    # -- file API
    def fileno(self):
        self._check()
        return self._ent.fd

    def readable(self):
        return self._readable

    def writable(self):
        return self._writable

    def seekable(self):
        return True

    def isatty(self):
        return False

    def write(self, s):
        self._check()
        if not self._writable:
            raise OSError('not writable')     # io.UnsupportedOperation is an OSError
        if self._binary:
            data = bytes(s)
            n = len(data)
        else:
            if not isinstance(s, str):
                raise TypeError(f'write() argument must be str, not {type(s).__name__}')
            data = s.encode(self.encoding, self.errors)
            n = len(s)
        if not data:
            return 0
        op = self._fs._begin('buffer', False, path=self._path, size=len(data))
        if self._append:
            self._buf.append((None, data))
        else:
            self._buf.append((self._pos, data))
        self._pos += len(data)
        self._buffered += len(data)
        self._fs._end(op)
        if self._unbuffered or self._buffered > self._fs.buffer_size:
            self._drain()
        return n

    def writelines(self, lines):
        for line in lines:
            self.write(line)

    def flush(self):
        self._check()
        self._drain()

    def _read_bytes(self, n=-1):
        self._check()
        if not self._readable:
            raise OSError('not readable')
        self._drain()
        if not self._ent.readable:
            raise OSError(errno.EBADF, 'Bad file descriptor')
        c = self._content()
        end = len(c) if n is None or n < 0 else min(len(c), self._pos + n)
        data = c[self._pos:end]
        op = self._fs._begin('read', False, path=self._path, offset=self._pos, size=len(data))
        self._fs._end(op)
        self._pos += len(data)
        return data

    def _decode(self, data):
        s = data.decode(self.encoding, self.errors)
        if self._newline is None:
            s = s.replace('\r\n', '\n').replace('\r', '\n')
        return s

    def read(self, n=-1):
        if self._binary:
            return self._read_bytes(n)
        if n is None or n < 0:
            return self._decode(self._read_bytes())
        start = self._pos
        rest = self._read_bytes()
        s = rest.decode(self.encoding, self.errors)[:n]
        self._pos = start + len(s.encode(self.encoding, self.errors))
        return self._decode(s.encode(self.encoding, self.errors))

    def readinto(self, b):
        data = self._read_bytes(len(b))
        b[:len(data)] = data
        return len(data)

    def readline(self, limit=-1):
        self._check()
        self._drain()
        c = self._content()
        i = c.find(b'\n', self._pos)
        end = len(c) if i < 0 else i + 1
        if limit is not None and limit >= 0:
            end = min(end, self._pos + limit)
        data = self._read_bytes(end - self._pos)
        return data if self._binary else self._decode(data)

    def readlines(self, hint=-1):
        return list(self)

    def __iter__(self):
        return self

    def __next__(self):
        line = self.readline()
        if not line:
            raise StopIteration
        return line

    def seek(self, offset, whence=0):
        self._check()
        self._drain()
        if whence == 0:
            self._pos = offset
        elif whence == 1:
            self._pos += offset
        elif whence == 2:
            self._pos = len(self._content()) + offset
        else:
            raise ValueError('invalid whence')
        if self._pos < 0:
            raise OSError(errno.EINVAL, 'Invalid argument')
        return self._pos

    def tell(self):
        self._check()
        return self._pos

    def truncate(self, size=None):
        self._check()
        if not self._writable:
            raise OSError('not writable')
        self._drain()
        size = self._pos if size is None else size
        op = self._fs._begin('truncate', True, path=self._path, size=size)
        if size != len(self._content()):
            self._fs._data_op(self._ino, ('t', size))
        self._fs._end(op)
        return size

    def close(self):
        if self.closed:
            return
        try:
            self._drain()
        finally:
            self.closed = True
            if self._closefd:
                self._fs._fds.pop(self._ent.fd, None)
            op = self._fs._begin('close', False, path=self._path)
            self._fs._end(op)

    def __enter__(self):
        self._check()
        return self

    def __exit__(self, *a):
        self.close()

    def __del__(self):
        # like io objects: an unreferenced file is closed, flushing its buffer
        try:
            if not self.closed:
                self.close()
        except Exception:   # noqa
            pass


class _StatResult(types.SimpleNamespace):
    pass


class FakePath:
    """os.path over crashfs: predicates look at the fake namespace, the pure string functions are
    posixpath's."""

    def __init__(self, fs):
        self._fs = fs

    def _look(self, what, path):
        fs = self._fs
        try:
            p = fs._norm(path)
        except TypeError:
            return None
        op = fs._begin(what, False, path=p)
        ino = fs.names.get(p)
        op.detail['found'] = ino is not None
        fs._end(op)
        return ino

    def exists(self, path):
        return self._look('exists', path) is not None

    lexists = exists

    def isfile(self, path):
        ino = self._look('isfile', path)
        return ino is not None and self._fs._inodes[ino].kind == 'f'

    def isdir(self, path):
        ino = self._look('isdir', path)
        return ino is not None and self._fs._inodes[ino].kind == 'd'

    def islink(self, path):
        return False

    def getsize(self, path):
        return self._fs.os.stat(path).st_size

    def getmtime(self, path):
        return self._fs.os.stat(path).st_mtime

    getatime = getctime = getmtime

    def samefile(self, a, b):
        return self._fs.os.stat(a).st_ino == self._fs.os.stat(b).st_ino

    def abspath(self, path):
        return self._fs._norm(path)

    realpath = abspath

    def expanduser(self, path):
        return path

    def __getattr__(self, name):
        return getattr(posixpath, name)


def _only_defaults(fn, **kw):
    """Keyword arguments the model does not implement must not be swallowed: a fake that ignores an argument
    hides exactly the bugs it is there to find."""
    for k, v in kw.items():
        if v is not None and v is not True:
            raise NotImplementedError(f'crashfs: os.{fn}({k}={v!r}) is not modelled')


class FakeOS:
    """The subset of the os module that file-handling code uses, over crashfs.  Anything else raises
    AttributeError, unknown flags / keyword arguments raise NotImplementedError (a harness error that must
    surface, never a silent trip to the real disk and never a silently ignored argument)."""

    sep, linesep, curdir, pardir, extsep, altsep, pathsep, devnull = '/', '\n', '.', '..', '.', None, ':', '/dev/null'
    name = 'posix'
    error = OSError
    # Linux values, identical to the real module's on this platform (asserted in selftest)
    O_RDONLY, O_WRONLY, O_RDWR, O_ACCMODE = 0, 1, 2, 3
    O_CREAT, O_EXCL, O_NOCTTY, O_TRUNC, O_APPEND, O_NONBLOCK = 0o100, 0o200, 0o400, 0o1000, 0o2000, 0o4000
    O_DSYNC, O_DIRECTORY, O_NOFOLLOW, O_CLOEXEC, O_SYNC = 0o10000, 0o200000, 0o400000, 0o2000000, 0o4010000
    O_LARGEFILE = 0
    _KNOWN_FLAGS = (O_ACCMODE | O_CREAT | O_EXCL | O_NOCTTY | O_TRUNC | O_APPEND | O_NONBLOCK | O_DSYNC | O_DIRECTORY
                    | O_NOFOLLOW | O_CLOEXEC | O_SYNC | 0o100000)     # 0o100000 = O_LARGEFILE on 32-bit ABIs
    SEEK_SET, SEEK_CUR, SEEK_END = 0, 1, 2
    F_OK, R_OK, W_OK, X_OK = 0, 4, 2, 1

    def __init__(self, fs):
        self._fs = fs
        self.path = FakePath(fs)
        self.environ = {}

    def __getattr__(self, name):
        raise AttributeError(f'crashfs.FakeOS has no attribute {name!r} (extend vf/crashfs.py if the code under '
                             f'test legitimately needs it)')

    @classmethod
    def flag_names(cls, flags):
        names = [('O_RDONLY', 'O_WRONLY', 'O_RDWR', 'O_ACCMODE')[flags & 3]]
        for n in ('O_CREAT', 'O_EXCL', 'O_TRUNC', 'O_APPEND', 'O_DIRECTORY', 'O_CLOEXEC', 'O_NOFOLLOW', 'O_NONBLOCK',
                  'O_NOCTTY'):
            if flags & getattr(cls, n):
                names.append(n)
        if flags & cls.O_SYNC == cls.O_SYNC:
            names.append('O_SYNC')
        elif flags & cls.O_DSYNC:
            names.append('O_DSYNC')
        return '|'.join(names)

    # -- process
    def getpid(self):
        return self._fs.pid

    def getcwd(self):
        return '/'

    def urandom(self, n):
        if self._fs._urandom is not None:
            return self._fs._urandom(n)
        import os
        return os.urandom(n)

    def fspath(self, p):
        import os
        return os.fspath(p)

    def getenv(self, key, default=None):
        return self.environ.get(key, default)

    # -- descriptors ------------------------------------------------------------------------------
    def _ent(self, fd):
        if hasattr(fd, 'fileno'):
            fd = fd.fileno()
        if isinstance(fd, bool) or not isinstance(fd, int):
            raise TypeError(f'an integer is required (got type {type(fd).__name__})')
        ent = self._fs._fds.get(fd)
        if ent is None:
            raise OSError(errno.EBADF, 'Bad file descriptor')
        return ent

    def open(self, path, flags, mode=0o777, *, dir_fd=None):
        """open(2): creation, exclusivity, truncation and append are decided by `flags` alone."""
        _only_defaults('open', dir_fd=dir_fd)
        fs = self._fs
        if isinstance(flags, bool) or not isinstance(flags, int) or not isinstance(mode, int):
            raise TypeError('an integer is required')
        if flags & ~self._KNOWN_FLAGS:
            raise NotImplementedError(f'crashfs: os.open flags {flags & ~self._KNOWN_FLAGS:#o} are not modelled')
        p = fs._norm(path)
        acc = flags & self.O_ACCMODE
        op = fs._begin('open', bool(flags & (self.O_CREAT | self.O_TRUNC)), path=p, flags=self.flag_names(flags))
        try:
            if acc == self.O_ACCMODE:
                raise OSError(errno.EINVAL, 'Invalid argument', p)
            ino = fs.names.get(p)
            if ino is None:
                if not flags & self.O_CREAT:
                    raise fs._enoent(p)
                if flags & self.O_DIRECTORY:
                    raise OSError(errno.EINVAL, 'Invalid argument', p)
                fs._parent_check(p)
                ino = fs._new_inode('f')
                fs._dirop('create', p, ino, S_IFREG | (mode & ~fs.umask & 0o7777))
                op.detail['created'] = True
            else:
                kind = fs._inodes[ino].kind
                if flags & self.O_CREAT and flags & self.O_EXCL:
                    raise FileExistsError(errno.EEXIST, 'File exists', p)
                if kind == 'd' and (acc != self.O_RDONLY or flags & (self.O_CREAT | self.O_TRUNC)):
                    raise IsADirectoryError(errno.EISDIR, 'Is a directory', p)
                if kind != 'd' and flags & self.O_DIRECTORY:
                    raise NotADirectoryError(errno.ENOTDIR, 'Not a directory', p)
                if flags & self.O_TRUNC and kind == 'f' and fs._inodes[ino].current():
                    fs._data_op(ino, ('t', 0))
                    op.detail['truncated'] = True
        except OSError as e:
            fs._fail(op, e)
        fd = fs._next_fd
        fs._next_fd += 1
        fs._fds[fd] = _FD(fd, ino, p, flags)
        op.detail['fd'] = fd
        fs._end(op)
        return fd

    def close(self, fd):
        ent = self._ent(fd)
        op = self._fs._begin('close', False, path=ent.path, fd=ent.fd)
        del self._fs._fds[ent.fd]
        self._fs._end(op)

    def fdopen(self, fd, mode='r', buffering=-1, encoding=None, errors=None, newline=None, closefd=True, opener=None):
        if not isinstance(fd, int):
            raise TypeError(f'invalid fd type ({type(fd)}, expected integer)')
        return self._fs._open(fd, mode, buffering, encoding, errors, newline, closefd, opener)

    def write(self, fd, data):
        fs = self._fs
        ent = self._ent(fd)
        data = bytes(data)
        if not ent.writable:
            raise OSError(errno.EBADF, 'Bad file descriptor')
        off = len(fs._inodes[ent.ino].current()) if ent.append else ent.pos
        op = fs._begin('write', True, path=ent.path, offset=off, size=len(data))
        if data:
            fs._data_op(ent.ino, ('w', off, data))
            if ent.sync:
                fs._sync_inode(ent.ino)
        ent.pos = off + len(data)
        fs._end(op)
        return len(data)

    def read(self, fd, n):
        fs = self._fs
        ent = self._ent(fd)
        if not ent.readable or fs._inodes[ent.ino].kind == 'd':
            raise OSError(errno.EBADF if not ent.readable else errno.EISDIR, 'Bad file descriptor')
        data = fs._inodes[ent.ino].current()[ent.pos:ent.pos + n]
        op = fs._begin('read', False, path=ent.path, offset=ent.pos, size=len(data))
        fs._end(op)
        ent.pos += len(data)
        return data

    def lseek(self, fd, pos, how):
        ent = self._ent(fd)
        size = len(self._fs._inodes[ent.ino].current())
        new = pos if how == 0 else ent.pos + pos if how == 1 else size + pos if how == 2 else None
        if new is None or new < 0:
            raise OSError(errno.EINVAL, 'Invalid argument')
        ent.pos = new
        return new

    def fstat(self, fd):
        return self._stat_ino(self._ent(fd).ino)

    def ftruncate(self, fd, length):
        fs = self._fs
        ent = self._ent(fd)
        if not ent.writable:
            raise OSError(errno.EINVAL, 'Invalid argument')
        op = fs._begin('truncate', True, path=ent.path, size=length)
        if length != len(fs._inodes[ent.ino].current()):
            fs._data_op(ent.ino, ('t', length))
        fs._end(op)

    def truncate(self, path, length):
        fs = self._fs
        if isinstance(path, int):
            return self.ftruncate(path, length)
        p = fs._norm(path)
        op = fs._begin('truncate', True, path=p, size=length)
        ino = fs.names.get(p)
        if ino is None:
            fs._fail(op, fs._enoent(p))
        if fs._inodes[ino].kind == 'd':
            fs._fail(op, IsADirectoryError(errno.EISDIR, 'Is a directory', p))
        if length != len(fs._inodes[ino].current()):
            fs._data_op(ino, ('t', length))
        fs._end(op)

    # -- durability
    def fsync(self, fd):
        fs = self._fs
        try:
            ent = self._ent(fd)
        except OSError as e:
            op = fs._begin('fsync', True, fd=fd, path=None)
            fs._fail(op, e)
        op = fs._begin('fsync', True, fd=ent.fd, path=ent.path)
        if fs._inodes[ent.ino].kind == 'd':
            fs._commit_dirops()
        else:
            fs._sync_inode(ent.ino)
            if fs.journal:
                fs._commit_dirops()
        fs._end(op)

    fdatasync = fsync

    def sync(self):
        fs = self._fs
        op = fs._begin('sync', True)
        for ino in list(fs._inodes):
            fs._sync_inode(ino)
        fs._commit_dirops()
        fs._end(op)

    # -- namespace
    def rename(self, src, dst, *, src_dir_fd=None, dst_dir_fd=None):
        _only_defaults('rename', src_dir_fd=src_dir_fd, dst_dir_fd=dst_dir_fd)
        fs = self._fs
        s, d = fs._norm(src), fs._norm(dst)
        op = fs._begin('rename', True, src=s, dst=d)
        try:
            ino = fs.names.get(s)
            if ino is None:
                raise fs._enoent(s)
            fs._parent_check(d)
            dino = fs.names.get(d)
            if dino is not None and dino != ino:
                sk, dk = fs._inodes[ino].kind, fs._inodes[dino].kind
                if dk == 'd' and sk != 'd':
                    raise IsADirectoryError(errno.EISDIR, 'Is a directory', d)
                if dk != 'd' and sk == 'd':
                    raise NotADirectoryError(errno.ENOTDIR, 'Not a directory', d)
                if dk == 'd' and any(p.startswith(d + '/') for p in fs.names):
                    raise OSError(errno.ENOTEMPTY, 'Directory not empty', d)
            if dino != ino:
                fs._dirop('rename', s, d)
        except OSError as e:
            fs._fail(op, e)
        fs._end(op)

    replace = rename

    def link(self, src, dst, *, src_dir_fd=None, dst_dir_fd=None, follow_symlinks=True):
        _only_defaults('link', src_dir_fd=src_dir_fd, dst_dir_fd=dst_dir_fd, follow_symlinks=follow_symlinks)
        fs = self._fs
        s, d = fs._norm(src), fs._norm(dst)
        op = fs._begin('link', True, src=s, dst=d)
        try:
            ino = fs.names.get(s)
            if ino is None:
                raise fs._enoent(s)
            if d in fs.names:
                raise FileExistsError(errno.EEXIST, 'File exists', d)
            fs._parent_check(d)
            fs._dirop('link', d, ino)
        except OSError as e:
            fs._fail(op, e)
        fs._end(op)

    def remove(self, path, *, dir_fd=None):
        _only_defaults('remove', dir_fd=dir_fd)
        fs = self._fs
        p = fs._norm(path)
        op = fs._begin('unlink', True, path=p)
        try:
            ino = fs.names.get(p)
            if ino is None:
                raise fs._enoent(p)
            if fs._inodes[ino].kind == 'd':
                raise IsADirectoryError(errno.EISDIR, 'Is a directory', p)
            fs._dirop('unlink', p)
        except OSError as e:
            fs._fail(op, e)
        fs._end(op)

    unlink = remove

    def mkdir(self, path, mode=0o777, *, dir_fd=None):
        _only_defaults('mkdir', dir_fd=dir_fd)
        fs = self._fs
        p = fs._norm(path)
        op = fs._begin('mkdir', True, path=p)
        try:
            if p in fs.names:
                raise FileExistsError(errno.EEXIST, 'File exists', p)
            fs._parent_check(p)
            fs._dirop('mkdir', p, fs._new_inode('d'), S_IFDIR | (mode & ~fs.umask & 0o777))
        except OSError as e:
            fs._fail(op, e)
        fs._end(op)

    def makedirs(self, name, mode=0o777, exist_ok=False):
        p = self._fs._norm(name)
        parts = p.split('/')[1:]
        cur = ''
        for i, part in enumerate(parts):
            cur += '/' + part
            if cur in self._fs.names:
                if i == len(parts) - 1 and not exist_ok:
                    raise FileExistsError(errno.EEXIST, 'File exists', p)
                continue
            self.mkdir(cur, mode)

    def rmdir(self, path, *, dir_fd=None):
        _only_defaults('rmdir', dir_fd=dir_fd)
        fs = self._fs
        p = fs._norm(path)
        op = fs._begin('rmdir', True, path=p)
        try:
            ino = fs.names.get(p)
            if ino is None:
                raise fs._enoent(p)
            if fs._inodes[ino].kind != 'd':
                raise NotADirectoryError(errno.ENOTDIR, 'Not a directory', p)
            if any(q.startswith(p + '/') for q in fs.names):
                raise OSError(errno.ENOTEMPTY, 'Directory not empty', p)
            fs._dirop('rmdir', p)
        except OSError as e:
            fs._fail(op, e)
        fs._end(op)

    def _chmod_ino(self, op, ino, mode):
        fs = self._fs
        new = (fs.modes[ino] & ~0o7777) | (mode & 0o7777)
        if new != fs.modes[ino]:
            fs._dirop('chmod', ino, new)
        fs._end(op)

    def chmod(self, path, mode, *, dir_fd=None, follow_symlinks=True):
        _only_defaults('chmod', dir_fd=dir_fd, follow_symlinks=follow_symlinks)
        fs = self._fs
        if isinstance(path, int):
            return self.fchmod(path, mode)
        p = fs._norm(path)
        op = fs._begin('chmod', True, path=p, mode=oct(mode))
        ino = fs.names.get(p)
        if ino is None:
            fs._fail(op, fs._enoent(p))
        self._chmod_ino(op, ino, mode)

    def fchmod(self, fd, mode):
        ent = self._ent(fd)
        op = self._fs._begin('chmod', True, path=ent.path, mode=oct(mode))
        self._chmod_ino(op, ent.ino, mode)

    def listdir(self, path='.'):
        fs = self._fs
        p = fs._norm(path)
        op = fs._begin('listdir', False, path=p)
        ino = fs.names.get(p)
        if ino is None:
            fs._fail(op, fs._enoent(p))
        if fs._inodes[ino].kind != 'd':
            fs._fail(op, NotADirectoryError(errno.ENOTDIR, 'Not a directory', p))
        pre = p.rstrip('/') + '/'
        out = sorted({q[len(pre):] for q in fs.names if q.startswith(pre) and q != p and '/' not in q[len(pre):]})
        fs._end(op)
        return out

    def scandir(self, path='.'):
        p = self._fs._norm(path)
        entries = []
        for name in self.listdir(p):
            full = posixpath.join(p, name)
            ino = self._fs.names[full]
            is_dir = self._fs._inodes[ino].kind == 'd'
            entries.append(_DirEntry(self, name, full, is_dir))
        return _ScanDir(entries)

    def stat(self, path, *, dir_fd=None, follow_symlinks=True):
        _only_defaults('stat', dir_fd=dir_fd, follow_symlinks=follow_symlinks)
        fs = self._fs
        if isinstance(path, int):
            return self.fstat(path)
        p = fs._norm(path)
        op = fs._begin('stat', False, path=p)
        ino = fs.names.get(p)
        if ino is None:
            fs._fail(op, fs._enoent(p))
        fs._end(op)
        return self._stat_ino(ino)

    def lstat(self, path, *, dir_fd=None):
        return self.stat(path, dir_fd=dir_fd)

    def _stat_ino(self, ino):
        fs = self._fs
        n = fs._inodes[ino]
        size = len(n.current()) if n.kind == 'f' else 4096
        return _StatResult(st_mode=fs.modes[ino], st_size=size, st_ino=ino, st_dev=1,
                           st_nlink=sum(1 for i in fs.names.values() if i == ino), st_uid=0, st_gid=0,
                           st_mtime=0.0, st_atime=0.0, st_ctime=0.0, st_mtime_ns=0, st_atime_ns=0, st_ctime_ns=0)

    def access(self, path, mode, *, dir_fd=None, effective_ids=False, follow_symlinks=True):
        _only_defaults('access', dir_fd=dir_fd, follow_symlinks=follow_symlinks)
        if effective_ids:
            raise NotImplementedError('crashfs: os.access(effective_ids=True) is not modelled')
        p = self._fs._norm(path)
        op = self._fs._begin('access', False, path=p)
        self._fs._end(op)
        return p in self._fs.names


class _DirEntry:
    def __init__(self, fos, name, path, is_dir):
        self._fos, self.name, self.path, self._is_dir = fos, name, path, is_dir

    def is_dir(self, **kw):
        return self._is_dir

    def is_file(self, **kw):
        return not self._is_dir

    def is_symlink(self):
        return False

    def stat(self, **kw):
        return self._fos.stat(self.path)

    def __fspath__(self):
        return self.path


class _ScanDir(list):
    def __enter__(self):
        return iter(self)

    def __exit__(self, *a):
        pass

    def close(self):
        pass


# ------------------------------------------------------------------------------------------------------

def selftest():
    """Hand-computed expectations for the model (run by the checks that use crashfs)."""
    def contents(fs, path, **kw):
        out = []
        for cp in fs.crash_points():
            out.append(sorted({img.read(path) for img in cp.images(**kw)}, key=lambda b: (b is None, b or b'')))
        return out

    # 1. careful writer: tmp + flush + fsync + rename over an old version
    fs = CrashFS(files={'/d/f': b'OLD'})
    f = fs.open('/d/f.tmp', 'w')
    f.write('NEW!')
    f.flush()
    fs.os.fsync(f.fileno())
    f.close()
    fs.os.rename('/d/f.tmp', '/d/f')
    seen = {c for per in contents(fs, '/d/f') for c in per}
    assert seen == {b'OLD', b'NEW!'}, seen
    last = list(fs.crash_points())[-1]
    assert {img.read('/d/f') for img in last.images()} == {b'OLD', b'NEW!'}     # rename never synced
    assert [op.name for op in fs.log] == ['open', 'buffer', 'write', 'fsync', 'close', 'rename'], fs.log
    # 2. no fsync: the rename can persist without the data
    fs = CrashFS(files={'/d/f': b'OLD'})
    f = fs.open('/d/f.tmp', 'w')
    f.write('NEW!')
    f.close()
    fs.os.rename('/d/f.tmp', '/d/f')
    seen = {c for per in contents(fs, '/d/f') for c in per}
    assert seen == {b'OLD', b'', b'N', b'NE', b'NEW', b'NEW!'}, seen
    # 3. in-place rewrite: truncation and torn data
    fs = CrashFS(files={'/d/f': b'OLD'})
    f = fs.open('/d/f', 'wb')
    f.write(b'NEW!')
    f.flush()
    fs.os.fsync(f.fileno())
    f.close()
    seen = {c for per in contents(fs, '/d/f') for c in per}
    assert seen == {b'OLD', b'', b'N', b'NE', b'NEW', b'NEW!'}, seen
    assert {img.read('/d/f') for img in list(fs.crash_points())[-1].images()} == {b'NEW!'}
    # 4. user-space buffer: nothing reaches the inode before flush
    fs = CrashFS()
    fs.os.makedirs('/d')
    f = fs.open('/d/g', 'w')
    f.write('abc')
    assert fs.read_current('/d/g') == b''
    f.flush()
    assert fs.read_current('/d/g') == b'abc'
    f.close()
    # 5. ordered namespace: a later operation never persists without an earlier one
    fs = CrashFS(files={'/d/a': b'A'})
    fs.os.rename('/d/a', '/d/b')
    fs.os.rename('/d/b', '/d/c')
    last = list(fs.crash_points())[-1]
    shapes = {tuple(sorted(p for p in img.files())) for img in last.images()}
    assert shapes == {('/d/a',), ('/d/b',), ('/d/c',)}, shapes
    # 6. journal vs strict: does a file fsync commit earlier directory operations?
    for journal, expect in ((True, {('/d/c', '/d/n')}), (False, {('/d/a',), ('/d/c',), ('/d/c', '/d/n')})):
        fs = CrashFS(files={'/d/a': b'A'}, journal=journal)
        fs.os.rename('/d/a', '/d/c')
        f = fs.open('/d/n', 'w')
        f.write('x')
        f.flush()
        fs.os.fsync(f.fileno())
        f.close()
        last = list(fs.crash_points())[-1]
        shapes = {tuple(sorted(img.files())) for img in last.images()}
        assert shapes == expect, (journal, shapes)
    # 7. directory fsync commits; image replay by choice; mount
    fs = CrashFS(files={'/d/a': b'A'})
    fs.os.rename('/d/a', '/d/b')
    dfd = fs.os.open('/d', fs.os.O_RDONLY)
    fs.os.fsync(dfd)
    fs.os.close(dfd)
    last = list(fs.crash_points())[-1]
    imgs = list(last.images())
    assert len(imgs) == 1 and imgs[0].read('/d/b') == b'A' and imgs[0].read('/d/a') is None
    again = last.image(imgs[0].choice)
    assert again.key() == imgs[0].key()
    m = imgs[0].mount()
    assert m.os.path.exists('/d/b') and not m.os.path.exists('/d/a') and m.open('/d/b').read() == 'A'
    assert m.os.listdir('/d') == ['b']
    # 9. open() goes through os.open: flags decide, an opener is honoured, nothing is silently ignored
    import os as real_os
    for n in ('O_RDONLY', 'O_WRONLY', 'O_RDWR', 'O_CREAT', 'O_EXCL', 'O_TRUNC', 'O_APPEND', 'O_CLOEXEC', 'O_DIRECTORY',
              'O_SYNC', 'O_DSYNC', 'O_NOFOLLOW', 'O_NONBLOCK', 'O_NOCTTY', 'O_ACCMODE'):
        assert getattr(FakeOS, n) == getattr(real_os, n), n
    fs = CrashFS(files={'/d/t': b'0123456789'})
    seen = []

    def keep_flags(path, flags):
        seen.append(flags)
        return fs.os.open(path, flags, 0o600)

    def drop_trunc(path, flags):
        return fs.os.open(path, fs.os.O_WRONLY | fs.os.O_CREAT, 0o600)
    with fs.open('/d/t', 'w', opener=keep_flags) as f:
        f.write('ab')
    assert seen == [real_os.O_WRONLY | real_os.O_CREAT | real_os.O_TRUNC | real_os.O_CLOEXEC], seen
    assert fs.read_current('/d/t') == b'ab'
    with fs.open('/d/t', 'w', opener=drop_trunc) as f:        # O_TRUNC lost: old bytes survive behind the new ones
        f.write('X')
    assert fs.read_current('/d/t') == b'Xb', fs.read_current('/d/t')
    with fs.open('/d/n', 'w', opener=drop_trunc) as f:
        f.write('new')
    assert fs.read_current('/d/n') == b'new' and fs.os.stat('/d/n').st_mode & 0o777 == 0o600
    with fs.open('/d/t', 'a') as f:
        f.write('!')
    assert fs.read_current('/d/t') == b'Xb!'
    fd = fs.os.open('/d/t', fs.os.O_RDONLY)
    g = fs.os.fdopen(fd, 'w')                                  # Python lets you; the kernel does not
    g.write('zz')
    try:
        g.flush()
        raise AssertionError('write through a read-only descriptor succeeded')
    except OSError as e:
        assert e.errno == errno.EBADF
    g._buf = []
    g.close()
    try:
        fs.os.open('/d/t', fs.os.O_WRONLY | fs.os.O_CREAT | fs.os.O_EXCL)
        raise AssertionError('O_EXCL ignored')
    except FileExistsError:
        pass
    fd = fs.os.open('/d/t', fs.os.O_RDWR | fs.os.O_APPEND)
    fs.os.lseek(fd, 0, 0)
    fs.os.write(fd, b'?')                                      # O_APPEND: always at the end
    assert fs.read_current('/d/t') == b'Xb!?' and fs.os.read(fd, 10) == b''
    fs.os.close(fd)
    for bad in (lambda: fs.open('/d/t', 'r', foo=1), lambda: fs.os.open('/d/t', 0, dir_fd=3),
                lambda: fs.os.stat('/d/t', follow_symlinks=False), lambda: fs.os.open('/d/t', 0o40000000),
                lambda: fs.open('/d/t', 'w', opener=lambda p, fl: 3), lambda: fs.os.rename('/d/t', '/d/u', bogus=1)):
        try:
            bad()
            raise AssertionError('unsupported argument swallowed')
        except (TypeError, NotImplementedError, RuntimeError):
            pass
    # 8. binding
    mod = types.ModuleType('m')
    mod.os = 'real'
    with fs.bound(mod):
        assert mod.os is fs.os and mod.open == fs.open
    assert mod.os == 'real' and not hasattr(mod, 'open')
    return True


if __name__ == '__main__':
    print('crashfs selftest', selftest())
