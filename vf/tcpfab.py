"""E1 (TCP part) - in-memory TCP pipe fabric for the virtual loop (DESIGN.md appendix A.2).

`TcpLoop` = `VLoop` + `create_connection` / `create_server` that build pairs of `PipeTransport`s instead
of sockets.  Nothing moves by itself: a byte written by one end sits in an ordered, lossless, unbounded
queue ("in flight / in the kernel") until the harness fires a SEG event that hands the receiver's
protocol `queue[:n]` for an `n >= 1` of the harness's choosing.  External events the harness can fire,
always at a loop-iteration boundary, listed by `tcp_enabled()` in the canonical order of A.1:

  CONNECT(k)    complete the k-th pending `create_connection` (connect latency is an event, so that a
                connect timeout can win); refused with ConnectionRefusedError when nobody listens
  SEG(c, side)  deliver the next n bytes travelling towards `side` ('c' client / 's' server) of conn c
  EOF(c, side)  the peer closed (flush-then-FIN): enabled only when every byte before the FIN has been
                delivered; calls `eof_received()`, then closes the transport unless it returned true
  RESET(c,side) the peer aborted, or `side` wrote to an endpoint that is already closed: the transport is
                force-closed with ConnectionResetError (fault rank: sorted after everything else)

Faithfulness to asyncio's selector socket transport (CPython 3.12 selector_events.py), which is the
production transport of every lbry TCP protocol:

* every event runs as a handle appended to the ready queue (as `_read_ready` is), never re-entrantly;
  a read handle that finds its transport closed meanwhile discards the data (asyncio cancels the reader
  handle in close()); one that finds reading paused puts the bytes back;
* `data_received` gets at most 256 KiB per call (`max_size` of the selector transport);
* an exception escaping `data_received` / `eof_received` is handled by `_fatal_error`: reported to the loop
  exception handler unless it is an OSError, recorded in `loop.tcp_errors`, transport force-closed,
  `connection_lost(exc)` scheduled with call_soon.  That *is* production behaviour and oracles observe it;
* `close()`: reading stops at once, `connection_lost(None)` is scheduled with call_soon (the user-space
  write buffer is always empty here: the "kernel" accepts every write, so `pause_writing` is never
  signalled - stated limitation), bytes already written stay deliverable and are followed by a FIN;
* `abort()`: as close() but the bytes still in flight are discarded and the peer gets RESET instead of EOF;
* `pause_reading` / `resume_reading` / `is_reading` are honoured (asyncio's sendfile fallback pauses
  reading and swaps the protocol for the duration of the transfer);
* the transports derive from `asyncio.transports._FlowControlMixin` and announce `TRY_NATIVE` sendfile
  exactly as socket transports do; `BaseEventLoop._sendfile_native` raises SendfileNotAvailableError, so
  `loop.sendfile` runs asyncio's own `_sendfile_fallback` (executor `readinto` jobs + `transport.write`).

Not modelled: TCP windows / back-pressure, half-open connections after a crash, IP-level loss (TCP hides
it), name resolution (the `(host, port)` pair is the lookup key; a listener on 0.0.0.0 matches any host).
Bytes written towards an endpoint that is already closed vanish and arm a RESET for the writer (what a
kernel does: RST in answer to data for a closed socket).
"""
import collections
from asyncio import transports, constants, futures

from vf.vloop import VLoop

MAX_RECV = 256 * 1024

RANK = {'CONNECT': 0, 'SEG': 0, 'EOF': 1, 'RESET': 3}     # TIMER (rank 2) is owned by the harness


class FabricMisuse(RuntimeError):
    """The harness asked the fabric for something that is not enabled (a harness bug, never a finding)."""


class Event:
    """One enabled external TCP event.  `label` is hash-seed and identity independent."""
    __slots__ = ('kind', 'seq', 'conn', 'side', 'target', 'avail')

    def __init__(self, kind, seq, conn, side, target, avail=0):
        self.kind, self.seq, self.conn, self.side, self.target, self.avail = kind, seq, conn, side, target, avail

    @property
    def label(self):
        return f'{self.kind}:{self.conn}:{self.side}'

    def __repr__(self):
        return f'<{self.label} seq={self.seq} avail={self.avail}>'


class PendingConnect:
    __slots__ = ('seq', 'factory', 'addr', 'waiter', 'local_addr', 'transport', 'protocol', 'n')

    def __init__(self, seq, n, factory, addr, waiter, local_addr):
        self.seq, self.n, self.factory, self.addr, self.waiter, self.local_addr = seq, n, factory, addr, waiter, local_addr
        self.transport = self.protocol = None


class Conn:
    """One established connection: two PipeTransports and the full record of what crossed it."""

    def __init__(self, n, addr):
        self.n = n
        self.addr = addr
        self.client = None      # PipeTransport held by the connecting side
        self.server = None      # PipeTransport held by the accepting side
        self.written = {'c': [], 's': []}       # bytes objects written BY that side, in order
        self.delivered = {'c': [], 's': []}     # sizes of the segments delivered TO that side
        self.lost = {'c': 0, 's': 0}            # bytes written by that side that could never be delivered
        self.offset = {'c': 0, 's': 0}          # stream offset handed to SEG events travelling TO that side

    def end(self, side):
        return self.client if side == 'c' else self.server

    def stream(self, side):
        """Everything `side` has written so far, concatenated."""
        return b''.join(self.written[side])

    def __repr__(self):
        return f'<Conn {self.n} {self.addr}>'


class PipeTransport(transports._FlowControlMixin, transports.Transport):
    _sendfile_compatible = constants._SendfileMode.TRY_NATIVE

    def __init__(self, loop, conn, side, protocol, sockname, peername):
        super().__init__({'peername': peername, 'sockname': sockname}, loop)
        self.conn = conn
        self.side = side
        self.peer = None
        self._protocol = protocol
        self._closing = False
        self._conn_lost = 0
        self._paused = False
        self._established = False     # connection_made ran and reading was started
        self._eof_written = False     # write_eof() was called
        self._eof_received = False    # the peer's FIN was delivered
        self.outq = bytearray()       # bytes in flight towards the peer
        self.segs = collections.deque()   # [seq, remaining] per write() still (partly) in flight
        self.fin = None               # None | 'queued' | 'delivered'
        self.fin_seq = 0
        self.rst_pending = False      # a RESET addressed to *this* endpoint is in flight
        self.rst_seq = 0

    def __repr__(self):
        return f'<PipeTransport conn={self.conn.n} side={self.side} closing={self._closing}>'

    # ---- asyncio.Transport API --------------------------------------------------------------
    def set_protocol(self, protocol):
        self._protocol = protocol

    def get_protocol(self):
        return self._protocol

    def is_closing(self):
        return self._closing

    def is_reading(self):
        return not self._closing and not self._paused

    def pause_reading(self):
        if self._closing or self._paused:
            return
        self._paused = True

    def resume_reading(self):
        if self._closing or not self._paused:
            return
        self._paused = False

    def get_write_buffer_size(self):
        return 0

    def can_write_eof(self):
        return True

    def write(self, data):
        if not isinstance(data, (bytes, bytearray, memoryview)):
            raise TypeError(f'data argument must be a bytes-like object, not {type(data).__name__!r}')
        if self._eof_written:
            raise RuntimeError('Cannot call write() after write_eof()')
        if not data:
            return
        if self._conn_lost:
            self._conn_lost += 1      # asyncio only logs 'socket.send() raised exception.' here
            return
        self._loop._tcp_on_write(self, bytes(data))

    def writelines(self, list_of_data):
        self.write(b''.join(bytes(d) for d in list_of_data))

    def write_eof(self):
        if self._closing or self._eof_written:
            return
        self._eof_written = True
        self._queue_fin()

    def close(self):
        if self._closing:
            return
        self._closing = True
        self._conn_lost += 1
        self._loop.call_soon(self._call_connection_lost, None)
        self._queue_fin()
        self._stop_receiving()

    def abort(self):
        self._force_close(None, reset_peer=True)

    # ---- internals (names follow selector_events.py) -------------------------------------------
    def _queue_fin(self):
        if self.fin is None:
            self.fin = 'queued'
            self.fin_seq = self._loop._tcp_next_seq()

    def _stop_receiving(self):
        """Nothing will ever be read here again: what the peer has in flight towards us is lost."""
        p = self.peer
        if p is not None and p.outq:
            self.conn.lost[p.side] += len(p.outq)
            p.outq.clear()
            p.segs.clear()

    def _fatal_error(self, exc, message='Fatal error on transport'):
        self._loop.tcp_errors.append({'conn': self.conn.n, 'side': self.side, 'message': message, 'exception': exc})
        if not isinstance(exc, OSError):
            self._loop.call_exception_handler({
                'message': message, 'exception': exc, 'transport': self, 'protocol': self._protocol})
        self._force_close(exc)

    def _force_close(self, exc, reset_peer=False):
        if self._conn_lost:
            return
        self._closing = True
        self._conn_lost += 1
        self._loop.call_soon(self._call_connection_lost, exc)
        self._stop_receiving()
        if reset_peer:
            if self.outq:
                self.conn.lost[self.side] += len(self.outq)
                self.outq.clear()
                self.segs.clear()
            p = self.peer
            if p is not None and not p._conn_lost and not p.rst_pending and self.fin != 'delivered':
                p.rst_pending = True
                p.rst_seq = self._loop._tcp_next_seq()
            self.fin = 'delivered'      # no FIN will follow
        else:
            self._queue_fin()

    def _call_connection_lost(self, exc):
        proto, self._protocol = self._protocol, None
        if proto is not None:
            proto.connection_lost(exc)

    def _connection_made(self):
        self._protocol.connection_made(self)
        self._established = True

    def _can_read(self):
        return self._established and not self._closing and not self._paused and not self._eof_received

    def _read_ready(self, data, segs):
        """The handle a SEG event appends to the ready queue."""
        if self._conn_lost or self._closing:
            self.conn.lost[self.peer.side] += len(data)
            return
        if self._paused:                 # paused by an earlier handle of this iteration: bytes stay in the kernel
            p = self.peer
            p.outq[0:0] = data
            p.segs.extendleft(reversed(segs))
            self.conn.offset[self.side] -= len(data)
            return
        self.conn.delivered[self.side].append(len(data))
        try:
            self._protocol.data_received(data)
        except (SystemExit, KeyboardInterrupt):
            raise
        except BaseException as exc:   # noqa
            self._fatal_error(exc, 'Fatal error: protocol.data_received() call failed.')

    def _read_eof(self):
        if self._conn_lost or self._closing:
            return
        self._eof_received = True
        try:
            keep_open = self._protocol.eof_received()
        except (SystemExit, KeyboardInterrupt):
            raise
        except BaseException as exc:   # noqa
            self._fatal_error(exc, 'Fatal error: protocol.eof_received() call failed.')
            return
        if not keep_open:
            self.close()

    def _read_reset(self):
        self.rst_pending = False
        if self._conn_lost:
            return
        self._fatal_error(ConnectionResetError(104, 'Connection reset by peer'),
                          'Fatal read error on socket transport')


class FabServer:
    """What `create_server` returns (the subset of asyncio.Server the lbry servers use)."""

    def __init__(self, loop, factory, addr):
        self._loop = loop
        self.factory = factory
        self.addr = addr
        self._serving = True
        self._forever = None
        self.sockets = ()

    def get_loop(self):
        return self._loop

    def is_serving(self):
        return self._serving

    async def start_serving(self):
        self._serving = True

    def close(self):
        if not self._serving:
            return
        self._serving = False
        if self._loop.tcp_listeners.get(self.addr) is self:
            del self._loop.tcp_listeners[self.addr]
        if self._forever is not None and not self._forever.done():
            self._forever.cancel()

    async def wait_closed(self):
        return None

    async def serve_forever(self):
        if self._forever is not None:
            raise RuntimeError(f'server {self!r} is already being awaited on serve_forever()')
        self._forever = self._loop.create_future()
        try:
            await self._forever
        finally:
            self._forever = None
            self.close()

    async def __aenter__(self):
        return self

    async def __aexit__(self, *exc):
        self.close()
        await self.wait_closed()


class TcpFabric:
    """Mixin for a VLoop: owns listeners, connections and the pending external TCP events."""

    def _tcp_init(self):
        self.tcp_listeners = {}          # (host, port) -> FabServer
        self.tcp_conns = []              # Conn, creation order
        self.tcp_pending = []            # PendingConnect, creation order
        self.tcp_errors = []             # exceptions that escaped protocol callbacks
        self.tcp_refused = 0
        self.tcp_client_host = '10.9.8.7'
        self._tcp_seq = 0
        self._tcp_port = 50000
        self._tcp_nconnect = 0

    def _tcp_next_seq(self):
        self._tcp_seq += 1
        return self._tcp_seq

    # ---- loop API overridden -------------------------------------------------------------------
    async def create_server(self, protocol_factory, host=None, port=None, **kw):
        if kw.get('ssl') or kw.get('sock'):
            raise NotImplementedError('tcpfab: ssl/sock servers are not modelled')
        addr = (host, port)
        if addr in self.tcp_listeners:
            raise OSError(98, f'error while attempting to bind on address {addr!r}: address already in use')
        srv = FabServer(self, protocol_factory, addr)
        self.tcp_listeners[addr] = srv
        return srv

    async def create_connection(self, protocol_factory, host=None, port=None, **kw):
        if kw.get('ssl') or kw.get('sock'):
            raise NotImplementedError('tcpfab: ssl/sock connections are not modelled')
        waiter = self.create_future()
        self._tcp_nconnect += 1
        pc = PendingConnect(self._tcp_next_seq(), self._tcp_nconnect, protocol_factory, (host, port), waiter,
                            kw.get('local_addr'))
        self.tcp_pending.append(pc)
        try:
            await waiter
        except BaseException:   # noqa  (cancelled by a connect timeout, or refused)
            if pc in self.tcp_pending:
                self.tcp_pending.remove(pc)
            if pc.transport is not None:
                pc.transport.close()
            raise
        return pc.transport, pc.protocol

    def shutdown(self):
        for c in self.tcp_conns:
            for t in (c.client, c.server):
                if t is not None:
                    t._protocol = None
                    t.peer = None
        self.tcp_conns = []
        self.tcp_pending = []
        self.tcp_listeners = {}
        super().shutdown()

    # ---- writes --------------------------------------------------------------------------------
    def _tcp_on_write(self, t, data):
        conn = t.conn
        conn.written[t.side].append(data)
        p = t.peer
        if p._conn_lost or p._closing:
            conn.lost[t.side] += len(data)
            if not t.rst_pending and p.fin != 'delivered':
                t.rst_pending = True
                t.rst_seq = self._tcp_next_seq()
            return
        t.outq += data
        t.segs.append([self._tcp_next_seq(), len(data)])

    # ---- events --------------------------------------------------------------------------------
    def _tcp_listener(self, addr):
        host, port = addr
        for key in (addr, ('0.0.0.0', port), (None, port), ('', port), ('::', port)):
            srv = self.tcp_listeners.get(key)
            if srv is not None and srv.is_serving():
                return srv
        return None

    def tcp_enabled(self):
        """Enabled external TCP events, canonical order: (kind rank, creation number)."""
        evs = []
        for pc in self.tcp_pending:
            evs.append(Event('CONNECT', pc.seq, pc.n, 'c', pc))
        for conn in self.tcp_conns:
            for r in (conn.server, conn.client):
                s = r.peer
                if r._can_read():
                    if s.outq:
                        evs.append(Event('SEG', s.segs[0][0], conn.n, r.side, r, len(s.outq)))
                    elif s.fin == 'queued':
                        evs.append(Event('EOF', s.fin_seq, conn.n, r.side, r))
                if r.rst_pending and not r._conn_lost and r._established:
                    evs.append(Event('RESET', r.rst_seq, conn.n, r.side, r))
        evs.sort(key=lambda e: (RANK[e.kind], e.seq))
        return evs

    def tcp_fire(self, ev, n=None):
        """Fire one enabled event: appends the corresponding handle(s) to the ready queue.  For SEG,
        `n` = number of bytes to deliver (default: everything in flight, at most MAX_RECV)."""
        if ev.kind == 'CONNECT':
            return self._tcp_connect(ev.target)
        r = ev.target
        s = r.peer
        if ev.kind == 'SEG':
            if not r._can_read() or not s.outq:
                raise FabricMisuse(f'{ev!r} is not enabled')
            avail = len(s.outq)
            n = min(avail if n is None else n, avail, MAX_RECV)
            if n < 1:
                raise FabricMisuse(f'{ev!r}: segment size {n}')
            data = bytes(s.outq[:n])
            del s.outq[:n]
            taken, left = [], n
            while left:
                seg = s.segs[0]
                if seg[1] <= left:
                    left -= seg[1]
                    taken.append(s.segs.popleft())
                else:
                    seg[1] -= left
                    taken.append([seg[0], left])
                    left = 0
            r.conn.offset[r.side] += n
            self.call_soon(r._read_ready, data, taken)
            return n
        if ev.kind == 'EOF':
            if not r._can_read() or s.outq or s.fin != 'queued':
                raise FabricMisuse(f'{ev!r} is not enabled')
            s.fin = 'delivered'
            self.call_soon(r._read_eof)
            return 0
        if ev.kind == 'RESET':
            if not r.rst_pending:
                raise FabricMisuse(f'{ev!r} is not enabled')
            self.call_soon(r._read_reset)
            return 0
        raise FabricMisuse(f'unknown event {ev!r}')

    def _tcp_connect(self, pc):
        if pc not in self.tcp_pending:
            raise FabricMisuse('connect is not pending')
        self.tcp_pending.remove(pc)
        if pc.waiter.done():
            return None
        srv = self._tcp_listener(pc.addr)
        if srv is None:
            self.tcp_refused += 1
            pc.waiter.set_exception(ConnectionRefusedError(111, f'Connect call failed {pc.addr!r}'))
            return None
        conn = Conn(len(self.tcp_conns) + 1, pc.addr)
        self._tcp_port += 1
        local = pc.local_addr or (self.tcp_client_host, self._tcp_port)
        sproto = srv.factory()
        cproto = pc.factory()
        conn.server = PipeTransport(self, conn, 's', sproto, pc.addr, local)
        conn.client = PipeTransport(self, conn, 'c', cproto, local, pc.addr)
        conn.server.peer, conn.client.peer = conn.client, conn.server
        pc.transport, pc.protocol = conn.client, cproto
        self.tcp_conns.append(conn)
        self.call_soon(conn.server._connection_made)
        self.call_soon(conn.client._connection_made)
        self.call_soon(futures._set_result_unless_cancelled, pc.waiter, None)
        return conn

    # ---- conveniences for harnesses ----------------------------------------------------------------
    def tcp_quiet(self):
        return not self.tcp_enabled()

    def tcp_run_default(self, until=None, chunker=None, max_events=1000000, timers=True):
        """Default ("fast environment") schedule: settle (ready queue, executor jobs FIFO); then the first
        enabled TCP event in canonical order (SEG sizes from `chunker(ev)` or everything); a timer only
        when nothing else is enabled.  Stops when `until()` is true or nothing is enabled; returns the
        number of external events fired."""
        fired = 0
        while fired < max_events:
            self.settle()
            if until is not None and until():
                return fired
            evs = self.tcp_enabled()
            if evs:
                ev = evs[0]
                self.tcp_fire(ev, chunker(ev) if (chunker and ev.kind == 'SEG') else None)
                fired += 1
                continue
            if timers and self.fire_timer():
                fired += 1
                continue
            return fired
        raise RuntimeError('tcpfab: event horizon reached')


class TcpLoop(TcpFabric, VLoop):
    def __init__(self, **kw):
        super().__init__(**kw)
        self._tcp_init()


def selftest():
    """Exercises every rule of A.2 on plain asyncio protocols (no lbry code).  Raises AssertionError."""
    import asyncio
    import io

    class P(asyncio.Protocol):
        def __init__(self, boom=False):
            self.t, self.got, self.ev, self.boom = None, [], [], boom

        def connection_made(self, t):
            self.t = t
            self.ev.append('made')

        def data_received(self, d):
            if self.boom:
                raise ValueError('boom')
            self.got.append(bytes(d))

        def eof_received(self):
            self.ev.append('eof')

        def connection_lost(self, exc):
            self.ev.append(('lost', type(exc).__name__ if exc else None))

    def world(boom=False):
        loop = TcpLoop().activate()
        servers = []

        def fac():
            servers.append(P(boom))
            return servers[-1]
        loop.run(loop.create_server(fac, '0.0.0.0', 80))
        return loop, servers

    # ordered, lossless, harness-chosen sizes; close = flush-then-FIN
    loop, servers = world()
    c = P()
    t = loop.create_task(loop.create_connection(lambda: c, 'h', 80))
    loop.settle()
    assert not t.done() and [e.kind for e in loop.tcp_enabled()] == ['CONNECT']
    loop.tcp_fire(loop.tcp_enabled()[0])
    loop.settle()
    assert t.done() and c.ev == ['made'] and servers[0].ev == ['made']
    c.t.write(b'abc')
    c.t.write(b'defg')
    c.t.close()
    loop.settle()
    assert c.ev[-1] == ('lost', None) and c.t.is_closing()
    for n in (2, 1, None):
        ev = loop.tcp_enabled()[0]
        assert ev.kind == 'SEG' and ev.side == 's'
        loop.tcp_fire(ev, n)
        loop.settle()
    assert servers[0].got == [b'ab', b'c', b'defg']
    ev = loop.tcp_enabled()[0]
    assert ev.kind == 'EOF'
    loop.tcp_fire(ev)
    loop.settle()
    assert servers[0].ev == ['made', 'eof', ('lost', None)] and not loop.tcp_enabled()
    loop.shutdown()

    # exception escaping data_received: recorded, reported, transport force-closed, connection_lost(exc), peer sees EOF
    loop, servers = world(boom=True)
    c = P()
    loop.create_task(loop.create_connection(lambda: c, 'h', 80))
    loop.tcp_run_default(timers=False)
    c.t.write(b'x')
    loop.tcp_run_default(timers=False)
    assert servers[0].ev[-1] == ('lost', 'ValueError') and len(loop.tcp_errors) == 1
    assert any(isinstance(x.get('exception'), ValueError) for x in loop.exc_contexts)
    assert c.ev[-2:] == ['eof', ('lost', None)]
    loop.shutdown()

    # abort = RESET: in-flight bytes discarded, peer gets ConnectionResetError; writing to a dead peer arms RESET
    loop, servers = world()
    c = P()
    loop.create_task(loop.create_connection(lambda: c, 'h', 80))
    loop.tcp_run_default(timers=False)
    c.t.write(b'never delivered')
    c.t.abort()
    loop.tcp_run_default(timers=False)
    assert servers[0].got == [] and servers[0].ev[-1] == ('lost', 'ConnectionResetError')
    loop.shutdown()

    # refused; connect latency is an event, a timeout can win
    loop = TcpLoop().activate()
    t = loop.create_task(loop.create_connection(P, 'nobody', 1))
    loop.tcp_run_default(timers=False)
    assert isinstance(t.exception(), ConnectionRefusedError)
    t = loop.create_task(asyncio.wait_for(loop.create_connection(P, 'nobody', 1), 3))
    loop.settle()
    loop.fire_timer()
    loop.settle()
    assert isinstance(t.exception(), asyncio.TimeoutError) and not loop.tcp_pending and loop.time() == 3
    loop.shutdown()

    # sendfile runs asyncio's fallback over the pipe; reading is paused meanwhile
    loop, servers = world()
    c = P()
    loop.create_task(loop.create_connection(lambda: c, 'h', 80))
    loop.tcp_run_default(timers=False)
    payload = bytes(range(256)) * 300
    t = loop.create_task(loop.sendfile(servers[0].t, io.BytesIO(payload)))
    loop.drain()
    assert not servers[0].t.is_reading()
    c.t.write(b'held back')
    assert all(e.side != 's' for e in loop.tcp_enabled())
    loop.tcp_run_default(until=t.done, timers=False)
    assert t.result() == len(payload) and servers[0].t.is_reading()
    loop.tcp_run_default(timers=False)
    assert b''.join(c.got) == payload and servers[0].got == [b'held back']
    loop.shutdown()
    return True
