"""E2 - explorers.

dfs_deviation : stateless, deviation-bounded depth-first enumeration of choice sequences (CHESS
                style).  The harness is a function run(chooser) that asks chooser.choose(n, ...) at
                every point where the environment could answer in more than one way; choice 0 is the
                default answer.  Every execution runs to completion.
bfs_histories : explicit-state breadth-first search where a state is the operation history that
                reaches it (rebuilt on fresh real objects), deduplicated on a canonical form.
compositions  : all ways to cut a byte string into consecutive chunks.
"""
import collections
import itertools


class ReplayDivergence(RuntimeError):
    """A recorded choice sequence no longer fits the execution (hard error, never a VIOLATION)."""


class Chooser:
    __slots__ = ('prefix', 'trace', 'strict_labels')

    def __init__(self, prefix=(), strict_labels=None):
        self.prefix = list(prefix)
        self.trace = []            # (n, costs, label, chosen)
        self.strict_labels = strict_labels   # optional list of labels recorded earlier

    def choose(self, n, costs=None, label=None):
        """Return an index in range(n).  costs[i] = deviation cost of alternative i (costs[0] must be
        0; default cost of every other alternative is 1)."""
        i = len(self.trace)
        if n <= 0:
            raise ReplayDivergence(f'choice point {i} with no options ({label})')
        c = self.prefix[i] if i < len(self.prefix) else 0
        if c >= n:
            raise ReplayDivergence(f'choice {c} out of range {n} at point {i} ({label})')
        if self.strict_labels is not None and i < len(self.strict_labels):
            if self.strict_labels[i] != _lab(label):
                raise ReplayDivergence(f'label mismatch at point {i}: {self.strict_labels[i]} != {_lab(label)}')
        self.trace.append((n, costs, label, c))
        return c

    @property
    def choices(self):
        return [t[3] for t in self.trace]

    @property
    def labels(self):
        return [_lab(t[2]) for t in self.trace]

    def cost(self):
        return sum((t[1][t[3]] if t[1] is not None else (1 if t[3] else 0)) for t in self.trace)


def _lab(label):
    return label if isinstance(label, (str, int, type(None))) else repr(label)


def dfs_deviation(run, bound=None, on_result=None, max_executions=None, root_prefix=()):
    """Enumerate every choice sequence with total deviation cost <= bound (None = all).

    run(chooser) -> observation.  on_result(chooser, observation) is called once per execution.
    Returns dict(executions, capped, max_points).  Iterative (explicit stack)."""
    stack = [list(root_prefix)]
    executions = 0
    max_points = 0
    capped = False
    while stack:
        prefix = stack.pop()
        ch = Chooser(prefix)
        obs = run(ch)
        executions += 1
        if len(ch.trace) < len(prefix):
            raise ReplayDivergence(f'execution ended after {len(ch.trace)} points, prefix has {len(prefix)}')
        max_points = max(max_points, len(ch.trace))
        if on_result is not None:
            stop = on_result(ch, obs)
            if stop:
                continue
        if max_executions is not None and executions >= max_executions:
            capped = True
            break
        base_cost = 0
        for (n, costs, label, c) in ch.trace[:len(prefix)]:
            base_cost += (costs[c] if costs is not None else (1 if c else 0))
        choices = ch.choices
        # push in reverse so that earlier points / smaller alternatives are explored first
        new = []
        for i in range(len(prefix), len(ch.trace)):
            n, costs, label, c = ch.trace[i]
            for alt in range(1, n):
                cost = costs[alt] if costs is not None else 1
                if bound is not None and base_cost + cost > bound:
                    continue
                new.append(choices[:i] + [alt])
        stack.extend(reversed(new))
    return {'executions': executions, 'capped': capped, 'max_points': max_points}


def bfs_histories(alphabet, build, canon, check, depth, max_states=None, on_state=None):
    """Explicit-state BFS.

    alphabet(history, state) -> iterable of operations enabled after `history` (state = build(history)).
    build(history)   -> fresh real object(s) with the handlers replayed.
    canon(state)     -> hashable canonical form (only merge states with the same futures).
    check(history, state) -> None or a violation description; called on every transition target.
    Returns dict(states, transitions, max_depth, violations=[(history, what)], capped)."""
    s0 = build([])
    bad0 = check([], s0)
    seen = {canon(s0)}
    frontier = collections.deque([[]])
    transitions = 0
    max_depth = 0
    violations = []
    if bad0:
        violations.append(([], bad0))
    capped = False
    while frontier:
        hist = frontier.popleft()
        if len(hist) >= depth:
            continue
        state = build(hist)
        ops = list(alphabet(hist, state))
        _close(state)
        for op in ops:
            nh = hist + [op]
            nxt = build(nh)
            transitions += 1
            bad = check(nh, nxt)
            k = None if bad else canon(nxt)
            if on_state is not None:
                on_state(nh, nxt)
            _close(nxt)
            if bad:
                violations.append((nh, bad))
                continue
            if k not in seen:
                seen.add(k)
                max_depth = max(max_depth, len(nh))
                frontier.append(nh)
                if max_states is not None and len(seen) >= max_states:
                    capped = True
                    frontier.clear()
                    break
    return {'states': len(seen), 'transitions': transitions, 'max_depth': max_depth,
            'violations': violations, 'capped': capped}


def _close(state):
    c = getattr(state, 'close', None)
    if callable(c):
        try:
            c()
        except Exception:
            pass


def compositions(b):
    """Every way to cut b into consecutive non-empty chunks (2^(len-1))."""
    n = len(b)
    if n == 0:
        return [[]]
    out = []
    for mask in range(2 ** (n - 1)):
        parts, start = [], 0
        for i in range(1, n):
            if mask >> (i - 1) & 1:
                parts.append(b[start:i])
                start = i
        parts.append(b[start:])
        out.append(parts)
    return out


def cuts_to_chunks(b, cuts):
    pts = [0] + sorted(c for c in set(cuts) if 0 < c < len(b)) + [len(b)]
    return [b[a:z] for a, z in zip(pts, pts[1:])]


def all_subsets(items):
    items = list(items)
    for r in range(len(items) + 1):
        for c in itertools.combinations(items, r):
            yield c
