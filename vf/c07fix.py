"""Deterministic header-chain fixtures for C07 (mined with refs/lbry_pow, cached in /verif/.cache/c07).

Everything here is a pure function of the constants below: nonces are searched upwards from 0, so a
regenerated cache is byte-identical.  The cache is validated with the reference after loading.

easy   : max_target 2^248-1 (a header needs ~256 hash attempts; 225 * target < 2^256, so the 256-bit
         retarget product never wraps - the same regime as main-net), own genesis.  One good chain
         E[0..1079]; its first heights use timestamps that hit both retarget clamps, their exact
         boundaries, the unclamped middle, C++ truncation toward zero, non-increasing time and the
         proof-of-work limit cap.  Forks, "valid except for one rule" headers and re-timed headers
         hang off the first FORK_HEIGHTS heights.
main   : the 20 real main-net headers (fixtures/c07) plus a few headers mined at real difficulty.
"""
import os
import json
import struct

from refs import lbry_pow as P

VERSION = 'c07-fixtures-v6'
CACHE = os.path.join(os.path.dirname(os.path.dirname(os.path.abspath(__file__))), '.cache', 'c07')

EASY_MAX_TARGET = (1 << 248) - 1
T0 = 1_500_000_000
# delta[h] = time(h) - time(h-1) for h = 1, 2, ...   (the bits of header h+1 depend on delta[h])
HEAD_DELTAS = [3000, -2, 149, 142, 158, 757, 758, 6, 5, 0, -1000, 150, 157, 143, 10, 1000, 14, 749, 750, 2 ** 20,
               150, 150, 151, 148, 7, 759, 300, 75, 600, 20]
CYCLE = [150, 300, 75, 600, 150, 20, 1000, 150]
EASY_LEN = 1080
FORK_HEIGHTS = 18          # forks / one-rule variants exist for attach heights 1..FORK_HEIGHTS
FORK_LEN = 3
# ... and around the end of the first 1000-header chunk (connect() inside / straddling / just above a checkpointed chunk)
HIGH_HEIGHTS = [998, 999, 1000, 1001, 1002]
VARIANT_HEIGHTS = list(range(1, FORK_HEIGHTS + 1)) + HIGH_HEIGHTS


def easy_delta(h):
    return HEAD_DELTAS[h - 1] if h - 1 < len(HEAD_DELTAS) else CYCLE[(h - 1 - len(HEAD_DELTAS)) % len(CYCLE)]


def _mine_main(kw):
    kw = dict(kw)
    return P.mine(P.MAIN, kw.pop('prev'), kw.pop('prev_prev'), kw.pop('ts'), **kw)


def _mine_many(tasks):
    """Mine independent real-difficulty headers (~65000 attempts each) side by side; the result does not
    depend on how the work is distributed (each search starts at nonce 0)."""
    import multiprocessing
    names = sorted(tasks)
    if multiprocessing.current_process().daemon or len(names) == 1:
        return {n: _mine_main(tasks[n]) for n in names}
    with multiprocessing.get_context('fork').Pool(min(8, len(names))) as pool:
        return dict(zip(names, pool.map(_mine_main, [tasks[n] for n in names])))


def _generate(log=lambda s: None):
    fx = {'version': VERSION}
    params = P.Params(max_target=EASY_MAX_TARGET, genesis_id=None)
    # ---- easy good chain
    E = []
    t = T0
    for h in range(EASY_LEN):
        if h:
            t += easy_delta(h)
        E.append(P.mine(params, E[-1] if E else None, E[-2] if len(E) > 1 else None, t))
    fx['easy'] = [x.hex() for x in E]
    log(f'easy chain mined ({len(E)} headers)')
    # ---- forks: a second valid chain attached at height k (k = 1..FORK_HEIGHTS)
    forks = {}
    for k in VARIANT_HEIGHTS:
        chain = E[:k]
        for j in range(FORK_LEN):
            ts = P.timestamp(E[k + j]) + 7 + 400 * j
            chain.append(P.mine(params, chain[-1], chain[-2] if len(chain) > 1 else None, ts, merkle=b'\x55' * 32))
        forks[str(k)] = [x.hex() for x in chain[k:]]
    fx['forks'] = forks
    # ---- valid except for one rule, at height p
    rule = {}
    for p in VARIANT_HEIGHTS:
        prev, pp = E[p - 1], (E[p - 2] if p > 1 else None)
        ts = P.timestamp(E[p])
        need = P.required_bits(params, pp, prev)
        v = {}
        # (i) proof of work fine for the required target AND for the claimed one, but the bits say a
        #     slightly harder target than the rule demands
        harder = need - 1
        assert P.set_compact(harder)[0] < P.set_compact(need)[0]
        v['wrong-bits-valid-pow'] = P.mine(params, prev, pp, ts, merkle=b'\x66' * 32, bits=harder)
        # (ii) right bits, proof of work just not good enough
        #      (whenever the required target is below the limit the hash still meets the limit, so only a
        #      comparison with the *retargeted* value rejects it)
        exact = P.next_target(params, pp, prev)
        v['right-bits-insufficient-pow'] = P.mine(
            params, prev, pp, ts, merkle=b'\x66' * 32, want_pow=False, pow_target=exact,
            pow_ceiling=EASY_MAX_TARGET if exact < EASY_MAX_TARGET - (EASY_MAX_TARGET >> 6) else None)
        # (iii) perfectly mined header that names a different parent
        other = P.header_hash(E[p - 2]) if p > 1 else b'\x77' * 32
        v['wrong-prev-valid-pow'] = P.mine(params, prev, pp, ts, merkle=b'\x66' * 32, prev_hash=other)
        # (iv) same height, different but acceptable timestamp (valid on its own) ...
        old_next_bits = P.bits_of(E[p + 1])
        for shift in (500, -500, 40, -40, 5000, -2900, 100000, -100000, 2 ** 21, -(2 ** 21)):
            rt = P.mine(params, prev, pp, ts + shift, merkle=b'\x66' * 32)
            if P.required_bits(params, prev, rt) != old_next_bits:
                break
        else:
            raise RuntimeError(f'no timestamp shift changes the next bits at height {p}')
        v['retimed'] = rt
        # ... followed by a header that would have had the right bits after the original header
        v['retimed-next-stale-bits'] = P.mine(params, rt, prev, P.timestamp(E[p + 1]), merkle=b'\x66' * 32,
                                              bits=old_next_bits)
        # ... or by a fully valid one
        v['retimed-next-valid'] = P.mine(params, rt, prev, P.timestamp(E[p + 1]), merkle=b'\x66' * 32)
        rule[str(p)] = {k: x.hex() for k, x in v.items()}
    fx['rule'] = rule
    # another genesis header (any nonce will do: the genesis rule is its hash)
    fx['alt_genesis'] = P.mine(params, None, None, T0 + 1, merkle=b'\x88' * 32).hex()
    log('easy forks / one-rule variants mined')
    # ---- main-net: the real headers plus a few mined at real difficulty
    H = P.load_mainnet_fixture()
    M = P.MAIN
    need = P.required_bits(M, H[18], H[19])
    stage1 = {
        'next20': dict(prev=H[19], prev_prev=H[18], ts=P.timestamp(H[19]) + 170, merkle=b'\x91' * 32),
        'alt19': dict(prev=H[18], prev_prev=H[17], ts=P.timestamp(H[19]) + 1, merkle=b'\x92' * 32),
        'alt10': dict(prev=H[9], prev_prev=H[8], ts=P.timestamp(H[10]) + 2000, merkle=b'\x93' * 32),
        'wrongbits20': dict(prev=H[19], prev_prev=H[18], ts=P.timestamp(H[19]) + 170, merkle=b'\x94' * 32,
                            bits=need - 1),
        'wrongprev20': dict(prev=H[19], prev_prev=H[18], ts=P.timestamp(H[19]) + 170, merkle=b'\x94' * 32,
                            prev_hash=P.header_hash(H[18])),
    }
    m = _mine_many(stage1)
    stage2 = {
        'next21': dict(prev=m['next20'], prev_prev=H[19], ts=P.timestamp(H[19]) + 171, merkle=b'\x91' * 32),
        'alt11': dict(prev=m['alt10'], prev_prev=H[9], ts=P.timestamp(H[11]) + 2000, merkle=b'\x93' * 32),
    }
    m.update(_mine_many(stage2))
    fx['main_alt'] = {k: bytes(x).hex() for k, x in m.items()}
    log('main-net difficulty headers mined')
    return fx


class Fixtures:
    def __init__(self, fx):
        self.E = [bytes.fromhex(x) for x in fx['easy']]
        self.forks = {int(k): [bytes.fromhex(x) for x in v] for k, v in fx['forks'].items()}
        self.rule = {int(k): {n: bytes.fromhex(x) for n, x in v.items()} for k, v in fx['rule'].items()}
        self.alt_genesis = bytes.fromhex(fx['alt_genesis'])
        self.H = P.load_mainnet_fixture()
        self.main_alt = {k: bytes.fromhex(x) for k, x in fx['main_alt'].items()}
        self.easy_params = P.Params(max_target=EASY_MAX_TARGET, genesis_id=P.header_id(self.E[0]))
        self.main_params = P.MAIN

    def validate(self):
        """The reference accepts every 'good' fixture and rejects every bad one for the intended rule."""
        ep, E = self.easy_params, self.E
        assert len(E) == EASY_LEN and P.first_invalid(ep, E) is None
        spans = {P.clamped_timespan(easy_delta(h)) for h in range(1, EASY_LEN)}
        assert {132, 225, 149, 150, 151}.issubset(spans)
        assert any(P.next_target(ep, E[h - 2], E[h - 1]) == EASY_MAX_TARGET for h in range(2, 12)), 'limit cap not hit'
        for k, f in self.forks.items():
            assert P.first_invalid(ep, E[:k] + f) is None and f[0] != E[k]
        for p, v in self.rule.items():
            prev, pp = E[p - 1], (E[p - 2] if p > 1 else None)
            assert P.judge(ep, v['wrong-bits-valid-pow'], prev, pp)[2] == 'bits'
            assert P.pow_hash_int(v['wrong-bits-valid-pow']) <= P.set_compact(P.bits_of(v['wrong-bits-valid-pow']))[0]
            assert P.judge(ep, v['right-bits-insufficient-pow'], prev, pp)[2] == 'pow'
            assert P.judge(ep, v['wrong-prev-valid-pow'], prev, pp)[2] == 'prev'
            assert P.judge(ep, v['retimed'], prev, pp)[0]
            assert P.judge(ep, v['retimed-next-stale-bits'], v['retimed'], prev)[2] == 'bits'
            assert P.judge(ep, v['retimed-next-valid'], v['retimed'], prev)[0]
            # the stale-bits header would be fine after the original header at p (apart from its parent hash)
            assert P.bits_of(v['retimed-next-stale-bits']) == P.bits_of(E[p + 1])
        assert sum(P.pow_hash_int(v['right-bits-insufficient-pow']) <= EASY_MAX_TARGET for v in self.rule.values()) >= 5, \
            'too few insufficient-pow headers that still meet the proof-of-work limit'
        assert P.judge(ep, self.alt_genesis, None, None)[2] == 'genesis'
        H, m, mp = self.H, self.main_alt, self.main_params
        assert P.first_invalid(mp, H + [m['next20'], m['next21']]) is None
        assert P.first_invalid(mp, H[:19] + [m['alt19']]) is None
        assert P.first_invalid(mp, H[:10] + [m['alt10'], m['alt11']]) is None
        assert P.judge(mp, m['wrongbits20'], H[19], H[18])[2] == 'bits'
        assert P.judge(mp, m['wrongprev20'], H[19], H[18])[2] == 'prev'
        return True


_LOADED = None


def load(log=lambda s: None):
    """Load the fixtures, mining them first when the cache is missing or stale."""
    global _LOADED
    if _LOADED is not None:
        return _LOADED
    path = os.path.join(CACHE, 'fixtures.json')
    fx = None
    if os.path.exists(path):
        try:
            with open(path) as f:
                fx = json.load(f)
            if fx.get('version') != VERSION:
                fx = None
        except (OSError, ValueError):
            fx = None
    if fx is None:
        P.selftest()
        fx = _generate(log)
        os.makedirs(CACHE, exist_ok=True)
        tmp = f'{path}.{os.getpid()}.tmp'
        with open(tmp, 'w') as f:
            json.dump(fx, f)
        os.replace(tmp, path)
    out = Fixtures(fx)
    out.validate()
    _LOADED = out
    return out


if __name__ == '__main__':
    import time
    t0 = time.time()
    fxs = load(print)
    print('fixtures ok', round(time.time() - t0, 2), 's; easy bits seen:',
          sorted({hex(P.bits_of(h)) for h in fxs.E[:32]})[:8], '...')
