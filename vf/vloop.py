"""E1 - the virtual event loop.

A subclass of asyncio.BaseEventLoop without a selector and with a virtual clock.  The harness owns
every step: ready handles are popped by hand (FIFO, exactly as a real loop iteration does),
executor jobs become explicit RUN/DONE events, timers fire only when the harness says so.  Stock
Task / Future / Lock / Event / Queue / wait_for / gather run unmodified on it.

Faithfulness: a real asyncio loop runs, per iteration, the handles that were ready when the iteration
started, in FIFO order; everything external (socket readiness, executor completions, timer expiry) is
appended between iterations in an order the OS decides.  So the nondeterminism is which pending
external events are injected at which iteration boundary and in what order; the ready queue itself is
never reordered here.
"""
import asyncio
import heapq
import collections
from asyncio import events


class Job:
    __slots__ = ('n', 'fut', 'func', 'args', 'executor', 'state', 'result', 'exc')

    def __init__(self, n, fut, func, args, executor):
        self.n, self.fut, self.func, self.args, self.executor = n, fut, func, args, executor
        self.state = 'queued'      # queued -> ran -> done
        self.result = self.exc = None


class VLoop(asyncio.BaseEventLoop):
    def __init__(self, atomic_jobs=True):
        super().__init__()
        self._vtime = 0.0
        self.jobs = []                 # pending executor jobs, creation order
        self._job_counter = 0
        self.exc_contexts = []         # what the loop exception handler saw
        self.atomic_jobs = atomic_jobs  # True: RUN and DONE are one event
        self.set_exception_handler(lambda loop, ctx: self.exc_contexts.append(ctx))
        self.iterations = 0

    # ---- BaseEventLoop plumbing -------------------------------------------------------------
    def time(self):
        return self._vtime

    def _process_events(self, event_list):
        pass

    def _write_to_self(self):
        pass

    def run_in_executor(self, executor, func, *args):
        fut = self.create_future()
        self._job_counter += 1
        self.jobs.append(Job(self._job_counter, fut, func, args, executor))
        return fut

    def call_soon_threadsafe(self, callback, *args, context=None):
        return self.call_soon(callback, *args, context=context)

    # ---- activation ------------------------------------------------------------------------
    def activate(self):
        asyncio.set_event_loop(self)
        events._set_running_loop(self)
        return self

    def deactivate(self):
        events._set_running_loop(None)

    def __enter__(self):
        return self.activate()

    def __exit__(self, *a):
        self.shutdown()

    def shutdown(self):
        """Drop everything that is pending and close; never raises."""
        try:
            for h in list(self._ready):
                h.cancel()
            self._ready.clear()
            for h in list(self._scheduled):
                h.cancel()
            self._scheduled.clear()
            self.jobs.clear()
        finally:
            events._set_running_loop(None)
            if not self.is_closed():
                self.close()
            asyncio.set_event_loop(None)

    # ---- stepping --------------------------------------------------------------------------
    def step(self):
        """One loop iteration: run exactly the handles that are ready now, FIFO."""
        n = len(self._ready)
        for _ in range(n):
            h = self._ready.popleft()
            if not h._cancelled:
                h._run()
        self.iterations += 1
        return n

    def drain(self, limit=100000):
        """Run iterations until the ready queue is empty."""
        k = 0
        while self._ready:
            self.step()
            k += 1
            if k > limit:
                raise RuntimeError('vloop: ready queue never drains (livelock)')
        return k

    # executor jobs
    def runnable_jobs(self):
        """Jobs that may run next: FIFO per executor object (single-thread executors such as
        AIOSQLite's writer); jobs of the default executor (None) are mutually unordered."""
        out, seen = [], set()
        for j in self.jobs:
            if j.state != 'queued':
                continue
            key = id(j.executor) if j.executor is not None else None
            if key is None:
                out.append(j)
            elif key not in seen:
                seen.add(key)
                out.append(j)
        return out

    def finishable_jobs(self):
        return [j for j in self.jobs if j.state == 'ran']

    def job_run(self, job):
        assert job.state == 'queued'
        if job.fut.cancelled():
            job.state = 'done'
            self.jobs.remove(job)
            return
        try:
            job.result = job.func(*job.args)
        except BaseException as e:   # noqa
            job.exc = e
        job.state = 'ran'
        if self.atomic_jobs:
            self.job_done(job)

    def job_done(self, job):
        assert job.state == 'ran'
        job.state = 'done'
        self.jobs.remove(job)
        if job.fut.cancelled():
            return
        if job.exc is not None:
            job.fut.set_exception(job.exc)
        else:
            job.fut.set_result(job.result)

    # timers
    def next_timer(self):
        while self._scheduled and self._scheduled[0]._cancelled:
            h = heapq.heappop(self._scheduled)
            h._scheduled = False
        return self._scheduled[0] if self._scheduled else None

    def fire_timer(self):
        """Advance virtual time to the earliest timer and make it (and any timer due at the same
        instant) ready."""
        h = self.next_timer()
        if h is None:
            return False
        self._vtime = max(self._vtime, h._when)
        while True:
            h = self.next_timer()
            if h is None or h._when > self._vtime:
                break
            heapq.heappop(self._scheduled)
            h._scheduled = False
            self._ready.append(h)
        return True

    def advance(self, seconds):
        """Advance virtual time by `seconds`, firing every timer on the way with the default
        schedule in between (drain, then jobs FIFO)."""
        target = self._vtime + seconds
        while True:
            self.settle()
            h = self.next_timer()
            if h is None or h._when > target:
                break
            self.fire_timer()
        self._vtime = target

    def settle(self, limit=1000000):
        """Default schedule without timers: drain, then oldest runnable job, until nothing is left."""
        k = 0
        while True:
            self.drain()
            rj = self.runnable_jobs() or self.finishable_jobs()
            if not rj:
                return
            j = rj[0]
            if j.state == 'queued':
                self.job_run(j)
            else:
                self.job_done(j)
            k += 1
            if k > limit:
                raise RuntimeError('vloop: settle never quiesces')

    def run(self, coro, horizon=None, max_steps=1000000):
        """Default ("fast environment") schedule: drain; oldest job; earliest timer.  Returns the
        coroutine's result, raises its exception, raises Deadlock if nothing is enabled."""
        self.activate()
        t = self.create_task(coro) if asyncio.iscoroutine(coro) else coro
        for _ in range(max_steps):
            self.drain()
            if t.done():
                return t.result()
            rj = self.runnable_jobs() or self.finishable_jobs()
            if rj:
                j = rj[0]
                self.job_run(j) if j.state == 'queued' else self.job_done(j)
                continue
            if horizon is not None:
                h = self.next_timer()
                if h is not None and h._when > horizon:
                    raise Horizon(f'virtual time horizon {horizon} reached')
            if self.fire_timer():
                continue
            raise Deadlock('no enabled event and main task not done')
        raise Horizon('step horizon reached')

    def pop_exceptions(self):
        import gc
        gc.collect(1)
        out, self.exc_contexts = self.exc_contexts, []
        return out


class Deadlock(RuntimeError):
    pass


class Horizon(RuntimeError):
    pass


def fresh_loop(**kw):
    return VLoop(**kw).activate()
