"""Common bootstrap: make the lbry package of /repo's *current working tree* importable offline.

Imported first by every check. Sets the environment the old generated protobuf files need, puts the
three shims and /repo on sys.path, imports lbry.wallet before lbry.conf (circular import otherwise),
and asserts that the lbry that got imported really lives under the repository being verified.
"""
import os
import sys
import logging
import warnings

VERIF_ROOT = os.path.dirname(os.path.dirname(os.path.abspath(__file__)))
REPO = os.environ.get('VERIF_REPO', '/repo')

os.environ.setdefault('PROTOCOL_BUFFERS_PYTHON_IMPLEMENTATION', 'python')
os.environ.setdefault('LBRY_SDK_VERIF', '1')   # the guard named in MANIFEST.hooks (no source hook uses it)
os.environ.setdefault('HOME', '/root')

for p in (os.path.join(VERIF_ROOT, 'shims'), REPO, VERIF_ROOT):
    if p in sys.path:
        sys.path.remove(p)
sys.path[0:0] = [REPO, os.path.join(VERIF_ROOT, 'shims'), VERIF_ROOT]

warnings.simplefilter('ignore')
sys.dont_write_bytecode = True     # never leave __pycache__ behind in /repo

import lbry            # noqa: E402
import lbry.wallet     # noqa: E402  (must precede lbry.conf)
import lbry.conf       # noqa: E402

assert os.path.realpath(lbry.__file__).startswith(os.path.realpath(REPO) + os.sep), \
    f"lbry imported from {lbry.__file__}, not from {REPO}"

logging.disable(logging.CRITICAL)

CACHE_DIR = os.path.join(VERIF_ROOT, '.cache')
os.makedirs(CACHE_DIR, exist_ok=True)


def scratch_dir(name):
    """Per-process scratch directory under /verif/.cache (never /tmp)."""
    import tempfile
    base = os.environ.get('VERIF_SCRATCH') or ('/dev/shm/verif-scratch' if os.path.isdir('/dev/shm') else os.path.join(CACHE_DIR, 'scratch'))
    os.makedirs(base, exist_ok=True)
    return tempfile.mkdtemp(prefix=name + '.', dir=base)
