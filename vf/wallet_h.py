"""Shared wallet harness for C03 (funding) and C14 (concurrent builds).

Builds, on a vf.vloop.VLoop, a *real* lbry Ledger + Database(':memory:') + Wallet with one or two
hierarchical-deterministic Accounts (gaps 2/2 so that key derivation stays cheap) and fills the txo
table through the real `Database.insert_transaction` / `save_transaction_io` path.  Nothing in lbry is
modified: the seams are constructor arguments (`Ledger(config={'db','headers','network'})`) and names
patched in the *namespace of the lbry module that uses them*:

  lbry.wallet.coinselection.Random -> ScriptedRandom (shuffle = the k-th permutation, k set by the check;
                                      keeps the stdlib signature, so F1's `random=` keyword still fails)
  lbry.wallet.account.random       -> DetChoice      (random.choice of the change address: scripted index)
  lbry.wallet.account.time / .os   -> proxies with a fixed clock / counter urandom

Observation goes through the sqlite writer connection directly (`WalletH.rows()`); that connection lives
in this thread because VLoop runs executor jobs in the main thread.
"""
import os as _os
import time as _time
import math
import random as _random
import inspect
import itertools

import vf.bootstrap  # noqa: F401
from vf.vloop import VLoop

SEED_PHRASE = ("carbon smart garage balance margin twelve chest sword toast envelope bottom stomach absent")
SEED_PHRASE_2 = ("abandon abandon abandon abandon abandon abandon abandon abandon abandon abandon abandon about")
FOREIGN_HASH = b'\x07' * 20          # a third party's pubkey hash (payer of the funding transactions)
PAYEE_HASH = b'\x09' * 20            # whom the transactions under test pay
CLAIM_ID = 'ab' * 20

STATES = {                           # confirmation states of a funding transaction
    'conf': dict(is_verified=True, height=5),       # verified, in a block
    'mem0': dict(is_verified=False, height=0),      # mempool, all inputs confirmed
    'memneg': dict(is_verified=False, height=-1),   # mempool, unconfirmed inputs
}

_XPRV = {}


# ------------------------------------------------------------------------------------------------
# deterministic stand-ins
# ------------------------------------------------------------------------------------------------

def nth_permutation(n, k):
    """k-th permutation (lexicographic, k taken modulo n!) of range(n) for n <= 8; a rotation for larger n."""
    if n > 8:
        r = k % n
        return list(range(r, n)) + list(range(0, r))
    k %= math.factorial(n)
    items = list(range(n))
    out = []
    for i in range(n, 0, -1):
        f = math.factorial(i - 1)
        out.append(items.pop(k // f))
        k %= f
    return out


class Script:
    """What the scripted randomness does in this execution and what it was asked."""

    def __init__(self, perm=0, choice=0):
        self.perm = perm
        self.choice = choice
        self.shuffles = []      # lengths of the lists shuffled
        self.choices = []       # lengths of the sequences chosen from


_SCRIPT = Script()


def _make_scripted_random():
    legacy = 'random' in inspect.signature(_random.Random.shuffle).parameters

    class ScriptedRandom(_random.Random):
        """random.Random whose shuffle applies the scripted permutation.  The signature of shuffle is the
        one this interpreter's random.Random.shuffle has, so a caller passing a removed keyword fails here
        exactly as it does with the stdlib class."""

        def __init__(self, seed=None):
            super().__init__(0 if seed is None else seed)

        if legacy:
            def shuffle(self, x, random=None):   # noqa
                self._scripted(x)
        else:
            def shuffle(self, x):
                self._scripted(x)

        def _scripted(self, x):
            _SCRIPT.shuffles.append(len(x))
            p = nth_permutation(len(x), _SCRIPT.perm)
            x[:] = [x[i] for i in p]

    return ScriptedRandom


class DetChoice:
    """Stands in for the `random` module inside lbry.wallet.account (only .choice is used there)."""

    @staticmethod
    def choice(seq):
        _SCRIPT.choices.append(len(seq))
        return seq[_SCRIPT.choice % len(seq)]

    def __getattr__(self, name):
        raise AttributeError(f'lbry.wallet.account used random.{name}: not scripted by the harness')


class _Proxy:
    def __init__(self, real, **over):
        self.__dict__['_real'] = real
        self.__dict__['_over'] = over

    def __getattr__(self, name):
        o = self.__dict__['_over']
        if name in o:
            return o[name]
        return getattr(self.__dict__['_real'], name)


_urandom_counter = itertools.count(1)


def _det_urandom(n):
    return (next(_urandom_counter).to_bytes(8, 'big') * (n // 8 + 1))[:n]


class Patches:
    def __init__(self):
        self.saved = []

    def set(self, mod, name, value):
        self.saved.append((mod, name, getattr(mod, name)))
        setattr(mod, name, value)

    def undo(self):
        while self.saved:
            mod, name, old = self.saved.pop()
            setattr(mod, name, old)


# ------------------------------------------------------------------------------------------------
# fake network (Ledger only needs the two streams, is_connected and broadcast)
# ------------------------------------------------------------------------------------------------

class FakeNetwork:
    """broadcast() returns a future that the *harness* resolves (an ENV event): the server's answer can
    arrive at any later iteration boundary."""
    is_connected = False

    def __init__(self, loop):
        from lbry.wallet.stream import StreamController
        self._loop = loop
        self._on_header = StreamController()
        self._on_status = StreamController()
        self.on_header = self._on_header.stream
        self.on_status = self._on_status.stream
        self.pending = []        # [(n, future, raw_hex)]
        self.sent = []
        self._n = 0

    def broadcast(self, raw_hex):
        self._n += 1
        fut = self._loop.create_future()
        self.pending.append((self._n, fut, raw_hex))
        self.sent.append(raw_hex)
        return fut

    def answer(self, n, ok):
        from lbry.wallet.rpc.jsonrpc import RPCError
        for i, (k, fut, raw) in enumerate(self.pending):
            if k == n:
                del self.pending[i]
                if not fut.done():
                    if ok:
                        fut.set_result('txid')
                    else:
                        fut.set_exception(RPCError(-1, 'the transaction was rejected by network rules.'))
                return
        raise KeyError(n)


# ------------------------------------------------------------------------------------------------
# the harness
# ------------------------------------------------------------------------------------------------

class Coin:
    """One row-to-be of the txo table.

    amount  dewies
    state   key of STATES
    kind    'coin' plain P2PKH | 'claim' a stream claim | 'purchase' received purchase payment
    flags   subset of {'reserved', 'spent', 'other'}  (other = belongs to the second account)
    addr    index into [receiving0, receiving1, change0, change1]
    """
    __slots__ = ('amount', 'state', 'kind', 'flags', 'addr', 'txo')

    def __init__(self, amount, state='conf', kind='coin', flags=(), addr=0):
        self.amount, self.state, self.kind, self.flags, self.addr = amount, state, kind, frozenset(flags), addr
        self.txo = None

    def spec(self):
        return [self.amount, self.state, self.kind, sorted(self.flags), self.addr]

    @classmethod
    def from_spec(cls, s):
        return cls(s[0], s[1], s[2], s[3], s[4])

    def __repr__(self):
        return f'Coin{tuple(self.spec())}'


class WalletH:
    GAPS = {'name': 'deterministic-chain',
            'receiving': {'gap': 2, 'maximum_uses_per_address': 1},
            'change': {'gap': 2, 'maximum_uses_per_address': 1}}

    def __init__(self, coins=(), strategy=None, fee_per_byte=50, fee_per_name_char=0, atomic_jobs=True,
                 used_change=0, second_account=False, perm=0, choice=0, layout='one'):
        global _SCRIPT
        import lbry.wallet.coinselection as cs_mod
        import lbry.wallet.account as acc_mod
        from lbry.wallet import Ledger, Database, Headers, Wallet
        self.script = _SCRIPT = Script(perm, choice)
        self.patches = Patches()
        self.patches.set(cs_mod, 'Random', _make_scripted_random())
        self.patches.set(acc_mod, 'random', DetChoice())
        self.patches.set(acc_mod, 'time', _Proxy(_time, time=lambda: 1600000000.0))
        self.patches.set(acc_mod, 'os', _Proxy(_os, urandom=_det_urandom))
        self.loop = VLoop(atomic_jobs=atomic_jobs).activate()
        self.closed = False
        try:
            self.network = FakeNetwork(self.loop)
            self.ledger = Ledger({'db': Database(':memory:'), 'headers': Headers(':memory:'),
                                  'network': self.network, 'fee_per_byte': fee_per_byte,
                                  'fee_per_name_char': fee_per_name_char})
            self.ledger.coin_selection_strategy = strategy
            self.wallet = Wallet()
            self.coins = [c if isinstance(c, Coin) else Coin.from_spec(c) for c in coins]
            self.second_account = second_account or any('other' in c.flags for c in self.coins)
            self.layout = layout
            self.loop.run(self._setup(used_change))
            self.conn = self.ledger.db.db.writer_connection
        except BaseException:
            self.close()
            raise

    # -- construction -------------------------------------------------------------------------
    def _account(self, phrase):
        from lbry.wallet import Account
        if phrase not in _XPRV:
            _XPRV[phrase] = Account.get_private_key_from_seed(self.ledger, phrase, '').extended_key_string()
        return Account.from_dict(self.ledger, self.wallet,
                                 {'private_key': _XPRV[phrase], 'address_generator': self.GAPS})

    async def _setup(self, used_change):
        from lbry.wallet import Transaction, Input, Output
        ledger = self.ledger
        await ledger.db.open()
        self.account = self._account(SEED_PHRASE)
        await self.account.ensure_address_gap()
        recv = await self.account.receiving.get_addresses(order_by='n asc')
        chng = await self.account.change.get_addresses(order_by='n asc')
        self.addresses = recv + chng
        assert len(recv) == 2 and len(chng) == 2, (recv, chng)
        self.account2 = None
        other_addresses = []
        if self.second_account:
            self.account2 = self._account(SEED_PHRASE_2)
            await self.account2.ensure_address_gap()
            other_addresses = await self.account2.receiving.get_addresses(order_by='n asc')
        h160 = ledger.address_to_hash160
        # funding layout: how the coins of one confirmation state are spread over funding transactions
        #   'one'         all in one transaction (purchases always get their own: payment + data)
        #   'per-coin'    one transaction per coin
        #   'interleaved' coins alternate between T1 and T2 in amount order (of three: T1 smallest + largest, T2 the middle)
        #   'pairs'       two outputs per transaction, in amount order
        part = {}
        if self.layout != 'one':
            by_state = {}
            for c in self.coins:
                if c.kind != 'purchase':
                    by_state.setdefault(c.state, []).append(c)
            for cs in by_state.values():
                ranked = sorted(range(len(cs)), key=lambda i: (cs[i].amount, i))
                for rank, i in enumerate(ranked):
                    if self.layout == 'per-coin':
                        part[id(cs[i])] = rank
                    elif self.layout == 'interleaved':
                        part[id(cs[i])] = rank % 2
                    elif self.layout == 'pairs':
                        part[id(cs[i])] = rank // 2
                    else:
                        raise ValueError(self.layout)
        groups = {}
        for c in self.coins:
            key = (c.state, id(c) if c.kind == 'purchase' else 0, part.get(id(c), 0))
            groups.setdefault(key, []).append(c)
        self.funding = []
        serial = 0
        for (state, _, _), cs in groups.items():
            serial += 1
            outs = []
            for c in cs:
                address = other_addresses[c.addr % 2] if 'other' in c.flags else self.addresses[c.addr % 4]
                if c.kind == 'claim':
                    from lbry.schema.claim import Claim
                    claim = Claim()
                    claim.stream.title = 'decoy'
                    c.txo = Output.pay_claim_name_pubkey_hash(c.amount, 'decoy', claim, h160(address))
                else:
                    c.txo = Output.pay_pubkey_hash(c.amount, h160(address))
                outs.append(c.txo)
                if c.kind == 'purchase':
                    from lbry.schema.purchase import Purchase
                    outs.append(Output.add_purchase_data(Purchase(CLAIM_ID)))
            fake = Output.pay_pubkey_hash(sum(o.amount for o in outs) + 1000 + serial, FOREIGN_HASH)
            Transaction(is_verified=True, height=1).add_outputs([fake])
            ftx = Transaction(**STATES[state]).add_inputs([Input.spend(fake)]).add_outputs(outs)
            self.funding.append(ftx)
            await ledger.db.insert_transaction(ftx)
            seen = set()
            for c in cs:
                address = c.txo.get_address(ledger)
                if address in seen:
                    continue
                seen.add(address)
                await ledger.db.save_transaction_io(ftx, address, h160(address), f'{ftx.id}:{ftx.height}:')
        # decoys that must never be selected
        for c in self.coins:
            if 'spent' in c.flags:
                spender = Transaction(is_verified=True, height=6).add_inputs([Input.spend(c.txo)]).add_outputs(
                    [Output.pay_pubkey_hash(c.amount - 10000, FOREIGN_HASH)])
                address = c.txo.get_address(ledger)
                await ledger.db.save_transaction_io(spender, address, h160(address), f'{spender.id}:6:')
            if 'reserved' in c.flags:
                await ledger.reserve_outputs([c.txo])
        # mark change addresses as used without giving them coins (history only)
        for address in chng[:used_change]:
            await ledger.db.save_transaction_io_batch([], address, h160(address), 'ff' * 32 + ':3:')

    # -- observation --------------------------------------------------------------------------
    def rows(self):
        """Synchronous read of the txo table: {txoid: dict(amount, is_reserved, spent, txo_type, account)}."""
        cur = self.conn.execute(
            "SELECT txo.txoid AS txoid, txo.amount AS amount, txo.is_reserved AS is_reserved, txo.txo_type AS txo_type, "
            "txo.address AS address, (SELECT COUNT(*) FROM txi WHERE txi.txoid = txo.txoid) AS spent, "
            "(SELECT account FROM account_address aa WHERE aa.address = txo.address) AS account, "
            "tx.height AS height, tx.is_verified AS is_verified "
            "FROM txo JOIN tx USING (txid) ORDER BY txo.txoid")
        out = {}
        for r in cur.fetchall():
            out[r['txoid']] = r
        return out

    def reserved(self):
        return {r['txoid'] for r in self.conn.execute("SELECT txoid FROM txo WHERE is_reserved").fetchall()}

    def address_count(self):
        return self.conn.execute("SELECT COUNT(*) AS n FROM account_address").fetchone()['n']

    def spendable(self, rows=None, account=None):
        """txoids that are unspent, unreserved and belong to `account` (any output type)."""
        rows = self.rows() if rows is None else rows
        acc = (account or self.account).public_key.address
        return {k for k, r in rows.items() if not r['spent'] and not r['is_reserved'] and r['account'] == acc}

    def change_chain_addresses(self, upto=8):
        """Addresses of chain 1 of the funding account, derived from the account key (not read from the
        database the code under test writes)."""
        return {self.account.change.get_public_key(n).address for n in range(upto)}

    def run(self, coro):
        return self.loop.run(coro)

    # -- teardown -----------------------------------------------------------------------------
    def _abandon_tasks(self):
        """Close every unfinished coroutine *now*, while this loop is still the current one.  Left to the
        garbage collector they are closed at an arbitrary later moment - inside the next execution - and
        lbry's error paths (`except Exception: await ledger.release_tx(tx)`) then post executor jobs on
        whatever loop is current at that time (observed: replay divergence in C14)."""
        import asyncio
        for t in list(asyncio.all_tasks(self.loop)):
            t._log_destroy_pending = False
            coro = t.get_coro()
            for _ in range(8):
                try:
                    coro.close()
                    break
                except RuntimeError:      # "coroutine ignored GeneratorExit": it awaited in a handler
                    continue
                except BaseException:     # noqa - whatever the abandoned coroutine raises while dying
                    break

    def close(self):
        if self.closed:
            return
        self.closed = True
        try:
            self._abandon_tasks()
        except Exception:   # noqa
            pass
        try:
            db = getattr(getattr(self, 'ledger', None), 'db', None)
            conn = getattr(getattr(db, 'db', None), 'writer_connection', None)
            if conn is not None:
                conn.close()
                db.db.writer_connection = None
            if db is not None and db.db is not None:
                db.db.writer_executor.shutdown(wait=False)
                db.db.reader_executor.shutdown(wait=False)
        except Exception:   # noqa - teardown of a half-built harness
            pass
        finally:
            try:
                self.loop.shutdown()
            finally:
                self.patches.undo()

    def __enter__(self):
        return self

    def __exit__(self, *a):
        self.close()
