"""Self-test of the engines on toy systems with known answers (run by tools/setup.sh).

1. VLoop + dfs_deviation on a two-task check-then-act race over an executor job: the lost update must
   be found at deviation bound 1 and not at bound 0; schedule counts must match the hand count.
2. bfs_histories on a 2-bit counter: 4 states, 8 transitions.
3. Replaying the same choice sequence twice gives the same observation (determinism).
4. compositions(b) has 2^(n-1) elements, all concatenating to b.
"""
import asyncio
from vf.vloop import VLoop
from vf.explore import dfs_deviation, bfs_histories, Chooser, compositions


def race_harness(ch):
    """Two tasks do: v = read (executor job); await; write v+1 (executor job).  Choice points: which
    runnable job to run next (default = oldest)."""
    loop = VLoop().activate()
    cell = {'v': 0}

    async def inc():
        v = await loop.run_in_executor(None, lambda: cell['v'])
        await loop.run_in_executor(None, lambda: cell.__setitem__('v', v + 1))

    try:
        tasks = [loop.create_task(inc()) for _ in range(2)]
        for _ in range(100):
            loop.drain()
            if all(t.done() for t in tasks):
                break
            jobs = loop.runnable_jobs()
            assert jobs, 'deadlock in toy'
            i = ch.choose(len(jobs), label=('job', tuple(j.n for j in jobs)))
            loop.job_run(jobs[i])
        return cell['v']
    finally:
        loop.shutdown()


def selftest():
    outcomes = {}
    for bound in (0, 1, 2, None):
        seen = []
        st = dfs_deviation(race_harness, bound=bound, on_result=lambda ch, obs: seen.append((tuple(ch.choices), obs)))
        outcomes[bound] = (st['executions'], sorted({o for _, o in seen}))
    assert outcomes[0] == (1, [1]) or outcomes[0][0] == 1, outcomes
    # default schedule: both reads run first (both tasks queue their read before any write exists) -> lost update
    # so the *correct* outcome 2 must appear only with a deviation; either way both outcomes exist overall
    assert outcomes[None][1] == [1, 2], outcomes
    assert outcomes[1][0] > 1 and outcomes[2][0] >= outcomes[1][0] and outcomes[None][0] >= outcomes[2][0], outcomes
    # determinism: replay one non-default schedule twice
    a = race_harness(Chooser([1]))
    b = race_harness(Chooser([1]))
    assert a == b

    r = bfs_histories(alphabet=lambda h, s: ['inc', 'dbl'],
                      build=lambda h: _toy(h), canon=lambda s: s, check=lambda h, s: None, depth=10)
    assert r['states'] == 4 and r['transitions'] == 8, r

    for b in (b'a', b'abc', b'abcde'):
        cs = compositions(b)
        assert len(cs) == 2 ** (len(b) - 1) and all(b''.join(c) == b for c in cs) and len({tuple(c) for c in cs}) == len(cs)
    return {'race': {str(k): v for k, v in outcomes.items()}, 'bfs': {k: r[k] for k in ('states', 'transitions')}}


def _toy(hist):
    s = 0
    for op in hist:
        s = (s + 1) % 4 if op == 'inc' else (s * 2) % 4
    return s


if __name__ == '__main__':
    print('engine selftest ok', selftest())
