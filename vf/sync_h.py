"""C09 harness: the real Ledger + Database(':memory:') + Account of lbry.wallet on the virtual loop, talking
to the mock SPV server of refs/electrum_ref through the real `Network` object whose client session is a fake:
every request becomes a pending ENV event (reply content fixed when the request is made - the server
answers at once, the answer travels slowly), every status notification and every chain growth is an ENV
event too, and the sqlite writer jobs are JOB events.  `drive()` turns these into numbered choice points.

Choice points (DESIGN.md A.1, plus DEFER - see below).  At every loop-iteration boundary:

  ready queue non-empty : [STEP (0)] + every pending event injected early (1 each)   (only if opts['early'])
  ready queue empty     : pending events in canonical order, first = default (0), others = "non-oldest" (1),
                          plus DEFER(oldest reply/notification) (1) when something else is pending too.

Canonical order: sqlite job (at most one exists: AIOSQLite serialises writers) < replies/notifications by
creation number < GROW (the next stage of the chain: by default only when everything else is done) <
deferred replies/notifications.  DEFER marks the oldest reply as slow: it stays behind everything else -
including the next chain growth - until nothing else is enabled.  It is what makes "a stale get_history
answer arrives after a newer sync completed" a one-deviation schedule; real networks produce it (one slow
response), and it creates no ordering real asyncio cannot (events are still injected at iteration
boundaries only, the ready queue is never reordered).
"""
import gc
import asyncio
import hashlib
import itertools
import traceback

from vf.vloop import VLoop
from refs import electrum_ref as ER

SEED = "carbon smart garage balance margin twelve chest sword toast envelope bottom stomach absent"
GAPS = {'receiving': 3, 'change': 2}
N_DERIVED = {'receiving': 16, 'change': 10}
COIN = ER.COIN

_CACHE = {}


def _account_dict():
    """Extended private key of the fixed seed (PBKDF2 is paid once per process)."""
    if 'xprv' not in _CACHE:
        from lbry.wallet import Ledger, Account
        pk = Account.get_private_key_from_seed(Ledger, SEED, '')
        _CACHE['xprv'] = pk.extended_key_string()
    return {
        'private_key': _CACHE['xprv'],
        'address_generator': {
            'name': 'deterministic-chain',
            'receiving': {'gap': GAPS['receiving'], 'maximum_uses_per_address': 1},
            'change': {'gap': GAPS['change'], 'maximum_uses_per_address': 1}},
    }


def hd_addresses(account):
    """symbol -> address and address -> symbol for r0.. / c0.. (derived once per process)."""
    if 'hd' not in _CACHE:
        sym = {}
        for name, mgr, pre in (('receiving', account.receiving, 'r'), ('change', account.change, 'c')):
            for i in range(N_DERIVED[name]):
                sym[f'{pre}{i}'] = mgr.get_public_key(i).address
        _CACHE['hd'] = sym
    return _CACHE['hd']


# ------------------------------------------------------------------------------------------------
# scenario -> raw transactions (the reference's serialiser and script builders; lbry only supplies claim
# payload bytes, as data)

THIRD_H160 = bytes([0x11]) * 20
PK1, PK2 = b'\x02' + b'\x21' * 32, b'\x03' + b'\x22' * 32


def _claim_bytes():
    if 'claim' not in _CACHE:
        from lbry.schema.claim import Claim
        from lbry.schema.purchase import Purchase
        c = Claim()
        c.stream.title = 'c09'
        _CACHE['claim'] = c.to_bytes()
        p = Purchase()
        p.claim_id = '11' * 20
        _CACHE['purchase'] = p.to_bytes()
    return _CACHE['claim'], _CACHE['purchase']


# ---- outputs that PAY THE WALLET with an unusual claim/support/purchase payload or name.  Anybody can send
# such an output to one of our addresses; the reference classifies by script (a claim script locks value in a
# claim whatever its payload), lbry only supplies well-formed payload bytes as data.
OWN_NAMES = {'ascii': b'mine', 'nonutf8': b'\xff\xfeodd'}
OWN_KINDS = ['claim', 'update', 'support_data', 'support', 'purchase']
OWN_CLAIM_PAYLOADS = ['valid_claim', 'legacy_v1_stream', 'legacy_v1_channel', 'legacy_v0_json', 'json_unknown_version',
                      'free_text', 'empty', 'one_byte', 'one_byte_zero', 'random32', 'truncated_claim',
                      'support_payload', 'big_4k']
OWN_PURCHASE_PAYLOADS = ['valid_purchase', 'P_garbage', 'P_only', 'empty', 'random32']


def own_payloads():
    if 'own' not in _CACHE:
        import os
        import json
        from lbry.schema.support import Support
        claim, purchase = _claim_bytes()
        fx = json.load(open(os.path.join(os.path.dirname(os.path.dirname(os.path.abspath(__file__))),
                                         'fixtures', 'c09', 'own_payloads.json')))
        sup = Support()
        sup.emoji = '\U0001f44d'
        _CACHE['own'] = {
            'valid_claim': claim,
            'legacy_v1_stream': bytes.fromhex(fx['legacy_v1_stream']),      # migrates (compat.from_types_v1)
            'legacy_v1_channel': bytes.fromhex(fx['legacy_v1_channel']),    # migrates to a channel claim
            'legacy_v0_json': bytes.fromhex(fx['legacy_v0_json']),          # migrates (compat.from_old_json_schema)
            'json_unknown_version': b'{"ver": "9.9", "title": "x"}',        # JSON, not migratable
            'free_text': b'hello, this is not a claim',
            'empty': b'',
            'one_byte': b'\x07',
            'one_byte_zero': b'\x00',                                       # the "unsigned" flag byte alone
            'random32': hashlib.sha256(b'c09 payload').digest(),
            'truncated_claim': claim[:max(2, len(claim) // 2)],
            'support_payload': sup.to_bytes(),                               # a Support message where a Claim belongs
            'big_4k': b'\xa5' * 4096,
            'valid_purchase': purchase,
            'P_garbage': b'P\xff\xff\xff',
            'P_only': b'P',
        }
    return _CACHE['own']


def own_variants():
    """Every (kind, payload, name) of the own-output dimension, simplest first."""
    out = []
    for kind in ('claim', 'update', 'support_data'):
        for payload in OWN_CLAIM_PAYLOADS:
            out.append([kind, payload, 'ascii'])
        # the name is stored independently of the payload: one factor at a time (a decodable and an
        # undecodable payload under the odd name)
        out += [[kind, 'valid_claim', 'nonutf8'], [kind, 'empty', 'nonutf8']]
    out += [['support', 'none', nm] for nm in ('ascii', 'nonutf8')]
    out += [['purchase', payload, 'ascii'] for payload in OWN_PURCHASE_PAYLOADS]
    return out


def own_outputs(variant, amount, h160, cid):
    """The output(s) replacing an 'OWN' entry: [(amount, script)]."""
    kind, payload, nm = variant
    name = OWN_NAMES[nm]
    tail = ER.p2pkh(h160)
    data = own_payloads().get(payload, b'')
    if kind == 'claim':
        return [(amount, ER.claim_name_script(name, data, tail))]
    if kind == 'update':
        return [(amount, ER.update_claim_script(name, cid, data, tail))]
    if kind == 'support_data':
        return [(amount, ER.support_claim_data_script(name, cid, data, tail))]
    if kind == 'support':
        return [(amount, ER.support_claim_script(name, cid, tail))]
    if kind == 'purchase':      # payment to us at this position, purchase data right behind it
        return [(amount, tail), (0, ER.op_return(data))]
    raise ValueError(kind)


# third-party output kinds: name -> (script, why it is in the alphabet)
def third_scripts():
    claim, purchase = _claim_bytes()
    return {
        'p2pkh': ER.p2pkh(THIRD_H160),                         # known template, somebody else's key hash
        'p2sh': ER.p2sh(THIRD_H160),                           # known template (saved when an input is ours)
        'p2pk': ER.p2pk(PK1),                                  # known template without address
        'segwit0': ER.p2wpkh(THIRD_H160),                      # known template 'pay_script_hash+segwit'
        'return_data': ER.op_return(b'hello'),                 # known template
        'purchase_data': ER.op_return(purchase),               # OP_RETURN carrying a purchase (placed at position 1)
        'other_claim': ER.claim_name_script(b'theirs', claim, ER.p2pkh(THIRD_H160)),   # somebody else's claim
        # somebody else's claim with a non-UTF-8 name and an undecodable payload (its row is saved when an input
        # of the transaction is ours)
        'other_claim_odd': ER.claim_name_script(b'\xff\xfetheirs', b'{"ver": "9.9"}', ER.p2pkh(THIRD_H160)),
        'empty': b'',                                          # empty script
        'multisig': ER.bare_multisig_1of2(PK1, PK2),           # standard Bitcoin script, no lbry template
        'return_2push': ER.op_return(b'a', b'b'),              # OP_RETURN with two pushes: no lbry template
        'return_bare': bytes([ER.OP_RETURN]),                  # OP_RETURN alone: no lbry template
        'trunc_direct': bytes([ER.OP_RETURN, 0x4b, 0xaa]),     # direct push of 75 bytes, 1 present
        'trunc_pushdata2': bytes([ER.OP_RETURN, 0x4d, 0x05]),  # PUSHDATA2 with half a length field
        'trunc_p2pkh': ER.p2pkh(THIRD_H160)[:-3],              # P2PKH cut inside the hash
    }


THIRD_KINDS = ['p2pkh', 'p2sh', 'p2pk', 'segwit0', 'return_data', 'purchase_data', 'other_claim', 'other_claim_odd', 'empty',
               'multisig', 'return_2push', 'return_bare', 'trunc_direct', 'trunc_pushdata2', 'trunc_p2pkh']
# kinds the reference classifies as non-standard / unparseable (used in violation signatures only)
UNPARSEABLE = {'multisig', 'return_2push', 'return_bare', 'trunc_direct', 'trunc_pushdata2', 'trunc_p2pkh'}

SIG_SCRIPT = ER.push(b'\x00' * 72) + ER.push(b'\x00' * 33)     # what a P2PKH redeem script looks like


class Built:
    """The raw transactions of a scenario, per stage, plus a name table."""

    def __init__(self, spec, sym):
        self.spec = spec
        self.sym = sym
        self.raw = {}        # tx name -> raw
        self.txid = {}       # tx name -> txid
        self.name_of = {}    # txid -> tx name
        self.stages = []     # [[('mempool', name) | ('block', [names], [confirm names])]]
        third = spec.get('third')
        scripts = third_scripts()
        claim, _ = _claim_bytes()
        ext_n = itertools.count()
        for stage in spec['stages']:
            ops, block_new, block_confirm = [], [], []
            for op in stage:
                if op[0] == 'confirm':
                    block_confirm.extend(op[1])
                    continue
                _, name, where, inputs, outputs = op
                ins = []
                for i in inputs:
                    if i == 'ext':
                        ins.append((hashlib.sha256(b'ext%d' % next(ext_n)).hexdigest(), 0, SIG_SCRIPT, 0xFFFFFFFF))
                    else:
                        ins.append((self.txid[i[0]], i[1], SIG_SCRIPT, 0xFFFFFFFF))
                outs = []
                for dest, amount, kind in outputs:
                    amount = int(amount * COIN) // 10
                    if dest == 'x':
                        outs.append((amount, scripts[(third or 'p2pkh') if kind == 'K' else kind]))
                        continue
                    h = ER.address_to_h160(sym[dest])
                    cid = hashlib.sha256(name.encode()).digest()[:20]
                    if kind == 'pay':
                        outs.append((amount, ER.p2pkh(h)))
                    elif kind == 'claim':
                        outs.append((amount, ER.claim_name_script(b'mine', claim, ER.p2pkh(h))))
                    elif kind == 'update':
                        outs.append((amount, ER.update_claim_script(b'mine', cid, claim, ER.p2pkh(h))))
                    elif kind == 'support':
                        outs.append((amount, ER.support_claim_script(b'mine', cid, ER.p2pkh(h))))
                    elif kind == 'OWN':
                        outs.extend(own_outputs(spec['own'], amount, h, cid))
                    else:
                        raise ValueError(kind)
                if third and third != 'none' and not spec.get('third_explicit'):
                    extra = (COIN // 100, scripts[third])
                    outs.append((0, scripts[third]) if third == 'purchase_data' else extra)
                raw = ER.ser_tx(ins, outs)
                self.raw[name] = raw
                self.txid[name] = ER.txid_of(raw)
                self.name_of[self.txid[name]] = name
                if where == 'mempool':
                    ops.append(('mempool', name))
                else:
                    block_new.append(name)
            if block_new or block_confirm:
                ops.append(('block', block_new, block_confirm))
            self.stages.append(ops)

    def apply(self, chain, stage):
        for op in self.stages[stage]:
            if op[0] == 'mempool':
                chain.add_mempool(self.raw[op[1]])
            else:
                chain.add_block([self.raw[n] for n in op[1]], [self.txid[n] for n in op[2]])


# ------------------------------------------------------------------------------------------------


class TLoop(VLoop):
    """VLoop that remembers every task and future it created, so that "an exception nobody retrieved" can be
    read off the objects at quiescence instead of waiting for the garbage collector to report it (which would
    make the observation depend on collector timing)."""

    def __init__(self):
        super().__init__()
        self.tracked = []

    def create_task(self, coro, **kw):
        t = super().create_task(coro, **kw)
        self.tracked.append(t)
        return t

    def create_future(self):
        f = super().create_future()
        self.tracked.append(f)
        return f

    def unretrieved(self):
        """Exceptions of finished tasks/futures that nothing has looked at (what asyncio would log as
        '... exception was never retrieved' once the object is collected), in creation order."""
        out = []
        for f in self.tracked:
            if f.done() and not f.cancelled() and getattr(f, '_log_traceback', False):
                out.append(f.exception())      # marks it retrieved: reported once
        self.tracked = [f for f in self.tracked if not f.done()]
        return out


class Ev:
    __slots__ = ('n', 'kind', 'label', 'fire', 'deferred', 'meta')

    def __init__(self, n, kind, label, fire, meta=None):
        self.n, self.kind, self.label, self.fire, self.deferred, self.meta = n, kind, label, fire, False, meta


class FakeSession:
    """Stands in for lbry.wallet.network.ClientSession: the only thing the sync path uses is
    send_request(method, args) -> awaitable."""
    server_address_and_port = None

    def __init__(self, h):
        self.h = h

    def is_closing(self):
        return False

    def send_request(self, method, args):
        return self.h.request(method, args)


class Zero:
    """Chooser that always takes the default and records nothing (used outside the explored window)."""
    trace = ()

    def choose(self, n, costs=None, label=None):
        return 0


class HarnessError(RuntimeError):
    pass


class NeverQuiesces(RuntimeError):
    """The code under test keeps producing work past the step horizon (judged by the check, not a harness
    failure)."""


class SyncHarness:
    def __init__(self, spec, opts=None):
        self.spec = spec
        self.opts = dict(early=True, defer=True, listener=True, s_cost=1)
        self.opts.update(opts or {})
        self.events = []
        self._ev_counter = 0
        self.server = ER.Server()
        self.log = []                    # human readable trace (replays)
        self.facts = set()               # coverage witnesses seen in this execution
        self.stage = -1                  # last stage applied to the server
        self.grow_armed = None           # stage number the pending GROW event will apply
        self.steps = 0
        self._active = {}                # address -> number of live update_history coroutines
        self._finished = {}              # address -> update_history coroutines finished inside the window
        self._past_hist = set()          # addresses whose sync got its history and has not saved yet
        self.loop = TLoop().activate()
        self._build()

    # -- construction --------------------------------------------------------------------------
    def _build(self):
        from lbry.wallet import Ledger, Database, Headers, Account, Wallet
        loop = self.loop
        ledger = self.ledger = Ledger({'db': Database(':memory:'), 'headers': Headers(':memory:')})
        ledger.headers.checkpoints = {}
        self.net = ledger.network           # the real Network object; only its session is fake

        async def setup():
            await ledger.headers.open()
            await ledger.db.open()
            account = Account.from_dict(ledger, Wallet(), _account_dict())
            await account.ensure_address_gap()      # offline: no client yet, nothing is announced
            return account
        self.account = loop.run(setup())
        self.sym = hd_addresses(self.account)
        self.name_of_addr = {a: s for s, a in self.sym.items()}
        self.hd = {'receiving': [self.sym[f'r{i}'] for i in range(N_DERIVED['receiving'])],
                   'change': [self.sym[f'c{i}'] for i in range(N_DERIVED['change'])]}
        self.built = Built(self.spec, self.sym)
        self.net.running = True
        self.net.client = FakeSession(self)
        if self.opts['listener']:
            # exactly what Ledger.start() does after the initial sync
            ledger.on_transaction.listen(ledger._reset_balance_cache)
        self._instrument()

    def _instrument(self):
        """Schedule-neutral wrappers (plain await chains, no extra loop iterations) for witnesses."""
        ledger, h = self.ledger, self
        orig_update = ledger.update_history
        orig_save = ledger.db.save_transaction_io_batch

        async def update_history(address, *a, **kw):
            n = h._active.get(address, 0)
            if n:
                h.facts.add('same_address_updates_overlap')
            if n >= 2:
                h.facts.add('three_same_address_updates_overlap')
            if n and h._finished.get(address):
                # an update of this address already finished inside the window while a successor that was
                # queued behind it is still alive: whatever the finished one released must still serve this one
                h.facts.add('update_arrives_while_queued_successor_runs')
            h._active[address] = n + 1
            try:
                return await orig_update(address, *a, **kw)
            finally:
                h._active[address] -= 1
                h._finished[address] = h._finished.get(address, 0) + 1
                h._past_hist.discard(address)

        def save(txs, address, *a, **kw):
            h._past_hist.discard(address)
            return orig_save(txs, address, *a, **kw)
        ledger.update_history = update_history
        ledger.db.save_transaction_io_batch = save

    # -- the fake wire -------------------------------------------------------------------------
    def _new_event(self, kind, label, fire, meta=None):
        self._ev_counter += 1
        ev = Ev(self._ev_counter, kind, label, fire, meta)
        self.events.append(ev)
        return ev

    def _short(self, txids):
        return ','.join(sorted(self.built.name_of.get(t, t[:6]) for t in txids))

    def request(self, method, args):
        fut = self.loop.create_future()
        srv = self.server
        if method == 'blockchain.address.subscribe':
            value = srv.subscribe(list(args))
            label = ('sub', ','.join(self.name_of_addr.get(a, a[:6]) for a in args))
            if any(v is not None for v in value):
                self.facts.add('subscribe_reply_with_history')
        elif method == 'blockchain.address.get_history':
            value = srv.get_history(args[0])
            label = ('hist', self.name_of_addr.get(args[0], args[0][:6]))
        elif method == 'blockchain.transaction.get_batch':
            value = srv.get_transaction_batch(list(args))
            label = ('batch', self._short(args))
        elif method == 'blockchain.transaction.get_merkle':
            value = srv.get_merkle(args[0], args[1])
            label = ('merkle', self._short([args[0]]))
        else:
            raise HarnessError(f'unexpected request {method} {args!r}')

        def fire():
            if method == 'blockchain.address.get_history':
                addr = args[0]
                if [(e['tx_hash'], e['height']) for e in value] != srv.chain.history(addr):
                    self.facts.add('stale_history_reply_delivered')
                if self._past_hist - {addr}:
                    self.facts.add('two_updates_past_get_history_before_either_saved')
                self._past_hist.add(addr)
            if not fut.done():
                fut.set_result(value)
        self._new_event('reply', label, fire)
        return fut

    def notify(self, address, status):
        def fire():
            # the production path: ClientSession.handle_request -> controller.add(args) -> listener
            # registered by Ledger.__init__ -> ledger.process_status_update([address, status])
            self.net._on_status_controller.add([address, status])
        self._new_event('notify', ('notify', self.name_of_addr.get(address, address[:6])), fire)

    # -- chain growth --------------------------------------------------------------------------
    def grow(self, stage, order=None):
        """Apply stage `stage` to the server and queue the notifications of subscribed addresses in the
        given order (list of address symbols; default: canonical = sorted symbols)."""
        self.built.apply(self.server.chain, stage)
        self.stage = stage
        notes = self.server.pending_notifications()
        syms = sorted(self.name_of_addr[a] for a, _ in notes)
        if order is not None:
            if sorted(order) == syms:
                syms = list(order)
            else:
                # only possible when an earlier stage failed to sync (addresses never generated, hence never
                # subscribed); that failure is reported by the earlier stage's own work item
                self.facts.add('order_not_applicable_after_failed_prefix')
        by_sym = {self.name_of_addr[a]: (a, s) for a, s in notes}
        for s in syms:
            self.notify(*by_sym[s])
        self.log.append(f'GROW stage {stage}: notifications {syms}')
        return syms

    def notification_set(self, stage):
        """Symbols of the addresses that stage `stage` would notify, computed on a copy of the server."""
        srv = ER.Server(self.server.chain.copy())
        srv.subscribed = dict(self.server.subscribed)
        self.built.apply(srv.chain, stage)
        return sorted(self.name_of_addr[a] for a, _ in srv.pending_notifications())

    def arm_grow(self, stage, order=None):
        def fire():
            self.grow_armed = None
            if any(e for e in self.events if e.kind != 'grow'):
                self.facts.add('grow_while_events_pending')
            if self.loop._ready or self.loop.jobs:
                self.facts.add('grow_while_sync_running')
            self.grow(stage, order)
            if stage + 1 < len(self.built.stages):
                self.arm_grow(stage + 1)
        self.grow_armed = stage
        self._new_event('grow', ('grow', stage), fire)

    # -- scheduling ----------------------------------------------------------------------------
    def enabled(self):
        """Pending events in canonical order: job, replies/notifications (oldest first), GROW, deferred."""
        jobs = self.loop.runnable_jobs()
        if len(jobs) > 1:
            raise HarnessError('more than one runnable executor job: AIOSQLite should serialise them')
        out = [('job', j) for j in jobs]
        evs, first_note = [], {}
        for e in sorted(self.events, key=lambda e: e.n):
            if e.kind == 'notify':
                # two status notifications for one address cannot overtake each other (same connection,
                # the server emits them in order): only the oldest pending one is enabled
                if first_note.setdefault(e.label, e) is not e:
                    continue
            evs.append(e)
        out += [('ev', e) for e in evs if not e.deferred and e.kind != 'grow']
        out += [('ev', e) for e in evs if e.kind == 'grow']
        out += [('ev', e) for e in evs if e.deferred]
        return out

    @staticmethod
    def _lab(item):
        return 'job' if item[0] == 'job' else ':'.join(map(str, item[1].label)) + ('~' if item[1].deferred else '')

    def _fire(self, item):
        self.steps += 1
        if item[0] == 'job':
            self.loop.job_run(item[1])
            self.log.append('  JOB')
        else:
            ev = item[1]
            self.events.remove(ev)
            self.log.append('  ' + self._lab(item))
            ev.fire()

    def drive(self, chooser, max_steps=20000):
        """Run until nothing is enabled (true quiescence).  `chooser` decides at every choice point."""
        loop = self.loop
        early, defer, s_cost = self.opts['early'], self.opts['defer'], self.opts['s_cost']
        step_limit, iter_limit = self.steps + max_steps, loop.iterations + 50 * max_steps
        while True:
            if self.steps > step_limit or loop.iterations > iter_limit:
                raise NeverQuiesces(f'no quiescence after {max_steps} events / {50 * max_steps} loop iterations')
            en = self.enabled()
            if loop._ready:
                if early and en:
                    i = chooser.choose(1 + len(en), [0] + [s_cost] * len(en), 'S|' + '|'.join(map(self._lab, en)))
                    if i:
                        self.facts.add('early_injection')
                        self.log.append('  (early)')
                        self._fire(en[i - 1])
                        continue
                loop.step()
                continue
            if len(en) == 1 and en[0][0] == 'ev' and en[0][1].kind == 'grow':
                # only the next stage's growth is left: the explored window ends here (that stage is
                # explored by its own work item)
                self.events.remove(en[0][1])
                self.grow_armed = None
                en = []
            if not en:
                if loop.next_timer() is not None:
                    raise HarnessError('unexpected timer in the sync path')
                return
            can_defer = (defer and len(en) > 1 and en[0][0] == 'ev' and en[0][1].kind != 'grow'
                         and not en[0][1].deferred)
            n = len(en) + (1 if can_defer else 0)
            if n == 1:
                i = 0
            else:
                i = chooser.choose(n, [0] + [1] * (n - 1), '|'.join(map(self._lab, en)) + ('|D' if can_defer else ''))
            if i == len(en):
                en[0][1].deferred = True
                self.facts.add('deferred_reply')
                self.log.append('  DEFER ' + self._lab(en[0]))
                continue
            if i and en[i][0] == 'ev' and en[i][1].kind == 'grow':
                self.facts.add('early_grow')
            if en[i][0] == 'ev' and en[i][1].kind == 'grow' and any(e[0] == 'ev' and e[1].deferred for e in en):
                self.facts.add('deferred_reply_across_grow')
            self._fire(en[i])

    # -- observation ---------------------------------------------------------------------------
    def poll_balance(self):
        """A front end asking for the (cached) balance while the wallet is at rest."""
        r = self.loop.run(self.ledger.get_detailed_balance([self.account]))
        self.loop.drain()
        return r

    def observe(self):
        """Everything the oracle looks at, read at quiescence with the default schedule."""
        ledger, account = self.ledger, self.account

        async def q():
            o = {}
            for name, mgr in (('receiving', account.receiving), ('change', account.change)):
                recs = await mgr._query_addresses(order_by='n asc')
                o[name] = [(r['address'], r['pubkey'].n, r['history'] or '', r['used_times']) for r in recs]
            o['balance'] = await account.get_balance()
            o['balance_all'] = await account.get_balance(include_claims=True)
            o['utxos'] = sorted((u.tx_ref.id, u.position, u.amount) for u in await account.get_utxos())
            o['unspent_all'] = sorted((u.tx_ref.id, u.position, u.amount) for u in
                                      await ledger.db.get_utxos(accounts=[account], no_channel_info=True))
            o['detailed'] = await account.get_detailed_balance()
            o['detailed_cached'] = await ledger.get_detailed_balance([account])
            return o
        left = self.loop.unretrieved()
        o = self.loop.run(q())
        self.loop.drain()
        ctxs, self.loop.exc_contexts = self.loop.exc_contexts, []
        # exceptions raised inside callbacks are reported at once by the loop; the collector-driven
        # "never retrieved" reports are replaced by the deterministic scan above
        o['exceptions'] = [self._exc_sig({'exception': e}) for e in left] + [
            self._exc_sig(c) for c in ctxs if 'never retrieved' not in c.get('message', '')]
        o['stuck_tasks'] = sorted(self._task_name(t) for t in asyncio.all_tasks(self.loop) if not t.done())
        o['out_of_sync'] = sorted(self.name_of_addr.get(a, a) for a in ledger._known_addresses_out_of_sync)
        return o

    @staticmethod
    def _task_name(t):
        c = t.get_coro()
        return getattr(c, '__qualname__', repr(c))

    ANCHORS = ('wallet.ledger', 'wallet.database', 'wallet.account', 'wallet.stream')

    @classmethod
    def _exc_sig(cls, ctx):
        """(exception type, where, via, raised_in, text): where = innermost frame inside one of the anchored
        modules, via = the frame it called, raised_in = innermost frame inside the lbry package."""
        e = ctx.get('exception')
        if e is None:
            return ('message', '', '', '', ctx.get('message', '')[:80])
        frames = []
        for fr in traceback.extract_tb(e.__traceback__):
            if '/lbry/' in fr.filename:
                frames.append(fr.filename.rsplit('/lbry/', 1)[1][:-3].replace('/', '.') + '.' + fr.name)
            else:
                frames.append('~' + fr.filename.rsplit('/', 1)[-1][:-3] + '.' + fr.name)
        where = via = raised_in = ''
        for i, f in enumerate(frames):
            if f.startswith(cls.ANCHORS):
                where, via = f, (frames[i + 1] if i + 1 < len(frames) else '')
            if not f.startswith('~'):
                raised_in = f
        if not where and frames:
            where = frames[-1]
        mod = type(e).__module__
        name = type(e).__name__ if mod == 'builtins' else f'{mod}.{type(e).__name__}'
        return (name, where, via, raised_in, str(e)[:120])

    def canon(self):
        """Canonical dump of the quiescent state: every wallet table, sorted, plus the in-memory fields the
        sync path reads (same canon => same futures for everything update_history does)."""
        conn = self.ledger.db.db.writer_connection
        rows = []
        for table in ('account_address', 'pubkey_address', 'tx', 'txo', 'txi'):
            cur = conn.execute(f'select * from {table}')
            rows.append((table, sorted(repr(sorted((k, bytes(v) if isinstance(v, (bytes, memoryview)) else v)
                                                   for k, v in r.items())) for r in cur.fetchall())))
        mem = sorted(self.ledger._known_addresses_out_of_sync)
        return hashlib.blake2b(repr((rows, mem)).encode(), digest_size=12).hexdigest()

    # -- teardown ------------------------------------------------------------------------------
    def close(self):
        try:
            conn = self.ledger.db.db.writer_connection if self.ledger.db.db else None
            if conn is not None:
                conn.close()
            for ex in (self.ledger.db.db.writer_executor, self.ledger.db.db.reader_executor):
                ex.shutdown(wait=False)
        except Exception:   # noqa
            pass
        for t in asyncio.all_tasks(self.loop):
            if not t.done():
                t.cancel()
        self.loop.shutdown()
        gc.collect(0)


# ------------------------------------------------------------------------------------------------
# one complete execution


def prepare(spec, mode, stage, opts=None):
    """Build the harness and run everything that precedes the explored window with the default schedule
    (no choice points): the initial subscription on an empty server and stages 0..stage-1 (mode 'notify'), or
    just the growth of the chain to stage `stage` (mode 'restore')."""
    h = SyncHarness(spec, opts)
    h.mode, h.target = mode, stage
    h.poll_balance()
    if mode == 'restore':
        for s in range(stage + 1):
            h.built.apply(h.server.chain, s)
        h.stage = stage
    else:
        # what Ledger.join_network() does
        h.ledger._update_tasks.add(h.ledger.subscribe_accounts())
        h.drive(Zero())
        h.poll_balance()
        for s in range(stage):
            h.grow(s)
            h.drive(Zero())
            h.poll_balance()
    h.loop.unretrieved()
    h.loop.exc_contexts.clear()
    h.facts.clear()
    h._finished.clear()
    h.steps0, h.iter0 = h.steps, h.loop.iterations
    h.log.append('--- explored window')
    return h


def window(h, order, chooser, want_log=False):
    """The explored part of an execution, then the observation at true quiescence.

    mode 'notify' : stage `h.target` is applied with its notifications in `order`; the next stage's GROW is
                    enabled only as a deviation (pulled in early, or overtaking a deferred reply); when it is
                    the only thing left the window ends.
    mode 'restore': the whole chain exists before the wallet subscribes (restore / start-up);
                    `subscribe_accounts()` is started the way join_network() starts it."""
    if h.mode == 'restore':
        h.ledger._update_tasks.add(h.ledger.subscribe_accounts())
    else:
        h.grow(h.target, order)
        if h.target + 1 < len(h.built.stages):
            h.arm_grow(h.target + 1)
    try:
        h.drive(chooser)
    except NeverQuiesces as e:
        return {'never_quiesces': str(e), 'obs': None, 'view': None, 'facts': set(h.facts), 'canon': None,
                'stage_reached': h.stage, 'names': (h.name_of_addr, h.built.name_of), 'hd': h.hd,
                'log': list(h.log[-200:]) if want_log else None, 'steps': h.steps - h.steps0,
                'iterations': h.loop.iterations - h.iter0}
    obs = h.observe()
    chain = h.server.chain
    required = {name: h.hd[name][:ER.discoverable(chain, h.hd[name], GAPS[name])] for name in h.hd}
    owned = [r[0] for name in ('receiving', 'change') for r in obs[name]]
    view = ER.wallet_view(chain, owned + [a for name in sorted(required) for a in required[name]
                                          if a not in owned])
    view['required'] = required
    return {'obs': obs, 'view': view, 'facts': set(h.facts), 'canon': h.canon(), 'stage_reached': h.stage,
            'names': (h.name_of_addr, h.built.name_of), 'hd': h.hd, 'log': list(h.log) if want_log else None,
            'steps': h.steps - h.steps0, 'iterations': h.loop.iterations - h.iter0}


def execute(spec, mode, stage, order, chooser, opts=None, want_log=False):
    """One complete execution from scratch (used for replays and determinism checks)."""
    h = prepare(spec, mode, stage, opts)
    try:
        return window(h, order, chooser, want_log)
    finally:
        h.close()
