"""F4 triage: plain reproduction of the C17 findings against the real code, no harness.
usage: /venv/bin/python F04-triage.py /repo   (or a worktree with the F04 fixes applied)"""
import os, sys, signal
os.environ['PROTOCOL_BUFFERS_PYTHON_IMPLEMENTATION'] = 'python'
sys.path[0:0] = [sys.argv[1], '/verif/shims']
import lbry.wallet
from lbry.dht.serialization.bencoding import bdecode, _bencode
from lbry.dht.serialization.datagram import decode_datagram, ErrorDatagram, RequestDatagram, ERROR_TYPE
def t(name, fn):
    signal.signal(signal.SIGALRM, lambda *a: (_ for _ in ()).throw(TimeoutError('still running after 2 s')))
    signal.alarm(2)
    try: r = fn(); print(f'{name:34s} -> returned {str(r)[:60]!r}')
    except BaseException as e: print(f'{name:34s} -> {type(e).__name__}: {str(e)[:70]}')
    finally: signal.alarm(0)
ping = RequestDatagram.make_ping(b'n' * 48, b'r' * 20).bencode()
t('bdecode(b"d")', lambda: bdecode(b'd'))
t('bdecode(b"l"*1100)', lambda: bdecode(b'l' * 1100, True))
t('bdecode(b"l-3:")', lambda: bdecode(b'l-3:', True))
t('decode_datagram(b"de")', lambda: decode_datagram(b'de'))
t('decode_datagram(ping[:-1])', lambda: type(decode_datagram(ping[:-1])).__name__ + ' (accepted)')
t('error datagram, int in key 3', lambda: decode_datagram(b'di0ei2ei1e20:' + b'r' * 20 + b'i2e48:' + b'n' * 48 + b'i3ei7ei4e1:xe'))
t('request, rpc_id = list of 20', lambda: decode_datagram(b'di0ei0ei1el' + b'i0e' * 20 + b'ei2e48:' + b'n' * 48 + b'i3e4:pingi4elee').rpc_id)
t('error text "é" round trip', lambda: decode_datagram(ErrorDatagram(ERROR_TYPE, b'r' * 20, b'n' * 48, b'E', 'é'.encode()).bencode()).response)
