"""F25 reproduction against the real code (no explorer): Transaction.sign(extra_keys={addrA: keyA, addrB: keyB}) on an
input that redeems a time-locked pay-to-script-hash output locked to keyB signs with keyA (the first dict value).
usage: cd /verif && /venv/bin/python fixes/F25-triage.py   (VERIF_REPO=<tree> to try another tree)"""
import sys, hashlib, asyncio
sys.path.insert(0, '/verif')
import vf.bootstrap  # noqa
from lbry.wallet import Transaction, Input, Output, Ledger
from lbry.wallet.script import OutputScript, InputScript
from lbry.wallet.bip32 import PrivateKey
from lbry.crypto.hash import hash160

key_a = PrivateKey.from_bytes(Ledger, hashlib.sha256(b'a').digest())
key_b = PrivateKey.from_bytes(Ledger, hashlib.sha256(b'b').digest())
redeem = InputScript(template=InputScript.TIME_LOCK_SCRIPT,
                     values={'height': 1000, 'pubkey_hash': hash160(key_b.public_key.pubkey_bytes)}).source
locked = Output(10**8, OutputScript.pay_script_hash(hash160(redeem)))
Transaction().add_outputs([locked])
txi = Input.spend_time_lock(locked, redeem)
tx = Transaction(locktime=1000).add_inputs([txi]).add_outputs([Output.pay_pubkey_hash(9 * 10**7, bytes(20))])


class Account:          # sign() only needs .ledger and .wallet of the funding accounts for this input kind
    ledger, wallet = Ledger, object()


asyncio.run(tx.sign([Account()], {key_a.address: key_a, key_b.address: key_b}))
used = tx.inputs[0].script.values['pubkey']
print('redeem script pays to key B; input carries key', 'B' if used == key_b.public_key.pubkey_bytes else 'A (WRONG)')
sys.exit(0 if used == key_b.public_key.pubkey_bytes else 1)
