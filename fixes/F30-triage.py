"""F30 triage (plain asyncio, real threads, no verification harness): a build that is already failing
(InsufficientFundsError in funding round 2) is cancelled while its own failure handler waits for the database
write lock to release the outputs of round 1 -> they stay reserved.   usage: VERIF_REPO=<tree> python F30-triage.py"""
import sys, asyncio, logging
sys.path.insert(0, '/verif'); import vf.bootstrap  # noqa: E401,E702  (only puts lbry + shims on sys.path)
from lbry.wallet import Ledger, Database, Headers, Account, Wallet, Transaction, Input, Output
from lbry.wallet.constants import COIN
logging.disable(logging.CRITICAL)


async def scenario():
    ledger = Ledger({'db': Database(':memory:'), 'headers': Headers(':memory:')})
    ledger.coin_selection_strategy = 'sqlite'
    await ledger.db.open()
    account = Account.generate(ledger, Wallet(), address_generator={'name': 'deterministic-chain',
                               'receiving': {'gap': 2, 'maximum_uses_per_address': 1}, 'change': {'gap': 2, 'maximum_uses_per_address': 1}})
    address = (await account.ensure_address_gap())[0]
    h = ledger.address_to_hash160(address)
    fake = Output.pay_pubkey_hash(3 * COIN, b'\7' * 20); Transaction(is_verified=True).add_outputs([fake])
    u1 = Output.pay_pubkey_hash(7400 + 3000, h)          # pays the fee of an empty tx, leaves < DUST for change
    ftx = Transaction(is_verified=True, height=5).add_inputs([Input.spend(fake)]).add_outputs([u1])
    await ledger.db.insert_transaction(ftx)
    await ledger.db.save_transaction_io(ftx, address, h, '')
    second_round = asyncio.Event()
    orig = ledger.get_spendable_utxos
    calls = []

    def slow_write(conn):        # another writer (wallet sync saving a batch) keeps the database busy for a moment
        import time
        time.sleep(0.3)

    async def observed(*a, **kw):   # forwards the call; when funding round 2 starts, the other writer queues up
        calls.append(1)
        if len(calls) == 2:
            asyncio.ensure_future(ledger.db.db.run(slow_write))
            second_round.set()
        return await orig(*a, **kw)
    ledger.get_spendable_utxos = observed
    # output-less build: round 1 takes U1, round 2 finds nothing -> InsufficientFundsError -> the handler in
    # Transaction.create wants to release U1 and has to wait for the database write lock behind the other writer
    build = asyncio.ensure_future(Transaction.create([], [], [account], account))
    await second_round.wait()
    await asyncio.sleep(0.1)
    build.cancel()                                        # the caller of the (already failing) build goes away
    try:
        await build
        outcome = 'returned'
    except BaseException as e:   # noqa
        outcome = type(e).__name__
    await asyncio.sleep(0.05)
    rows = await ledger.db.db.execute_fetchall("select count(*) as n from txo where is_reserved")
    await ledger.db.close()
    return outcome, rows[0]['n']

outcome, reserved = asyncio.run(scenario())
print(f'build ended with {outcome}; outputs still reserved afterwards: {reserved}')
sys.exit(1 if reserved else 0)
