"""F19 triage: a cancelled Transaction.create leaves outputs reserved (real asyncio loop, real threads, no
verification harness).  usage: VERIF_REPO=/repo /venv/bin/python F19-triage.py"""
import os, sys, asyncio, logging
sys.path.insert(0, '/verif'); import vf.bootstrap  # noqa: E401,E702  (only puts lbry + shims on sys.path)
from lbry.wallet import Ledger, Database, Headers, Account, Wallet, Transaction, Input, Output
from lbry.wallet.constants import COIN
logging.disable(logging.CRITICAL)


async def scenario(strategy, yields):
    ledger = Ledger({'db': Database(':memory:'), 'headers': Headers(':memory:')})
    ledger.coin_selection_strategy = strategy
    await ledger.db.open()
    account = Account.generate(ledger, Wallet(), address_generator={'name': 'deterministic-chain',
                               'receiving': {'gap': 2, 'maximum_uses_per_address': 1},
                               'change': {'gap': 2, 'maximum_uses_per_address': 1}})
    address = (await account.ensure_address_gap())[0]
    h = ledger.address_to_hash160(address)
    fake = Output.pay_pubkey_hash(3 * COIN, b'\7' * 20); Transaction(is_verified=True).add_outputs([fake])
    ftx = Transaction(is_verified=True, height=5).add_inputs([Input.spend(fake)]).add_outputs(
        [Output.pay_pubkey_hash(COIN, h), Output.pay_pubkey_hash(COIN, h)])
    await ledger.db.insert_transaction(ftx)
    await ledger.db.save_transaction_io(ftx, address, h, '')
    task = asyncio.ensure_future(Transaction.create([], [Output.pay_pubkey_hash(COIN // 2, b'\9' * 20)], [account], account))
    for _ in range(yields):                      # let the build run for a number of loop iterations ...
        await asyncio.sleep(0)
        if task.done():
            break
    done_before_cancel = task.done()
    task.cancel()                                # ... then the caller goes away
    try:
        await task
    except asyncio.CancelledError:
        pass
    await asyncio.sleep(0.05)
    rows = await ledger.db.db.execute_fetchall("select count(*) as n from txo where is_reserved")
    await ledger.db.close()
    return done_before_cancel, rows[0]['n']

for strategy in ('prefer_confirmed', 'sqlite'):
    leaks, cancelled = [], 0
    for yields in [int(1.25 ** e) for e in range(4, 45)]:
        finished, reserved = asyncio.run(scenario(strategy, yields))
        cancelled += not finished
        if not finished and reserved:
            leaks.append(yields)
    print(f'{strategy}: {cancelled} builds cancelled after k loop iterations before they finished; outputs left '
          f'reserved although the build failed for k in {leaks}')
