# Plain reproduction (real class, real main-net headers + two headers mined at real difficulty):
# close() rewrites the file in place without truncating it.  When the buffer is shorter than the file (repair
# truncated it in memory on open), bytes of the previous contents survive behind the new tip.
import sys, os, asyncio, tempfile
repo = sys.argv[1] if len(sys.argv) > 1 else '/repo'
os.environ['VERIF_REPO'] = repo
sys.path.insert(0, '/verif'); import vf.bootstrap
from lbry.wallet.header import Headers
from vf import c07fix
fx = c07fix.load()
class H(Headers): checkpoints = {}
chain = fx.H + [fx.main_alt['next20'], fx.main_alt['next21']]           # 22 valid headers
async def main():
    p = tempfile.mktemp(dir='/dev/shm')
    img = bytearray(b''.join(chain)); img[20*112 + 50] ^= 0xff            # crash image: header 20 damaged ...
    open(p, 'wb').write(bytes(img) + b'x')                                # ... and a stray byte (misaligned)
    h = H(p); await h.open(); print('after the crash: repair keeps', len(h), 'headers')         # 19
    print('connect(19, [valid alternative header 19]) ->', await h.connect(19, fx.main_alt['alt19']), '; len', len(h))
    held = bytes(h.io.getbuffer())[:len(h)*112]
    await h.close()                                                       # clean shutdown
    print('file size after close():', os.path.getsize(p), 'bytes; the session held', len(held), 'bytes')
    h = H(p); await h.open()
    print('clean restart loads', len(h), 'headers; the session held', len(held)//112,
          '->', 'OK' if bytes(h.io.getbuffer())[:len(h)*112] == held else 'LOST/CHANGED')
    os.remove(p)
asyncio.run(main())
