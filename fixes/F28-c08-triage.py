# Plain reproduction of F25 (C08): an already verified Transaction object re-verified at a height without a
# header (or answered without a proof) stays is_verified=True, now recorded at that height.
#   /venv/bin/python fixes/F25-c08-triage.py [repo]
import sys, os, asyncio, struct, hashlib
os.environ['VERIF_REPO'] = sys.argv[1] if len(sys.argv) > 1 else '/repo'
sys.path.insert(0, '/verif'); import vf.bootstrap
from lbry.wallet.ledger import Ledger
from lbry.wallet.header import Headers
from lbry.wallet.database import Database
from lbry.wallet.transaction import Transaction
d = lambda b: hashlib.sha256(hashlib.sha256(b).digest()).digest()
raw = (struct.pack('<I', 1) + b'\x01' + b'\xaa' * 32 + struct.pack('<I', 0) + b'\x00' + struct.pack('<I', 0xffffffff) + b'\x01' +
       struct.pack('<Q', 1000) + b'\x19\x76\xa9\x14' + b'\x33' * 20 + b'\x88\xac' + struct.pack('<I', 0))
class H(Headers): validate_difficulty = False; genesis_hash = None; checkpoints = {}
class S:                                  # minimal stand-ins for the network streams
    def listen(self, *a): pass
class Net: on_header = S(); on_status = S()
async def main():
    h = H(':memory:'); await h.open()
    prev, hdrs = b'\0' * 32, []
    for height in range(3):               # three linked headers; the block at height 1 holds only our transaction
        hd = struct.pack('<I', 1) + prev + (d(raw) if height == 1 else b'\x07' * 32) + b'\x44' * 32 + struct.pack('<III', 1500000000 + height, 0x207fffff, height)
        hdrs.append(hd); prev = d(hd)
    assert await h.connect(0, b''.join(hdrs)) == 3
    ledger = Ledger({'db': Database(':memory:'), 'headers': h, 'network': Net()}); h.checkpoints = {}
    tx = Transaction(raw)
    await ledger.maybe_verify_transaction(tx, 1, {'block_height': 1, 'merkle': [], 'pos': 0})
    print('genuine proof at height 1      -> is_verified', tx.is_verified, 'height', tx.height)
    await ledger.maybe_verify_transaction(tx, 99, {'block_height': 99, 'merkle': [], 'pos': 0})
    print('same object, height 99 (no header) -> is_verified', tx.is_verified, 'height', tx.height, '  <- must be False')
    tx = Transaction(raw)
    await ledger.maybe_verify_transaction(tx, 1, {'block_height': 1, 'merkle': [], 'pos': 0})
    await ledger.maybe_verify_transaction(tx, 2, {'block_height': 2, 'pos': 0})
    print('same object, height 2, answer without a proof -> is_verified', tx.is_verified, 'height', tx.height, '  <- must be False')
asyncio.run(main())
