#!/bin/bash
# tools/integrate.sh <PROP> [seed-worktree]  - run quick check on /repo, seeds (a,b) from the seed worktree, then all mutations
P="$1"; SW="$2"
cd /verif
echo "=== $P quick on /repo"; /usr/bin/time -f "wall=%e cpu=%U" ./check $P --tier quick 2>&1 | tail -6
if [ -n "$SW" ]; then
  for s in a b; do
    if [ -d "$SW/SEED/$s" ]; then
      echo "=== seed $P $s"; /venv/bin/python tools/mut.py seed "$SW/SEED/$s" $P "$P-$(basename $SW | sed 's/.*-//')$s" 2>&1 | grep -E '"confirmed"|"exit"|"first"|baseline"|"applies"|apply_error'
    fi
  done
fi
echo "=== mutations $P"; /venv/bin/python tools/mut.py run $P --mutations-only 2>&1 | cut -c1-220
