#!/usr/bin/env python3
"""Edit /verif/known_findings.json (never done by a check at run time).
  tools/kf.py fixed <PROP> <commit> '<signature json>' '<what failed>'
  tools/kf.py open  <PROP> '<signature json>' '<what fails>' [replay-path]
  tools/kf.py list"""
import json, sys
P = '/verif/known_findings.json'
d = json.load(open(P))
a = sys.argv[1:]
if a[0] == 'fixed':
    prop, commit, sig, what = a[1], a[2], json.loads(a[3]), a[4]
    d.append({'property': prop, 'status': 'fixed', 'commit': commit,
              'line': f'fixed: property={prop} {commit} {what}', 'signature': sig, 'what': what})
elif a[0] == 'open':
    prop, sig, what = a[1], json.loads(a[2]), a[3]
    e = {'property': prop, 'status': 'open', 'signature': sig, 'what': what}
    if len(a) > 4:
        e['replay'] = a[4]
    d.append(e)
elif a[0] == 'list':
    for e in d:
        print(e['status'], e['property'], e.get('commit', ''), json.dumps(e['signature']), '|', e['what'][:100])
    sys.exit(0)
json.dump(d, open(P, 'w'), indent=1, ensure_ascii=False)
print(len(d), 'entries')
