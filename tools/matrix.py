#!/usr/bin/env python3
"""Renders the detection matrix (markdown) from mutations/RESULTS.json: one line per author mutation and per
independently seeded change, saying which check caught it (quick tier)."""
import json, os, collections
ROOT = os.path.dirname(os.path.dirname(os.path.abspath(__file__)))
R = json.load(open(os.path.join(ROOT, 'mutations', 'RESULTS.json')))
by = collections.defaultdict(list)
for k, v in sorted(R.items()):
    by[v.get('property', '?')].append((k, v))
print('| Prop | author mutations detected | seeded changes detected (own check) | notes |')
print('|---|---|---|---|')
for p in sorted(by):
    muts = [(k, v) for k, v in by[p] if k.startswith('mutations/')]
    seeds = [(k, v) for k, v in by[p] if k.startswith('seeded/') and '@' not in k]
    cross = [(k, v) for k, v in by[p] if '@' in k]
    md = sum(1 for _, v in muts if v.get('detected'))
    sd = sum(1 for _, v in seeds if v.get('detected'))
    notes = []
    for k, v in muts + seeds:
        if not v.get('applies', True):
            notes.append(f'{os.path.basename(k)}: does not apply to HEAD')
        elif not v.get('detected'):
            notes.append(f'{os.path.basename(k)}: MISSED')
    for k, v in cross:
        notes.append(f"{k.split('/')[1]}: {'caught' if v.get('detected') else 'MISSED'} here")
    print(f"| {p} | {md}/{len(muts)} | {sd}/{len(seeds)} | {'; '.join(notes)} |")
