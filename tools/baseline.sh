#!/bin/bash
# Runs the repository's pinned baseline (guard OFF) and checks that all 39 stable tests pass.
# usage: tools/baseline.sh [repo-dir]
REPO="${1:-/repo}"
OUT="$(mktemp -d /dev/shm/verif-baseline.XXXXXX 2>/dev/null || mktemp -d)"
trap 'rm -rf "$OUT"' EXIT
unset LBRY_SDK_VERIF PROTOCOL_BUFFERS_PYTHON_IMPLEMENTATION
cd "$REPO" || exit 2
PYTHONDONTWRITEBYTECODE=1 /venv/bin/python -m pytest -ra -q -p no:cacheprovider --timeout=900 \
    --continue-on-collection-errors --junitxml="$OUT/junit.xml" > "$OUT/log" 2>&1
tail -1 "$OUT/log"
/venv/bin/python - "$OUT/junit.xml" <<'PY'
import sys, json, xml.etree.ElementTree as ET
want = set(json.load(open('/root/.vp/BASELINE.json'))['stable_pass']) if __import__('os').path.exists('/root/.vp/BASELINE.json') else None
ok = set()
for tc in ET.parse(sys.argv[1]).getroot().iter('testcase'):
    if not any(ch.tag in ('failure', 'error', 'skipped') for ch in tc):
        ok.add(f"{tc.get('classname')}::{tc.get('name')}")
if want is None:
    print('passed', len(ok)); sys.exit(0 if len(ok) >= 39 else 1)
missing = sorted(want - ok)
print(f'baseline: {len(want & ok)}/{len(want)} stable tests pass')
for m in missing: print('  MISSING', m)
sys.exit(1 if missing else 0)
PY
