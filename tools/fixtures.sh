#!/bin/bash
# Regenerates deterministic fixtures into /verif/.cache (mined header chains etc.). Offline, idempotent.
cd "$(dirname "$(readlink -f "$0")")/.." || exit 2
export PROTOCOL_BUFFERS_PYTHON_IMPLEMENTATION=python PYTHONDONTWRITEBYTECODE=1 PYTHONHASHSEED=0
/venv/bin/python -m vf.c07fix || exit 1
