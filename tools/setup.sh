#!/bin/bash
# MANIFEST.setup_cmd: offline, from files on disk only. No build step exists (checks import lbry from
# /repo's working tree); this byte-compile-checks /verif, regenerates deterministic fixtures into
# /verif/.cache and runs an import self-test.
cd "$(dirname "$(readlink -f "$0")")/.." || exit 2
export PROTOCOL_BUFFERS_PYTHON_IMPLEMENTATION=python PYTHONDONTWRITEBYTECODE=1 PYTHONHASHSEED=0
mkdir -p .cache evidence replays
/venv/bin/python - <<'PY' || exit 1
import sys, os, glob, ast
bad = 0
for f in glob.glob('vf/*.py') + glob.glob('checks/*.py') + glob.glob('refs/*.py') + glob.glob('shims/*.py'):
    try:
        ast.parse(open(f).read(), f)
    except SyntaxError as e:
        print('syntax error', f, e); bad = 1
sys.path.insert(0, os.getcwd())
import vf.bootstrap
import lbry
print('lbry imported from', lbry.__file__)
import jsonschema
from vf.selftest import selftest
print('engine selftest ok', selftest())
sys.exit(bad)
PY
if [ -x tools/fixtures.sh ]; then tools/fixtures.sh || exit 1; fi
echo setup ok
