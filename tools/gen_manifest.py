#!/usr/bin/env python3
"""Regenerates /verif/MANIFEST.json from the table below (single source of truth) and validates it.
Only properties whose check module exists in /verif/checks are claimed; the rest go to
not_applicable with the reason 'not built yet' until their check lands."""
import os
import json
import sys

ROOT = os.path.dirname(os.path.dirname(os.path.abspath(__file__)))

# id -> (category, technique, text, note, design_ref)
CHECKS = {
    'C01': ('model_checking',
            'exhaustive interleaving enumeration (stateless DFS) of writer/loop/executor events on the real BlobFile under a virtual asyncio loop, x bounded-exhaustive writer scripts and chunkings',
            'Every interleaving of chunk writes, loop iterations and executor-job completions of 1-3 concurrent writers (all scripts: correct, each byte flipped, every truncation, over-long, unrelated; every chunking) is executed on the real blob classes; safety invariant checked in every state, liveness at quiescence.',
            'Executor job bodies are atomic at iteration boundaries; blob sizes 1-4 bytes carry the exhaustive part (the code compares lengths only through <, >, ==), 2 MiB as singles.',
            'DESIGN.md 4/C01'),
    'C02': ('exploration',
            'bounded-exhaustive input enumeration (every file size across scaled blob boundaries, every single-field tampering) against an independent AES/SHA-384 reference',
            'All file sizes over a scaled MAX_BLOB_SIZE, real 2 MiB boundary singles, all single-value tamperings of committed descriptor fields, all short file names over a hostile alphabet; compared with a reference written from the published stream format. Hex-case edits of the text-committed fields (key, IVs, blob hashes, stream hash) are demanded refusals.',
            'MAX_BLOB_SIZE scaled to 64 for the dense sweep (code uses it only through comparisons and reads); cryptography library trusted for AES.',
            'DESIGN.md 4/C02'),
    'C03': ('exploration',
            'bounded-exhaustive enumeration of UTXO multisets x output lists x strategies x fee rates on the real ledger/database under the virtual loop, judged by an independent fee/feasibility reference',
            'Every UTXO multiset up to a size bound over branch-derived amounts, every output-list shape, every coin-selection strategy: conservation, fee bounds, change placement, reservation cleanliness and per-strategy feasibility judged by brute force; multi-step histories on one ledger (confirm/reorg/re-save by sync/fee change between builds), two builds at once, multi-byte claim names and four funding-transaction layouts.',
            'Default schedule only (single build; concurrency is C14); gap 2/2 accounts; sqlite :memory: trusted.',
            'DESIGN.md 4/C03'),
    'C04': ('exploration',
            'bounded-exhaustive enumeration of transactions/claims and of every single-bit/field mutation, verified with an independent pure-Python secp256k1 + SIGHASH_ALL reference',
            'Each signed input is checked with an independent ECDSA implementation over an independently computed SIGHASH_ALL preimage; every bit flip / field swap of signed claims must stop validating.',
            'Small-scope over keys and payloads; cryptographic collisions outside scope.',
            'DESIGN.md 4/C04'),
    'C05': ('exploration',
            'bounded-exhaustive enumeration over compact-size/push/integer boundary alphabets, differential against an independent Bitcoin transaction codec',
            'Full product on reduced alphabets plus one-factor sweeps on full ones; parse(serialise) identity, byte identity with the reference encoder, txid rule for legacy and segwit (incl. the published BIP143 example); every edit history of length <= 3/4 on one Transaction and on chains of live transactions (re-entrant serialisation).',
            'No real segwit main-net transaction offline: segwit inputs are produced by the reference encoder.',
            'DESIGN.md 4/C05'),
    'C06': ('exploration',
            'bounded-exhaustive enumeration of the BIP32 derivation tree over boundary indices, Base58Check payloads and corruptions, mnemonic integers; BFS over address-chain operations; independent BIP32/secp256k1 reference',
            'Full derivation tree to depth 4/6 over six boundary indices per seed vs. an independent BIP32; all small Base58Check payloads and every single-character corruption; all mnemonic integers to 2048^2; address chains explored by BFS.',
            'Reference validated on BIP32 test vectors 1-3 at setup; hash collisions outside scope.',
            'DESIGN.md 4/C06'),
    'C07': ('model_checking',
            'explicit-state BFS over histories of connect() calls on the real Headers class with mined chains + exhaustive crash-point (every byte cut / overwrite) enumeration of the header file, against an independent LBRY PoW/retarget reference',
            'All histories of header batches (valid, forked, one field altered, valid-but-one-rule) to a depth bound, invariant = stored chain is reference-valid; every byte-offset cut and every 1-byte damage above the checkpoint reopened with the real open().',
            'Easy-difficulty subclass (max_target 2^248-1) carries the exhaustive part; real main-net headers as singles.',
            'DESIGN.md 4/C07'),
    'C08': ('exploration',
            'bounded-exhaustive enumeration of all blocks of 1..N transactions, every index and every single mutation of the genuine proof, against an independent Merkle reference',
            'Every (block size, index) genuine proof accepted with the right position; every single mutation of branch/position/length/tx/height judged by folding with an independent Merkle implementation; enforced re-verification histories on one Transaction object, a cache/reorg family and 102 schedules of a reorg relative to in-flight server replies. Lying server on the batch entry point: altered transaction bytes with the genuine proof (every byte of two transactions, cached and uncached), and the same transaction re-requested under other heights.',
            'Synthetic headers (PoW not involved in this property).',
            'DESIGN.md 4/C08'),
    'C09': ('model_checking',
            'deviation-bounded stateless DFS over server-reply/DB-job/notification orderings of the real Ledger sync on a virtual loop against a mock SPV server, x enumerated chain grammars',
            'For each chain from a small grammar and each stage, every ordering of notifications and every schedule within the deviation bound is executed on the real ledger; at quiescence history/balance/UTXO set must equal the reference computed from the chain.',
            'Mock server implements the Electrum status/history rules from the protocol documentation; sqlite trusted.',
            'DESIGN.md 4/C09'),
    'C10': ('model_checking',
            'exhaustive enumeration of TCP re-chunkings (every subset of cut points) and of a hostile-peer catalogue at every message position, on the real client/server protocols over an in-memory pipe under a virtual loop',
            'Honest pairs must complete under every re-chunking; against every catalogue misbehaviour at every position the blob must never be verified or left on disk and the connection must close within the configured timeouts; pairings D/E race an honest and a lying peer for one blob (two request_blob calls; the real BlobDownloader).',
            'In-memory pipe models ordered lossless byte streams; no flow-control pauses.',
            'DESIGN.md 4/C10'),
    'C11': ('model_checking',
            'explicit-state BFS over add/re-add/remove/probe-outcome/clock histories of the real TreeRoutingTable (scaled K), invariant + brute-force closest-K oracle in every state',
            'All operation histories to a depth bound over boundary-distance contacts; cover-exactly-once, placement, capacity, uniqueness, closest-K, eviction and admission checked in every reached state. Probe window: one complete second operation (every add / remove) while add_peer is suspended in its probe, each probe outcome.',
            'K scaled to 2/3 for the exhaustive part (code reads K only through len comparisons), real K=8 by bounded-deviation histories.',
            'DESIGN.md 4/C11'),
    'C12': ('model_checking',
            'deviation-bounded stateless DFS over datagram delivery orders/duplication/loss on networks of real Nodes over an in-memory UDP fabric under a virtual loop; enumerated join orders, announcers, hostile-node subsets',
            'Hit guarantee on loss-free honest networks of 2..40 nodes (all orders within the deviation bound for small n), expiry at 24 h, paging for every N=1..100; termination/validity with every subset of silent/garbage/hostile nodes; both lookup entry points (finder, accumulate_peers), re-announcement histories of up to three announcers on a 48 h timeline, the real BlobAnnouncer loop, announcer ports across 32768.',
            'Delay never exceeds the RPC timeout in the hit half (otherwise indistinguishable from loss).',
            'DESIGN.md 4/C12'),
    'C13': ('model_checking',
            'explicit-state BFS over encrypt/lock/unlock/decrypt/save/reload histories of the real Wallet + exhaustive crash-point enumeration (every op-log prefix x every torn write) of WalletStorage.write over a recording file system',
            'Every history to a depth bound over account-set and password alphabets; secrets restored exactly, wrong password refused without change, no plaintext secret on disk; every crash image of a save reads back as a complete version that is neither newer than the save in progress nor older than the durable low-water mark; account-set changes in every lock state; stale temp files carried across saves; a reference-AES search drives the wrong-password-valid-padding branch.',
            'POSIX ordered-journal crash model (rename atomic, unsynced data may persist as any prefix).',
            'DESIGN.md 4/C13'),
    'C14': ('model_checking',
            'exhaustive schedule enumeration (stateless DFS over DB-job completion order and task start order) of N concurrent Transaction.create on the real ledger/database under a virtual loop',
            'All interleavings of 2-4 concurrent builds (bounded deviation for more), every strategy: held inputs pairwise disjoint in every state, reservation flags match holders, everything released at the end; cancellation, late arrivals, multi-round builds, a concurrent sync task re-saving funding transactions, two funding accounts, confirmation states and funding layouts are in the alphabet.',
            'Iteration-granular atomicity of executor jobs; sqlite trusted.',
            'DESIGN.md 4/C14'),
    'C15': ('exploration',
            'bounded-exhaustive enumeration of templates x boundary values and of all short byte strings over the template opcode alphabet, against an independent script tokenizer/classifier',
            'Every template with every push-boundary length round-trips with minimal pushes; every short opcode string and every 1-byte edit of generated scripts is classified exactly as the reference opcode-pattern classifier says, whatever was asked of the same or another object before (query histories, regenerate/re-parse stability).',
            'Multisig redeem scripts excluded as the property says.',
            'DESIGN.md 4/C15'),
    'C16': ('exploration',
            'bounded-exhaustive enumeration of claim field assignments (all enum values, boundary integers, repeated items) and of URLs generated from the grammar plus single-defect negatives, against plain protobuf parsing',
            'Round trip through bytes, accessor values vs. what was set and vs. a plain protobuf parse; legacy fixtures; URL parse/print identity and rejection of every forbidden string; edit-after-parse histories, aliasing across live objects, hostile legacy documents.',
            'Pure-Python protobuf implementation.',
            'DESIGN.md 4/C16'),
    'C17': ('exploration',
            'bounded-exhaustive enumeration of protocol messages (codec) and of every truncation / 1-3 byte mutation / nesting bomb of valid datagrams fed to the real KademliaProtocol handler, against an independent strict bencode + schema classifier',
            'Codec round trip and independent decode of every message shape; for every malformed datagram the handler must not raise, must record a failure, and must leave routing table and data store unchanged; sequences of 2-4 datagrams to one live protocol judged per datagram against the state before it; UTF-8/size-bound families.',
            'Fake transport; mutation alphabet of 9 structural bytes.',
            'DESIGN.md 4/C17'),
    'C18': ('model_checking',
            'explicit-state BFS over blob completion/publish/delete/behind-the-back/restart histories with a crash at every executor-job boundary, on the real BlobManager + SQLiteStorage (file db) under a virtual loop',
            'Every history to a depth bound, with a crash injected at every choice point of the last operation; after each restart completed set, files and database rows must agree as the property states; save_blobs configurations, same-object restarts, unfinished downloads, oversized and symlinked files. 499..1003 unrecorded blob files at one startup (the 500-row batch flush).',
            'sqlite own crash consistency trusted; crash = remaining executor jobs never run.',
            'DESIGN.md 4/C18'),
    'C19': ('exploration',
            'bounded-exhaustive enumeration of blob mixes x limits x repeated passes on the real DiskSpaceManager/SQLiteStorage/BlobManager',
            'Every mix of own/downloaded/network blobs over a size alphabet, every limit relative to usage, up to three passes: nothing deleted within limits, own blobs never deleted, removal order and whole-megabyte minimality; pending rows, bookkeeping histories before cleanup, the periodic cleaning_loop entry point, real publications, sizes separating 10^6 from 2^20.',
            'Sparse files stand in for blob contents.',
            'DESIGN.md 4/C19'),
    'C20': ('exploration',
            'bounded-exhaustive input enumeration (dense integer windows at every boundary, all 10^8 fractional parts for 7 whole parts, all short strings over the grammar alphabet) against an integer/decimal reference',
            'dewies_to_lbc is the exact decimal and round-trips through lbc_to_dewies for every enumerated integer; a string is accepted iff it is digits{1,10}.digits{1,8} and then maps to the exact integer.',
            'ASCII alphabet; trailing newline / non-ASCII digits tallied only.',
            'DESIGN.md 4/C20'),
}


def main():
    ready = set(json.load(open(os.path.join(ROOT, 'tools', 'ready.json'))))   # reviewed + silent on the tree
    have = sorted(p for p in CHECKS if p in ready and os.path.exists(os.path.join(ROOT, 'checks', p.lower() + '.py')))
    disabled = {}
    dpath = os.path.join(ROOT, 'tools', 'disabled.json')
    if os.path.exists(dpath):
        disabled = json.load(open(dpath))
    checks = []
    for p in have:
        if p in disabled:
            continue
        cat, tech, text, note, ref = CHECKS[p]
        checks.append({
            'property_id': p,
            'quick_cmd': f'./check {p} --tier quick',
            'thorough_cmd': f'./check {p} --tier thorough',
            'evidence_file': f'/verif/evidence/{p}.json',
            'replay_cmd_template': f'./check {p} --replay {{path}}',
            'engine': 'vf',
            'level_claimed': {'category': cat, 'text': text, 'design_ref': ref},
            'level_note': note,
            'technique': tech,
        })
    na = [{'property_id': p, 'reason': disabled.get(p, 'check not built yet in this session (planned; see DESIGN.md section 4) - no claim is made until it exists')}
          for p in sorted(CHECKS) if p not in have or p in disabled]
    man = {
        'version': 1,
        'setup_cmd': 'tools/setup.sh',
        'hooks': {
            'guard': 'LBRY_SDK_VERIF',
            'enable': 'none needed: checks import lbry from /repo working tree; every seam (event loop, open/os, time, random, constants) is injected from outside. The check wrapper exports LBRY_SDK_VERIF=1 for form only.',
            'baseline_off_cmd': 'tools/baseline.sh /repo',
            'source_commits': [],
            'add_only': True,
        },
        'engines': [
            {'name': 'vf', 'path': '/verif/vf', 'serves_properties': have,
             'kind_free_text': 'hand-written explicit-state / stateless model checker for Python: virtual asyncio loop (vloop), deviation-bounded DFS over choice points, BFS over operation histories, bounded-exhaustive product enumeration, crash-point enumerator over a recording file system; all transitions call the real lbry code'},
        ],
        'checks': checks,
        'not_applicable': na,
        'notes': 'All checks execute the real implementation from /repo (no separate abstract model; TLC/Spin/Apalache unused, see DESIGN.md section 0). known_findings.json lists open findings (F7, F12, F20, F22, F24) and a fixed: line per repaired defect (30 fix: commits in /repo); DESIGN.md section 8 is the build record; mutations/ (author mutations, controls/) and seeded/ (150 independently produced changes, rounds r1-r4) are re-run by tools/mut.py into mutations/RESULTS.json.',
    }
    if not na:
        del man['not_applicable']
    path = os.path.join(ROOT, 'MANIFEST.json')
    with open(path, 'w') as f:
        json.dump(man, f, indent=1)
    try:
        import jsonschema
        jsonschema.validate(man, json.load(open('/root/.vp/MANIFEST.schema.json')))
        print('MANIFEST.json valid;', len(checks), 'checks claimed;', len(na), 'not yet claimed')
    except ImportError:
        print('written (jsonschema unavailable)')


if __name__ == '__main__':
    sys.exit(main())
