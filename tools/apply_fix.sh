#!/bin/bash
# tools/apply_fix.sh <fix.diff> <fix.msg>  - applies a reviewed fix to /repo as one unguarded "fix:" commit
# after confirming the pinned suite still passes 39/39 with it.
set -e
D="$(readlink -f "$1")"; M="$(readlink -f "$2")"
[ -z "$(git -C /repo status --porcelain --untracked-files=no)" ] || { echo "/repo not clean"; exit 1; }
git -C /repo apply --whitespace=nowarn "$D"
if ! /verif/tools/baseline.sh /repo; then git -C /repo checkout -- .; echo "baseline failed, reverted"; exit 1; fi
head -1 "$M" | grep -q '^fix:' || { git -C /repo checkout -- .; echo "message must start with fix:"; exit 1; }
git -C /repo commit -q -a -F "$M"
git -C /repo log --oneline | head -1
