#!/bin/bash
# tools/seedbatch.sh <round> <PROP>...  - verify seeds a,b of /tmp/seed-<PROP>-<round> against the check; log summary lines
R="$1"; shift
cd /verif
for p in "$@"; do for s in a b; do
  d=/tmp/seed-$p-$R/SEED/$s
  [ -d "$d" ] || { echo "$p-$R$s: no seed dir"; continue; }
  out=$(/venv/bin/python tools/mut.py seed "$d" $p "$p-$R$s" 2>&1)
  conf=$(echo "$out" | grep -c '"confirmed": true')
  chk=$(echo "$out" | python3 -c "import sys,json,re; t=sys.stdin.read(); i=t.find('{'); d=json.loads(t[i:]); c=d.get('check_quick',{}); print('applies=%s baseline_ok=%s demo0=%s demo1=%s check_exit=%s :: %s'%(d.get('applies'),d.get('baseline_ok'),d.get('demo_unchanged',{}).get('exit'),d.get('demo_patched',{}).get('exit'),c.get('exit'),c.get('first','')[:160]))" 2>/dev/null)
  echo "$p-$R$s: confirmed=$conf $chk"
done; done
