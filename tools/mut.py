#!/usr/bin/env python3
"""Detection bookkeeping.

  tools/mut.py seed <seed-dir> <PROP> <name>   verify an independently produced breaking change and file it under
                                                /verif/seeded/<name>/ (patch.diff, demo.py, meta.json)
  tools/mut.py run [PROP ...] [--tier quick] [--seeded-only|--mutations-only]
                                                apply every /verif/mutations/<PROP>/*.diff and /verif/seeded/*/patch.diff of
                                                the property to a scratch worktree of /repo HEAD, run the check against it
                                                (VERIF_REPO), record detected / missed in /verif/mutations/RESULTS.json

Scratch worktrees live under /tmp and are removed after use; evidence and replays of mutant runs go
to a scratch directory so the committed evidence is never overwritten by a mutant run."""
import os, sys, json, glob, shutil, subprocess, tempfile, time

ROOT = os.path.dirname(os.path.dirname(os.path.abspath(__file__)))
REPO = '/repo'


def sh(cmd, **kw):
    return subprocess.run(cmd, shell=isinstance(cmd, str), capture_output=True, text=True, **kw)


class Worktree:
    def __enter__(self):
        self.dir = tempfile.mkdtemp(prefix='verif-wt-', dir='/tmp')
        os.rmdir(self.dir)
        r = sh(['git', '-C', REPO, 'worktree', 'add', '--detach', self.dir, 'HEAD'])
        if r.returncode:
            raise RuntimeError(r.stderr)
        return self.dir

    def __exit__(self, *a):
        sh(['git', '-C', REPO, 'worktree', 'remove', '--force', self.dir])
        shutil.rmtree(self.dir, ignore_errors=True)


def run_check(prop, wt, tier='quick', timeout=3600):
    scratch = tempfile.mkdtemp(prefix='verif-mutrun-', dir='/dev/shm' if os.path.isdir('/dev/shm') else '/tmp')
    env = dict(os.environ, VERIF_REPO=wt, VERIF_EVIDENCE_DIR=scratch, VERIF_REPLAY_DIR=scratch)
    t0 = time.time()
    try:
        r = subprocess.run([os.path.join(ROOT, 'check'), prop, '--tier', tier], capture_output=True, text=True,
                           env=env, timeout=timeout)
        out, code = r.stdout + r.stderr, r.returncode
    except subprocess.TimeoutExpired as e:
        out, code = 'TIMEOUT', 124
    shutil.rmtree(scratch, ignore_errors=True)
    viol = [l for l in out.splitlines() if l.startswith('VIOLATION')]
    what = [l.strip() for l in out.splitlines() if l.strip().startswith('what:')]
    return {'exit': code, 'violations': len(viol), 'first': (what[0][:300] if what else ''),
            'wall_s': round(time.time() - t0, 1), 'tail': out[-400:] if code not in (0, 1) else ''}


def apply(wt, diff):
    r = sh(['git', '-C', wt, 'apply', '--whitespace=nowarn', os.path.abspath(diff)])
    return r.returncode == 0, r.stderr


def cmd_seed(seed_dir, prop, name, tier='quick'):
    patch = os.path.join(seed_dir, 'patch.diff')
    demo = os.path.join(seed_dir, 'demo.py')
    meta = json.load(open(os.path.join(seed_dir, 'meta.json')))
    report = {'property': prop, 'name': name}
    env = dict(os.environ, PYTHONDONTWRITEBYTECODE='1', PROTOCOL_BUFFERS_PYTHON_IMPLEMENTATION='python')
    with Worktree() as wt:
        r0 = subprocess.run(['/venv/bin/python', demo, wt], capture_output=True, text=True, env=env, timeout=1800)
        report['demo_unchanged'] = {'exit': r0.returncode, 'tail': (r0.stdout + r0.stderr)[-300:]}
        ok, err = apply(wt, patch)
        report['applies'] = ok
        if not ok:
            report['apply_error'] = err[-500:]
            print(json.dumps(report, indent=1)); return report
        b = sh([os.path.join(ROOT, 'tools', 'baseline.sh'), wt])
        report['baseline'] = b.stdout.strip().splitlines()[-1] if b.stdout.strip() else b.stderr[-200:]
        report['baseline_ok'] = b.returncode == 0
        r1 = subprocess.run(['/venv/bin/python', demo, wt], capture_output=True, text=True, env=env, timeout=1800)
        report['demo_patched'] = {'exit': r1.returncode, 'tail': (r1.stdout + r1.stderr)[-300:]}
        report['confirmed'] = bool(ok and report['baseline_ok'] and r0.returncode == 0 and r1.returncode != 0)
        report['check_' + tier] = run_check(prop, wt, tier)
    if report['confirmed']:
        dst = os.path.join(ROOT, 'seeded', name)
        os.makedirs(dst, exist_ok=True)
        shutil.copy(patch, os.path.join(dst, 'patch.diff'))
        shutil.copy(demo, os.path.join(dst, 'demo.py'))
        meta_out = {'property': prop, 'breaks': meta.get('summary'), 'needs': meta.get('needs'),
                    'author_ran': meta.get('ran'), 'confirmed_by_coordinator': {
                        'demo_on_unchanged_tree': report['demo_unchanged'], 'baseline_with_patch': report['baseline'],
                        'demo_with_patch': report['demo_patched']},
                    'repo_head': sh(['git', '-C', REPO, 'rev-parse', '--short', 'HEAD']).stdout.strip()}
        json.dump(meta_out, open(os.path.join(dst, 'meta.json'), 'w'), indent=1)
    print(json.dumps(report, indent=1))
    return report


def prop_of_seed(d):
    try:
        return json.load(open(os.path.join(d, 'meta.json')))['property']
    except Exception:
        return None


def also_of_seed(d):
    try:
        return json.load(open(os.path.join(d, 'meta.json'))).get('also_check', [])
    except Exception:
        return []


def cmd_run(props, tier='quick', which='all'):
    respath = os.path.join(ROOT, 'mutations', 'RESULTS.json')
    results = json.load(open(respath)) if os.path.exists(respath) else {}
    targets = []
    for p in props:
        if which in ('all', 'mutations'):
            for d in sorted(glob.glob(os.path.join(ROOT, 'mutations', p, '*.diff'))):
                targets.append((p, 'mutations/%s/%s' % (p, os.path.basename(d)), d))
        if which in ('all', 'seeded'):
            for sd in sorted(glob.glob(os.path.join(ROOT, 'seeded', '*'))):
                if prop_of_seed(sd) == p:
                    targets.append((p, 'seeded/%s' % os.path.basename(sd), os.path.join(sd, 'patch.diff')))
                elif p in also_of_seed(sd):     # a change filed under one property that another check must catch
                    targets.append((p, 'seeded/%s@%s' % (os.path.basename(sd), p), os.path.join(sd, 'patch.diff')))
    head = sh(['git', '-C', REPO, 'rev-parse', '--short', 'HEAD']).stdout.strip()
    import threading, concurrent.futures
    lock = threading.Lock()
    par = int(os.environ.get('MUT_PARALLEL', '1'))
    if par > 1:
        os.environ['VERIF_JOBS'] = str(max(2, 16 // par))

    def one(t):
        p, key, diff = t
        with Worktree() as wt:
            ok, err = apply(wt, diff)
            if not ok:
                r = {'property': p, 'applies': False, 'error': err[-300:], 'repo_head': head}
                line = f'{key}: DOES NOT APPLY'
            else:
                r = run_check(p, wt, tier, timeout=int(os.environ.get('MUT_TIMEOUT', '3600')))
                r.update(property=p, applies=True, tier=tier, repo_head=head, detected=(r['exit'] == 1))
                line = f"{key}: {'DETECTED' if r['detected'] else 'MISSED (exit %s)' % r['exit']}  {r['wall_s']}s  {r['first'][:140]}"
        with lock:
            cur = json.load(open(respath)) if os.path.exists(respath) else {}
            cur[key] = r
            json.dump(cur, open(respath, 'w'), indent=1, sort_keys=True)
            results[key] = r
            print(line, flush=True)

    with concurrent.futures.ThreadPoolExecutor(par) as ex:
        list(ex.map(one, targets))
    return results


if __name__ == '__main__':
    a = sys.argv[1:]
    tier = 'quick'
    if '--tier' in a:
        i = a.index('--tier'); tier = a[i + 1]; del a[i:i + 2]
    which = 'all'
    if '--seeded-only' in a: a.remove('--seeded-only'); which = 'seeded'
    if '--mutations-only' in a: a.remove('--mutations-only'); which = 'mutations'
    if a[0] == 'seed':
        cmd_seed(a[1], a[2].upper(), a[3], tier)
    elif a[0] == 'run':
        props = [x.upper() for x in a[1:]] or sorted({os.path.basename(d) for d in glob.glob(os.path.join(ROOT, 'mutations', 'C*'))})
        cmd_run(props, tier, which)
