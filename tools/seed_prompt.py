#!/usr/bin/env python3
"""Prints the prompt for an independent 'seeded breakage' sub-agent for one property and creates its
scratch worktree. The agent sees only the property text and its worktree - nothing from /verif."""
import json, sys, os, subprocess
prop, tag = sys.argv[1], sys.argv[2]
p = next(json.loads(l) for l in open('/verif/properties.jsonl') if json.loads(l)['id'] == prop)
wt = f'/tmp/seed-{prop}-{tag}'
if not os.path.exists(wt):
    subprocess.run(['git', '-C', '/repo', 'worktree', 'add', '--detach', wt, 'HEAD'], check=True, capture_output=True)
extra = sys.argv[3] if len(sys.argv) > 3 else ''
print(f"""You are helping to evaluate a verification effort for the open-source lbry-sdk (LBRY SDK: Python asyncio daemon with a Kademlia DHT, blob-exchange protocol, SPV wallet and protobuf claim schema). I need realistic *property-breaking code changes* to test whether verification machinery (which you cannot see and must not look for) detects them.

Your private scratch git worktree of the repository is {wt} (work ONLY there; never touch /repo or /verif, and do not read anything under /verif). How to run lbry code and the pinned test suite in this sandbox is explained in /tmp/seedenv/README.md - read it first.

The property that must be broken:

  id: {p['id']} - {p['title']}
  statement: {p['statement']}
  holds for: {p['quantifier']['text']}
  code that is meant to make it hold lives in: {', '.join(p['anchors']['files'])}

Task: produce **two independent** changes to lbry-sdk source (different mechanisms, each a separate small diff against the worktree's HEAD, touching only files under lbry/) such that, for each change on its own:
  1. the code still imports/compiles and the pinned test suite still passes (`/tmp/seedenv/baseline.sh {wt}` prints 39/39 with the change applied);
  2. the property above is genuinely violated - an observable behaviour contradicts the statement for some input / schedule / crash point / history inside the stated quantifier domain;
  3. the violation needs something **specific** to manifest: a particular interleaving, a crash or fault at a particular point, a multi-step sequence of operations, an unusual or boundary input, or two cooperating code sites that each look fine alone. Ordinary use (the happy path with typical inputs) must keep working - a change that breaks everything at once is useless. Think of plausible maintenance mistakes: an off-by-one at a boundary, a check moved after the action it guards, a lock or flag dropped on one path, a cache not invalidated, a comparison weakened, an early return that skips cleanup, shared state hoisted out of a loop.
  4. you provide a demonstration: a small standalone Python program `demo.py` (no test framework needed; takes the tree path as argv[1]; exits 0 and prints PASS when the property holds in its scenario, exits 1 and prints FAIL with a short explanation when it is violated) that FAILS with the change and PASSES on the unchanged tree. Run it both ways yourself and record the outputs.
{extra}
Deliver, inside the worktree, a directory `SEED/` with sub-directories `a/` and `b/`, each containing: `patch.diff` (output of `git diff` for that change alone, applicable with `git apply` on a clean HEAD), `demo.py`, and `meta.json` with keys: "property" ("{prop}"), "summary" (what was changed), "needs" (what specific input/interleaving/fault/sequence is needed for the violation to manifest and why ordinary use does not expose it), "ran" (the exact commands you ran and their observed results: baseline with patch, demo with patch, demo without patch). Before finishing, restore the worktree's tracked files to HEAD (`git -C {wt} checkout -- .`) so that only the untracked SEED/ directory remains. Do not commit. In your final message summarise both changes in a few lines each.""")
