"""C04 - input signatures verify under SIGHASH_ALL; channel signatures bind the claim.

Bounded-exhaustive input enumeration on the real lbry code, judged by independent references:

  half 1 (inputs)   real Transaction.sign() through a real Ledger / Database(':memory:') / Wallet with real
                    Accounts; every signed transaction is re-read from its wire bytes by refs/btc_tx and every
                    input is judged by refs/sighash + refs/secp256k1 (script shape, hash160(pubkey) == hash the
                    spent output pays to, strict DER, ECDSA over the independently built SIGHASH_ALL digest).
  half 2 (channels) real Output.sign()/is_signed_by(); the genuine object must validate (also after a wire round
                    trip and, independently, with the reference ECDSA over the documented digest); every
                    single-bit mutation of signature / signing channel id / message / first input, the
                    placeholder signature, every other channel and every bit flip of the channel's public key
                    must be refused (False or exception).  Legacy fixtures from upstream's tests likewise.

Nothing is sampled: every alphabet below is enumerated completely; `random` is not used.
"""
import os
import json
import hashlib
import itertools

PROPERTY = 'C04'
LEVEL = 'exploration'
HASHSEEDS = {'quick': 1, 'thorough': 1}

ROOT = os.path.dirname(os.path.dirname(os.path.abspath(__file__)))
CACHE_DIR = os.path.join(ROOT, '.cache', 'c04')
KEY_CACHE = os.path.join(CACHE_DIR, 'keys.json')
FIXTURES = os.path.join(ROOT, 'fixtures', 'c04', 'legacy.json')
KEY_CACHE_VERSION = 3

CENT = 1_000_000
COIN = 100_000_000
CLAIM_ID = 'ab' * 20
CLAIM_ID_2 = '0123456789abcdef0123456789abcdef01234567'
FOREIGN_HASH = b'\x07' * 20

# ---------------------------------------------------------------------------------------------------------
# alphabets
# ---------------------------------------------------------------------------------------------------------

PHRASES = {
    # the phrase upstream's own signing test uses (its pinned signature is one of the fixtures)
    'P0': 'carbon smart garage balance margin twelve chest sword toast envelope bottom stomach absent',
    'P1': 'abandon abandon abandon abandon abandon abandon abandon abandon abandon abandon abandon about',
    'P2': 'legal winner thank year wave sausage worth useful legal winner thank yellow',
    'P3': 'letter advice cage absurd amount doctor acoustic avoid letter advice cage above',
    'P4': 'zoo zoo zoo zoo zoo zoo zoo zoo zoo zoo zoo wrong',
}
SINGLE_PHRASE_FMT = 'verif c04 single address account {}'     # counter found by search (leading-zero pubkey)

# account id -> (phrase id | 'SINGLE', address generator, how the account is restored)
ACCOUNTS = {
    'A0': ('P0', 'hd', 'seed'),
    'A1': ('P1', 'hd', 'seed'),
    'A2': ('SINGLE', 'single', 'seed'),        # single-address account whose only pubkey has a leading zero byte
    'A3': ('P2', 'hd', 'xprv'),                # restored from the extended private key string only
    'A4': ('P3', 'hd', 'seed'),
    'A5': ('P4', 'single', 'seed'),
}
WALLETS = {
    'W1': ['A0', 'A2'],
    'W2': ['A1', 'A3'],
    'W3': ['A4', 'A5'],
    'W4': ['A0', 'A1', 'A2', 'A3', 'A4', 'A5'],
}

SPENT_KINDS = ['p2pkh', 'claim', 'claim_big', 'update', 'support', 'support_data']
VERSIONS = {'quick': [1, 2], 'thorough': [1, 2, 0, 0xFFFFFFFF]}
LOCKTIMES = {'quick': [0, 0xFFFFFFFF], 'thorough': [0, 0xFFFFFFFF, 1, 499_999_999, 500_000_000]}
SEQUENCES = ['max', 'zero', 'mixed']
OUTPUT_LISTS = ['all', 'none', 'p2pkh', 'p2sh', 'claim', 'claim_big', 'update', 'support', 'support_data', 'purchase',
                'p2pk', 'segwit', 'claim_p2sh', 'unknown', 'two', 'amounts', 'many252', 'many253', 'many256', 'many257']
SCRIPT_LEN_BOUNDARIES = {'quick': [252, 253], 'thorough': [75 + 33, 252, 253, 254, 65535, 65536]}

SIGNED_OBJECTS = ['stream_small', 'stream_4k', 'empty_claim', 'channel', 'repost', 'collection', 'update_stream',
                  'support_comment', 'support_empty']
# channel id -> (key source, script kind)
CHANNELS = {
    'c_hd0': (('hd', 'P0', 0), 'claim'),
    'c_publz': (('secret', 'PUBLZ'), 'claim'),            # public key x coordinate starts with a zero byte
    'c_hd1': (('hd', 'P1', 1), 'update'),                 # channel that is itself an update (id in the script)
    'c_one': (('secret', 1), 'claim'),
    'c_nm1': (('secret', 'N-1'), 'claim'),
    'c_privlz': (('secret', (1 << 240) + 5), 'claim'),    # private key with two leading zero bytes
}
CHANNEL_TWIN = 'c_hd0_twin'       # same key as c_hd0, different claim id (interpretation-only observation)


# ---------------------------------------------------------------------------------------------------------
# deterministic key search (reference only; cached in /verif/.cache/c04/keys.json)
# ---------------------------------------------------------------------------------------------------------

def ref_seed(phrase):
    """What the wallet documents: PBKDF2-HMAC-SHA512(mnemonic, 'lbryum' + passphrase-less salt, 2048, 64)."""
    return hashlib.pbkdf2_hmac('sha512', phrase.encode(), b'lbryum', 2048, 64)


def _search_keys():
    from refs import bip32, secp256k1 as ec
    out = {'version': KEY_CACHE_VERSION, 'hd': {}, 'single_counter': None, 'channel_secret_publz': None}
    for pid, phrase in PHRASES.items():
        chain0 = bip32.master(ref_seed(phrase)).ckd_priv(0)
        n_pub = n_priv = None
        for n in range(4096):
            ch = chain0.ckd_priv(n)
            if n_pub is None and ch.pubkey[1] == 0:
                n_pub = n
            if n_priv is None and ch.secret < (1 << 248):
                n_priv = n
            if n_pub is not None and n_priv is not None:
                break
        out['hd'][pid] = {'n_pub_lz': n_pub, 'n_priv_lz': n_priv}
    for k in range(100000):
        m = bip32.master(ref_seed(SINGLE_PHRASE_FMT.format(k)))
        if m.pubkey[1] == 0:
            out['single_counter'] = k
            break
    for k in range(2, 100000):
        if ec.pubkey_of(k)[1] == 0:
            out['channel_secret_publz'] = k
            break
    return out


_KEYS = None


def key_cache():
    global _KEYS
    if _KEYS is not None:
        return _KEYS
    try:
        with open(KEY_CACHE) as f:
            d = json.load(f)
        if d.get('version') == KEY_CACHE_VERSION and set(d['hd']) == set(PHRASES):
            _KEYS = d
            return d
    except (OSError, ValueError, KeyError):
        pass
    d = _search_keys()
    os.makedirs(CACHE_DIR, exist_ok=True)
    tmp = f'{KEY_CACHE}.{os.getpid()}.tmp'
    with open(tmp, 'w') as f:
        json.dump(d, f, indent=1)
    os.replace(tmp, KEY_CACHE)
    _KEYS = d
    return d


def account_phrase(aid):
    pid = ACCOUNTS[aid][0]
    if pid == 'SINGLE':
        return SINGLE_PHRASE_FMT.format(key_cache()['single_counter'])
    return PHRASES[pid]


# ---------------------------------------------------------------------------------------------------------
# harness: a real ledger + wallet + accounts on the virtual loop
# ---------------------------------------------------------------------------------------------------------

class _FakeNetwork:
    is_connected = False

    def __init__(self):
        from lbry.wallet.stream import StreamController
        self.on_header = StreamController().stream
        self.on_status = StreamController().stream


class SignH:
    """slots: list of dicts {account (index), chain, n, why, address, ref_pubkey} - the keys transactions may
    be asked to spend from.  Addresses are the ones the real account generated (read back from its own
    database); the reference derivation is used to pick *which* indices are interesting and to cross-check."""

    def __init__(self, wallet_id, res=None):
        from vf.vloop import VLoop
        from lbry.wallet import Ledger, Database, Headers, Wallet, Account
        from refs import bip32
        self.wallet_id = wallet_id
        self.loop = VLoop().activate()
        self.closed = False
        try:
            self.ledger = Ledger({'db': Database(':memory:'), 'headers': Headers(':memory:'),
                                  'network': _FakeNetwork()})
            self.loop.run(self.ledger.db.open())
            self.wallet = Wallet()
            self.accounts = []
            self.slots = []
            keys = key_cache()
            for ai, aid in enumerate(WALLETS[wallet_id]):
                pid, gen, how = ACCOUNTS[aid]
                phrase = account_phrase(aid)
                master = bip32.master(ref_seed(phrase))
                if gen == 'hd':
                    info = keys['hd'][pid]
                    wanted = [('recv0', 0, 0), ('change0', 1, 0), ('recv1', 0, 1)]
                    if info['n_pub_lz'] is not None:
                        wanted.append(('pub_lz', 0, info['n_pub_lz']))
                    if info['n_priv_lz'] is not None:
                        wanted.append(('priv_lz', 0, info['n_priv_lz']))
                    gap = max(n for _, c, n in wanted if c == 0) + 1
                    generator = {'name': 'deterministic-chain',
                                 'receiving': {'gap': gap, 'maximum_uses_per_address': 1},
                                 'change': {'gap': 2, 'maximum_uses_per_address': 1}}
                else:
                    wanted = [('single', 0, 0)]
                    generator = {'name': 'single-address'}
                d = {'address_generator': generator, 'name': aid}
                if how == 'seed':
                    d['seed'] = phrase
                else:
                    d['private_key'] = master.xprv()
                account = Account.from_dict(self.ledger, self.wallet, d)
                self.loop.run(account.ensure_address_gap())
                self.accounts.append(account)
                recv = self.loop.run(account.receiving.get_addresses(order_by='n asc'))
                chng = self.loop.run(account.change.get_addresses(order_by='n asc'))
                for why, chain, n in wanted:
                    if gen == 'hd':
                        node = master.derive([chain, n])
                        address = (recv if chain == 0 else chng)[n]
                    else:
                        node = master
                        address = recv[0]
                    ref_address = bip32.address(node.pubkey, b'\x55')
                    if address != ref_address and res is not None:
                        res.tally('wallet_address_differs_from_reference_derivation(C06_territory)')
                    self.slots.append({'account': ai, 'aid': aid, 'chain': chain, 'n': n, 'why': why,
                                       'address': address, 'ref_pubkey': node.pubkey,
                                       'priv_lz': node.secret < (1 << 248)})
        except BaseException:
            self.close()
            raise

    def run(self, coro):
        return self.loop.run(coro)

    def close(self):
        if self.closed:
            return
        self.closed = True
        try:
            db = getattr(getattr(self, 'ledger', None), 'db', None)
            if db is not None and db.db is not None:
                self.loop.run(db.close())
        except Exception:   # noqa - teardown only
            pass
        finally:
            self.loop.shutdown()

    def __enter__(self):
        return self

    def __exit__(self, *a):
        self.close()


# ---------------------------------------------------------------------------------------------------------
# building blocks (inputs to the code under test; made with lbry's own constructors or from raw bytes)
# ---------------------------------------------------------------------------------------------------------

def _claim(kind, ctr=0):
    from lbry.schema.claim import Claim
    c = Claim()
    if kind == 'small':
        c.stream.title = f't{ctr}'
    elif kind == 'big':
        c.stream.title = f'big{ctr}'
        c.stream.description = ''.join(chr(97 + (i * 7 + ctr) % 26) for i in range(4096))
    return c


def _support(comment):
    from lbry.schema.support import Support
    s = Support()
    if comment:
        s.comment = comment
    return s


def _funding_tx(outputs, serial):
    """A confirmed-looking transaction by a third party that carries `outputs`."""
    from lbry.wallet import Transaction, Input, Output
    fake = Output.pay_pubkey_hash(sum(o.amount for o in outputs) + 1000 + serial, FOREIGN_HASH)
    Transaction(height=1).add_outputs([fake])
    return Transaction(height=5).add_inputs([Input.spend(fake)]).add_outputs(outputs)


def _claim_script_of_length(length, pkh):
    """claim_name+pay_pubkey_hash script whose total length is exactly `length` (raw payload bytes)."""
    from lbry.wallet.script import OutputScript
    for plen in range(max(1, length - 48), length):
        s = OutputScript(template=OutputScript.CLAIM_NAME_PUBKEY,
                         values={'claim_name': b'n', 'claim': bytes((i * 13) % 251 for i in range(plen)),
                                 'pubkey_hash': pkh})
        if len(s.source) == length:
            return s
    raise AssertionError(f'no claim script of length {length}')


def make_spent(kind, pkh, amount, serial):
    """An output of the given kind paying to pkh."""
    from lbry.wallet import Output
    if kind == 'p2pkh':
        return Output.pay_pubkey_hash(amount, pkh)
    if kind == 'claim':
        return Output.pay_claim_name_pubkey_hash(amount, f'name{serial}', _claim('small', serial), pkh)
    if kind == 'claim_big':
        return Output.pay_claim_name_pubkey_hash(amount, 'big', _claim('big', serial), pkh)
    if kind == 'update':
        return Output.pay_update_claim_pubkey_hash(amount, 'upd', CLAIM_ID, _claim('small', serial), pkh)
    if kind == 'support':
        return Output.pay_support_pubkey_hash(amount, 'sup', CLAIM_ID, pkh)
    if kind == 'support_data':
        return Output.pay_support_data_pubkey_hash(amount, 'sup', CLAIM_ID, _support(f'c{serial}'), pkh)
    if kind.startswith('claim_len:'):
        return Output(amount, _claim_script_of_length(int(kind.split(':')[1]), pkh))
    raise ValueError(kind)


def make_outputs(name, k=0):
    """Requested outputs of the spending transaction (third-party scripts are given as raw bytes)."""
    from lbry.wallet import Output
    from lbry.wallet.script import OutputScript
    from lbry.schema.purchase import Purchase
    h1, h2 = bytes(range(20)), bytes(range(100, 120))

    def raw(amount, script):
        return Output(amount, OutputScript(source=bytes(script)))

    single = {
        'p2pkh': lambda: Output.pay_pubkey_hash(COIN + k, h1),
        'p2sh': lambda: Output.pay_script_hash(CENT, h2),
        'claim': lambda: Output.pay_claim_name_pubkey_hash(CENT, 'out-claim', _claim('small', 1), h1),
        'claim_big': lambda: Output.pay_claim_name_pubkey_hash(CENT, 'out-big', _claim('big', 2), h1),
        'update': lambda: Output.pay_update_claim_pubkey_hash(CENT, 'out-upd', CLAIM_ID_2, _claim('small', 3), h2),
        'support': lambda: Output.pay_support_pubkey_hash(CENT, 'out-sup', CLAIM_ID_2, h1),
        'support_data': lambda: Output.pay_support_data_pubkey_hash(CENT, 'out-sup', CLAIM_ID_2, _support('hi'), h2),
        'purchase': lambda: Output.add_purchase_data(Purchase(CLAIM_ID_2)),
        'p2pk': lambda: raw(CENT, b'\x21\x02' + bytes(range(32)) + b'\xac'),
        'segwit': lambda: raw(CENT, b'\x00\x14' + h1),
        'claim_p2sh': lambda: raw(CENT, b'\xb5\x01n\x02\x00\x01\x6d\x75\xa9\x14' + h2 + b'\x87'),
        'unknown': lambda: raw(CENT, b'\x51\x52\x93\x53\x87'),
    }
    if name == 'none':
        return []
    if name in single:
        return [single[name]()]
    if name == 'all':
        return [single[n]() for n in ('p2pkh', 'p2sh', 'claim', 'claim_big', 'update', 'support', 'support_data',
                                      'purchase', 'p2pk', 'segwit', 'claim_p2sh', 'unknown')]
    if name == 'two':
        return [single['p2pkh'](), single['claim']()]
    if name == 'amounts':
        return [Output.pay_pubkey_hash(a, h1) for a in (0, 1, 2 ** 63 - 1, 2 ** 63, 2 ** 64 - 1)]
    if name.startswith('many'):
        return [Output.pay_pubkey_hash(1000 + i, h1) for i in range(int(name[4:]))]
    raise ValueError(name)


def sequences(pattern, n):
    if pattern == 'max':
        return [0xFFFFFFFF] * n
    if pattern == 'zero':
        return [0] * n
    return [(0xFFFFFFFE, 1, 0x80000000, 0)[i % 4] for i in range(n)]


# ---------------------------------------------------------------------------------------------------------
# half 1: input signatures
# ---------------------------------------------------------------------------------------------------------

def input_cases(wallet_id, tier, n_slots):
    """The complete, deterministic list of transaction cases for one wallet (simplest first)."""
    quick = tier == 'quick'
    nmax = 2 if quick else 4
    cases = []

    def case(ins, outs='all', v=1, lt=0, seq='max', resign=0, k=0):
        cases.append({'mode': 'inputs', 'w': wallet_id, 'ins': [list(x) for x in ins], 'outs': outs, 'v': v,
                      'lt': lt, 'seq': seq, 'resign': resign, 'k': k})

    # A: every tuple of spent-output kinds x every rotation of the key slots
    for n in range(1, nmax + 1):
        shifts = range(n_slots) if n <= 3 else (0, 1)
        for kinds in itertools.product(SPENT_KINDS, repeat=n):
            for sh in shifts:
                case([(kinds[j], (j + sh) % n_slots) for j in range(n)])
    # B: the same key signs every input
    for n in range(2, nmax + 1):
        for s in range(n_slots):
            case([('p2pkh', s)] * n)
            case([(SPENT_KINDS[(j + s) % len(SPENT_KINDS)], s) for j in range(n)])
    # C: version x locktime x sequence x re-sign, full product on a reduced input alphabet
    for ins in ([('p2pkh', 0)], [('claim', 1 % n_slots)], [('p2pkh', 0), ('support', 2 % n_slots)],
                [('update', 3 % n_slots), ('p2pkh', 0)]):
        for v in VERSIONS[tier]:
            for lt in LOCKTIMES[tier]:
                for seq in SEQUENCES:
                    for resign in (0, 1):
                        case(ins, 'two', v, lt, seq, resign)
    # D: every output list
    for outs in OUTPUT_LISTS:
        case([('p2pkh', 0)], outs)
        case([('claim', 1 % n_slots), ('p2pkh', 2 % n_slots)], outs)
    # E: spent scripts whose length sits on a compact-size boundary of the preimage
    for L in SCRIPT_LEN_BOUNDARIES[tier]:
        case([(f'claim_len:{L}', 0)], 'two')
        case([('p2pkh', 1 % n_slots), (f'claim_len:{L}', 0)], 'two')
    return cases


def run_input_case(h, spec, res):
    """Build, sign with the real wallet, judge every input independently.  Returns a log string."""
    from lbry.wallet import Transaction, Input
    from refs import btc_tx, sighash, secp256k1 as ec
    log = []
    ins = spec['ins']
    n = len(ins)
    res.count('evaluations')
    spent, prev = [], []
    for j, (kind, slot) in enumerate(ins):
        s = h.slots[slot]
        pkh = h.ledger.address_to_hash160(s['address'])
        pos = j if n <= 8 else j % 5                                                   # nout of the spent output
        outs = [make_spent('p2pkh', FOREIGN_HASH, 5000 + i, i) for i in range(pos)]
        txo = make_spent(kind, pkh, 2 * COIN + j, j)
        ftx = _funding_tx(outs + [txo], j)
        spent.append(txo)
        fraw = ftx.raw
        prev.append((btc_tx.sha256d(fraw), pos, btc_tx.decode(fraw)['outputs'][pos]['script']))
    tx = Transaction(version=spec['v'], locktime=spec['lt'])
    inputs = [Input.spend(t) for t in spent]
    for txi, sq in zip(inputs, sequences(spec['seq'], n)):
        txi.sequence = sq
    tx.add_inputs(inputs).add_outputs(make_outputs(spec['outs'], spec.get('k', 0)))
    pre = btc_tx.decode(tx.raw)
    accounts = list(h.accounts)
    sig_base = {'kind': 'input-signature', 'n_in': n}
    try:
        h.run(tx.sign(accounts))
        if spec['resign']:
            h.run(tx.sign(accounts))
    except Exception as e:   # noqa - the wallet owns every spent output, so a refusal is a failure to sign
        res.violation(dict(sig_base, why=f'sign-raised:{type(e).__name__}', spent_kind=[k for k, _ in ins][0]),
                      f'Transaction.sign raised {type(e).__name__}: {e} for a transaction spending only own outputs',
                      spec)
        return f'sign raised {e!r}'
    res.count('executions')
    raw = tx.raw
    post = btc_tx.decode(raw)

    def strip(t):
        return (t['version'], t['locktime'], [(i['prev_hash'], i['prev_index'], i['sequence']) for i in t['inputs']],
                [(o['amount'], o['script']) for o in t['outputs']])
    if strip(pre) != strip(post):
        res.violation(dict(sig_base, why='signing-changed-transaction'),
                      'signing changed something other than input scripts', spec)
    if [(i['prev_hash'], i['prev_index']) for i in post['inputs']] != [(p[0], p[1]) for p in prev]:
        res.violation(dict(sig_base, why='outpoint-mismatch'), 'inputs do not reference the outputs they spend', spec)
    for i in range(n):
        kind, slot = ins[i]
        s = h.slots[slot]
        res.count('inputs_verified')
        f = sighash.verify_p2pkh_input(post, i, prev[i][2], ec)
        log.append(f"input {i} ({kind}, {s['aid']}/{s['why']}): {'ok' if f['ok'] else f['why']}")
        kind_class = kind.split(':')[0]
        if not f['ok']:
            res.violation(dict(sig_base, why=f['code'], spent_kind=kind_class,
                               position=i if i <= 8 else ('above-256' if i > 256 else '9..256'),
                               others='signed' if spec['resign'] else 'placeholder'),
                          f"input {i} spending a {kind} output: {f['why']}", spec)
            continue
        vals = tx.inputs[i].script.values
        if vals.get('signature') != f['sig'] or vals.get('pubkey') != f['pubkey']:
            res.violation(dict(sig_base, why='values-differ-from-wire', spent_kind=kind_class),
                          'script.values of a signed input differ from its serialised script', spec)
        if f['pubkey'] != s['ref_pubkey']:
            res.tally('signing_pubkey_differs_from_reference_derivation(C06_territory)')
        if not f['minimal']:
            res.tally('interpretation_only:non_minimal_push_in_scriptsig')
        res.tally('low_s' if ec.is_low_s(f['s']) else 'interpretation_only:high_s')
        # non-vacuity
        if f['pubkey'][1] == 0:
            res.witness('pubkey_with_leading_zero_byte_signed')
        res.witness('pubkey_prefix_%02x' % f['pubkey'][0])
        if s['priv_lz']:
            res.witness('private_key_with_leading_zero_byte_signed')
        if f['r'] < (1 << 248):
            res.witness('r_with_leading_zero_byte')
        if f['s'] < (1 << 248):
            res.witness('s_with_leading_zero_byte')
        if f['r'] >> 255:
            res.witness('r_needs_der_padding_byte')
        if len(prev[i][2]) > 252:
            res.witness('script_code_longer_than_252_bytes')
        if len(prev[i][2]) > 65535:
            res.witness('script_code_longer_than_65535_bytes')
    if len({h.slots[s]['account'] for _, s in ins}) > 1:
        res.witness('inputs_from_two_accounts_in_one_transaction')
    if len(post['outputs']) >= 253:
        res.witness('output_count_needs_3_byte_compact_size')
    if len(post['outputs']) > 256:
        res.witness('more_than_256_outputs')
    if n >= 253:
        res.witness('input_count_needs_3_byte_compact_size')
    if n > 257:
        res.witness('input_index_above_256_signed_and_verified')
    res.distinct_add('nontrivial', ('in', tuple((k, h.slots[s]['why'], h.slots[s]['aid']) for k, s in ins),
                                    spec['outs'], spec['v'], spec['lt'], spec['seq'], spec['resign'], spec.get('k', 0)))
    return '\n'.join(log)


def work_inputs(item, res):
    _, wallet_id, tier, lo, hi = item
    with SignH(wallet_id, res) as h:
        cases = input_cases(wallet_id, tier, len(h.slots))[lo:hi]
        for spec in cases:
            run_input_case(h, spec, res)
        if lo == 0 and cases:
            res.sample({'input_case': cases[0]})
            res.sample({'input_case': cases[-1]})


MANY_INPUTS = {'quick': [253, 257, 258, 300], 'thorough': [252, 253, 255, 256, 257, 258, 259, 300, 512, 1000]}


def many_inputs_case(wallet_id, n, n_slots, variant):
    """UTXO consolidation: n inputs in one wallet-signed transaction.  'p2pkh': plain payments over all key slots;
    'claims': claim-type outputs at the indices around and above 256 and at the end."""
    ins = [['p2pkh', j % n_slots] for j in range(n)]
    if variant == 'claims':
        for j, kind in ((255, 'support'), (256, 'update'), (257, 'claim'), (258, 'claim_big'), (n - 1, 'claim')):
            if j < n:
                ins[j] = [kind, j % n_slots]
    return {'mode': 'inputs', 'w': wallet_id, 'ins': ins, 'outs': 'two', 'v': 1, 'lt': 0, 'seq': 'max', 'resign': 0, 'k': 0}


def work_many(item, res):
    _, wallet_id, n, variant = item
    with SignH(wallet_id, res) as h:
        run_input_case(h, many_inputs_case(wallet_id, n, len(h.slots), variant), res)
        if n == 258 and variant == 'p2pkh':
            res.sample({'many_inputs_case': {'wallet': wallet_id, 'inputs': n, 'verified': 'every index'}})


def work_sweep(item, res):
    """Amount sweep: the same one-input transaction with output amounts 10^8 + k for every k in [lo, hi):
    deterministic way to reach signatures whose r / s have leading zero bytes (1/256 each)."""
    _, wallet_id, slot, lo, hi = item
    with SignH(wallet_id, res) as h:
        for k in range(lo, hi):
            run_input_case(h, {'mode': 'inputs', 'w': wallet_id, 'ins': [['p2pkh', slot % len(h.slots)]],
                               'outs': 'p2pkh', 'v': 1, 'lt': 0, 'seq': 'max', 'resign': 0, 'k': k}, res)


def work_pinned(item, res):
    """Upstream's pinned signature (tests/unit/wallet/test_transaction.py test_sign): the same transaction is
    rebuilt; the signature an earlier release produced must verify under the reference digest (validates the
    reference on foreign data) and the wallet's own signature is judged like any other."""
    from lbry.wallet import Transaction, Input, Output
    from refs import btc_tx, sighash, secp256k1 as ec
    with open(FIXTURES) as f:
        pin = json.load(f)['upstream_pinned_input_signature']
    with SignH('W1', res) as h:
        res.count('evaluations')
        recv = h.run(h.accounts[0].receiving.get_addresses(order_by='n asc'))
        h1 = h.ledger.address_to_hash160(recv[pin['spent_address_index']])
        h2 = h.ledger.address_to_hash160(recv[pin['pay_address_index']])
        out = Transaction().add_outputs([Output.pay_pubkey_hash(pin['spent_amount'], h1)]).outputs[0]
        tx = Transaction().add_inputs([Input.spend(out)]).add_outputs([Output.pay_pubkey_hash(pin['pay_amount'], h2)])
        h.run(tx.sign([h.accounts[0]]))
        res.count('executions')
        post = btc_tx.decode(tx.raw)
        prev_script = sighash.p2pkh_script(h1)      # upstream's funding transaction has no inputs (not decodable)
        f = sighash.verify_p2pkh_input(post, 0, prev_script, ec)
        if not f['ok']:
            res.violation({'kind': 'input-signature', 'why': f['code'], 'case': 'upstream-pinned-transaction'},
                          f"upstream's pinned transaction: {f['why']}", {'mode': 'pinned'})
            return
        pinned = bytes.fromhex(pin['signature_hex'])
        r, s = ec.der_parse_strict(pinned[:-1])
        if ec.ecdsa_verify(f['pubkey'], sighash.digest_all(post, 0, prev_script), r, s):
            res.witness('signature_pinned_by_upstream_test_verifies_under_reference_digest')
        else:
            res.violation({'kind': 'input-signature', 'why': 'earlier-release-signature-no-longer-verifies'},
                          'the signature pinned in upstream test_sign does not verify for the rebuilt transaction',
                          {'mode': 'pinned'})
        res.tally('wallet_signature_equals_upstream_pinned' if f['sig'] == pinned
                  else 'wallet_signature_differs_from_upstream_pinned(not_demanded)')


# ---------------------------------------------------------------------------------------------------------
# half 2: channel signatures
# ---------------------------------------------------------------------------------------------------------

def _channel_key(source):
    from lbry.wallet import Ledger
    from lbry.wallet.bip32 import PrivateKey
    from refs import secp256k1 as ec
    if source[0] == 'hd':
        _, pid, i = source
        from lbry.wallet.mnemonic import Mnemonic
        seed = Mnemonic.mnemonic_to_seed(PHRASES[pid], 'lbryum')
        return PrivateKey.from_seed(Ledger, seed).child(2).child(i)
    secret = source[1]
    if secret == 'PUBLZ':
        secret = key_cache()['channel_secret_publz']
    elif secret == 'N-1':
        secret = ec.N - 1
    return PrivateKey.from_bytes(Ledger, secret.to_bytes(32, 'big'))


def build_channel(cid):
    """-> (channel txo inside a transaction, raw bytes of that transaction)."""
    from lbry.wallet import Output
    from lbry.schema.claim import Claim
    twin = cid == CHANNEL_TWIN
    source, kind = CHANNELS['c_hd0' if twin else cid]
    key = _channel_key(source)
    claim = Claim()
    claim.channel.title = cid
    pkh = hashlib.new('ripemd160', cid.encode()).digest()
    if kind == 'claim':
        txo = Output.pay_claim_name_pubkey_hash(CENT, '@' + cid, claim, pkh)
    else:
        txo = Output.pay_update_claim_pubkey_hash(CENT, '@' + cid, CLAIM_ID, claim, pkh)
    txo.set_channel_private_key(key)
    tx = _funding_tx([txo], len(cid))
    return txo, tx.raw


def build_signed(spec):
    """spec: {'obj', 'chan', 'n_in', 'pos', 'ctr'} -> dict with the genuine signed transaction."""
    from lbry.wallet import Transaction, Input, Output
    from lbry.schema.claim import Claim
    obj, ctr = spec['obj'], spec.get('ctr', 0)
    pkh = bytes(range(40, 60))
    if obj == 'stream_small':
        txo = Output.pay_claim_name_pubkey_hash(CENT, 'stream', _claim('small', ctr), pkh)
    elif obj == 'stream_4k':
        txo = Output.pay_claim_name_pubkey_hash(CENT, 'stream4k', _claim('big', ctr), pkh)
    elif obj == 'empty_claim':
        txo = Output.pay_claim_name_pubkey_hash(CENT, 'empty', Claim(), pkh)
    elif obj == 'channel':
        c = Claim()
        c.channel.public_key_bytes = b'\x02' + bytes(range(32))
        c.channel.title = f'sub{ctr}'
        txo = Output.pay_claim_name_pubkey_hash(CENT, '@sub', c, pkh)
    elif obj == 'repost':
        c = Claim()
        c.repost.reference.claim_id = CLAIM_ID_2
        txo = Output.pay_claim_name_pubkey_hash(CENT, 'repost', c, pkh)
    elif obj == 'collection':
        c = Claim()
        c.collection.claims.append(CLAIM_ID)
        c.collection.claims.append(CLAIM_ID_2)
        c.collection.title = f'col{ctr}'
        txo = Output.pay_claim_name_pubkey_hash(CENT, 'collection', c, pkh)
    elif obj == 'update_stream':
        txo = Output.pay_update_claim_pubkey_hash(CENT, 'stream', CLAIM_ID_2, _claim('small', ctr), pkh)
    elif obj == 'support_comment':
        txo = Output.pay_support_data_pubkey_hash(CENT, 'stream', CLAIM_ID_2, _support(f'nice {ctr}'), pkh)
    elif obj == 'support_empty':
        txo = Output.pay_support_data_pubkey_hash(CENT, 'stream', CLAIM_ID_2, _support(''), pkh)
    else:
        raise ValueError(obj)
    n_in = spec.get('n_in', 1)
    spent = []
    for j in range(n_in):
        outs = [make_spent('p2pkh', FOREIGN_HASH, 7000 + i, i) for i in range(spec.get('pos', 0))]
        mine = make_spent('p2pkh', bytes(range(60 + j, 80 + j)), COIN + j, j)
        _funding_tx(outs + [mine], 50 + j)
        spent.append(mine)
    change = Output.pay_pubkey_hash(COIN // 2, bytes(range(80, 100)))
    tx = Transaction().add_inputs([Input.spend(t) for t in spent]).add_outputs([txo, change])
    channel, channel_raw = build_channel(spec['chan'])
    return {'tx': tx, 'txo': txo, 'channel': channel, 'channel_raw': channel_raw}


def ref_channel_digest(raw_tx, channel_raw, channel_nout, message, channel_kind):
    """The documented signing digest, rebuilt from wire bytes only:
    sha256(first input outpoint (32-byte hash || uint32 LE index) || channel claim hash || message bytes)."""
    from refs import btc_tx, sighash
    tx = btc_tx.decode(raw_tx)
    first = tx['inputs'][0]
    outpoint = first['prev_hash'] + first['prev_index'].to_bytes(4, 'little')
    if channel_kind == 'claim':
        channel_hash = sighash.hash160(btc_tx.sha256d(channel_raw) + channel_nout.to_bytes(4, 'big'))
    else:
        channel_hash = bytes.fromhex(CLAIM_ID)[::-1]
    return hashlib.sha256(outpoint + channel_hash + message).digest(), channel_hash


def _validates(raw, channel, nout=0):
    """What a wallet does with bytes it is handed: parse, take the output, ask is_signed_by.
    -> (verdict: True/False/'exc:<Type>', output or None)"""
    from lbry.wallet import Transaction, Ledger
    try:
        txo = Transaction(raw).outputs[nout]
        return bool(txo.is_signed_by(channel, Ledger)), txo
    except Exception as e:   # noqa - an exception is a refusal
        return f'exc:{type(e).__name__}', None


def mutation_plan(layout, bit_bytes):
    """layout: {'sig': (off, len), 'chan': (off, len), 'msg': [(off, len), ...], 'txid': (off, 32), 'nout': (off, 4),
    'flag': (off, 1)}.  Yields (field, byte offset in raw tx, xor mask).  Every bit of signature, channel id,
    first-input txid and index; message: every bit of the first `bit_bytes` bytes, then lowest and highest bit
    of every further byte."""
    for field in ('sig', 'chan', 'txid', 'nout', 'flag'):
        if layout.get(field):
            off, ln = layout[field]
            for i in range(ln):
                for b in range(8):
                    yield field, off + i, 1 << b
    seen = 0
    for off, ln in layout.get('msg', []):
        for i in range(ln):
            masks = [1 << b for b in range(8)] if seen < bit_bytes else [0x01, 0x80]
            for m in masks:
                yield 'msg', off + i, m
            seen += 1


def judge_mutations(res, label, raw, channel, layout, bit_bytes, genuine_txo, spec, legacy_v1=False):
    """Every planned mutation of the wire bytes must stop the object from validating."""
    base_msg = genuine_txo.signable.unsigned_payload or genuine_txo.signable.to_message_bytes()
    base = (base_msg, genuine_txo.signable.signature, genuine_txo.signable.signing_channel_hash)
    for field, off, mask in mutation_plan(layout, bit_bytes):
        res.count('evaluations')
        res.count('mutations')
        mut = bytearray(raw)
        mut[off] ^= mask
        verdict, txo = _validates(bytes(mut), channel)
        if verdict is True:
            now = (txo.signable.unsigned_payload or txo.signable.to_message_bytes(), txo.signable.signature,
                   txo.signable.signing_channel_hash)
            if field in ('msg', 'flag') and now == base:
                # e.g. version / signatureType inside a v1 publisherSignature envelope: neither claim content nor
                # signature bytes nor channel id changed
                if txo.signable.signature_type != genuine_txo.signable.signature_type:
                    res.tally('interpretation_only:legacy_v1_signature_type_label_not_bound')
                else:
                    res.tally('mutated_bytes_decode_to_identical_content(not_a_change)')
                continue
            if legacy_v1 and field in ('txid', 'nout'):
                res.tally('interpretation_only:legacy_v1_signature_does_not_bind_first_input')
                continue
            res.violation({'kind': 'channel-signature', 'why': 'mutation-accepted', 'field': field, 'object': label},
                          f'{label}: still validates after flipping mask {mask:#04x} of {field} byte at offset {off}',
                          dict(spec, mutation=[field, off, mask]))
        elif verdict is False:
            res.tally(f'refused_false:{field}')
        else:
            res.tally(f'refused_{verdict}:{field}')
        res.distinct_add('nontrivial', ('mut', label, field, off))


def layout_v2(raw, txo):
    """Byte offsets inside the raw transaction of the parts of a current-format signed claim/support."""
    off, ln = claim_blob_offset(raw)
    assert raw[off] == 1 and raw[4] < 253 and ln >= 85
    assert raw[off + 21:off + 85] == txo.signable.signature
    return {'flag': (off, 1), 'chan': (off + 1, 20), 'sig': (off + 21, 64), 'msg': [(off + 85, ln - 85)],
            'txid': (5, 32), 'nout': (37, 4)}


def run_signed_case(spec, res, bit_bytes, full=True):
    from lbry.wallet import Ledger
    from refs import secp256k1 as ec
    b = build_signed(spec)
    tx, txo, channel = b['tx'], b['txo'], b['channel']
    label = f"{spec['obj']}/{spec['chan']}"
    res.count('evaluations')
    log = []
    # the placeholder signature the wallet writes before the inputs are known must not validate
    txo.sign(channel, b'placeholder txid:nout')
    v, _ = _validates(tx.raw, channel)
    log.append(f'placeholder signature left in place: {v}')
    if v is True:
        res.violation({'kind': 'channel-signature', 'why': 'placeholder-accepted', 'object': spec['obj']},
                      f'{label}: the placeholder signature validates', spec)
    tx._reset()
    txo.sign(channel)
    tx._reset()
    res.count('executions')
    raw = tx.raw
    try:
        direct = bool(txo.is_signed_by(channel, Ledger))
    except Exception as e:   # noqa
        direct = f'exc:{type(e).__name__}'
    wire, parsed = _validates(raw, channel)
    log.append(f'genuine: direct {direct}, after wire round trip {wire}')
    if direct is not True or wire is not True:
        res.violation({'kind': 'channel-signature', 'why': 'genuine-rejected', 'object': spec['obj'],
                       'channel': spec['chan']},
                      f'{label}: freshly signed object does not validate (direct {direct}, wire {wire})', spec)
        return '\n'.join(log)
    # independent judgement of the genuine signature
    message = parsed.signable.to_message_bytes()
    digest, channel_hash = ref_channel_digest(raw, b['channel_raw'], 0, message, CHANNELS.get(spec['chan'], CHANNELS['c_hd0'])[1])
    r, s = ec.compact_parse(parsed.signable.signature)
    pub = channel.claim.channel.public_key_bytes
    ok = ec.ecdsa_verify(ec.decode_point(pub), digest, r, s) and parsed.signable.signing_channel_hash == channel_hash
    log.append(f'reference ECDSA over the documented digest: {ok}')
    if not ok:
        res.violation({'kind': 'channel-signature', 'why': 'reference-rejects-genuine', 'object': spec['obj']},
                      f'{label}: is_signed_by accepts a signature the reference rejects for the documented digest', spec)
    if r < (1 << 248):
        res.witness('compact_signature_r_with_leading_zero_byte')
    if s < (1 << 248):
        res.witness('compact_signature_s_with_leading_zero_byte')
    if pub[1] == 0:
        res.witness('channel_pubkey_with_leading_zero_byte')
    if len(message) == 0:
        res.witness('empty_message_signed')
    res.distinct_add('nontrivial', ('signed', spec['obj'], spec['chan'], spec.get('n_in', 1), spec.get('pos', 0),
                                    spec.get('ctr', 0)))
    if not full:
        return '\n'.join(log)
    # the S-twin (r, n-s): inherent ECDSA malleability, accepted on purpose so that signatures of earlier
    # releases (python-ecdsa, not normalised) keep validating -> interpretation only
    lay = layout_v2(raw, parsed)
    twin = bytearray(raw)
    so = lay['sig'][0] + 32
    twin[so:so + 32] = (ec.N - s).to_bytes(32, 'big')
    v, _ = _validates(bytes(twin), channel)
    res.tally(f'interpretation_only:s_twin_signature_{v}')
    # mutations of the wire bytes
    judge_mutations(res, label, raw, channel, lay, bit_bytes, parsed, spec)
    # two inputs swapped -> different first input
    if spec.get('n_in', 1) == 2:
        res.count('evaluations')
        from refs import btc_tx
        d = btc_tx.decode(raw)
        d['inputs'].reverse()
        v, _ = _validates(btc_tx.encode(d), channel)
        if v is True:
            res.violation({'kind': 'channel-signature', 'why': 'mutation-accepted', 'field': 'input-order',
                           'object': spec['obj']}, f'{label}: validates after swapping the two inputs', spec)
    # every other channel must be refused
    for other in list(CHANNELS) + [CHANNEL_TWIN]:
        if other == spec['chan']:
            continue
        res.count('evaluations')
        och, _ = build_channel(other)
        v, _ = _validates(raw, och)
        same_key = och.claim.channel.public_key_bytes == pub
        if v is True and same_key:
            res.tally('interpretation_only:other_channel_with_same_key_accepted')
        elif v is True:
            res.violation({'kind': 'channel-signature', 'why': 'other-channel-accepted', 'object': spec['obj']},
                          f'{label}: validates against channel {other}', dict(spec, other=other))
        res.distinct_add('nontrivial', ('swap', label, other))
    # every single-bit change of the channel's public key
    craw = b['channel_raw']
    assert craw.count(pub) == 1
    poff = craw.index(pub)
    from lbry.wallet import Transaction
    for i in range(33):
        for bit in range(8):
            res.count('evaluations')
            mut = bytearray(craw)
            mut[poff + i] ^= 1 << bit
            try:
                och = Transaction(bytes(mut)).outputs[0]
                v, _ = _validates(raw, och)
            except Exception as e:   # noqa
                v = f'exc:{type(e).__name__}'
            if v is True:
                res.violation({'kind': 'channel-signature', 'why': 'changed-channel-key-accepted',
                               'object': spec['obj']},
                              f'{label}: validates against the channel with bit {bit} of key byte {i} flipped',
                              dict(spec, keyflip=[i, bit]))
    return '\n'.join(log)


def work_signed(item, res):
    _, spec, bit_bytes = item
    run_signed_case(spec, res, bit_bytes)
    if spec['obj'] == 'stream_small' and spec['chan'] == 'c_hd0' and spec.get('n_in', 1) == 1:
        res.sample({'signed_case': spec, 'mutations': 'every bit of sig/channel id/txid/nout/flag, message bits'})


def work_signed_sweep(item, res):
    """Counter sweep: sign stream titles t<ctr> for every ctr in [lo, hi) -> reaches compact signatures whose
    r / s start with a zero byte; those get the full mutation set, the others the genuine-object checks."""
    from refs import secp256k1 as ec
    _, chan, lo, hi, bit_bytes = item
    for ctr in range(lo, hi):
        spec = {'mode': 'signed', 'obj': 'stream_small', 'chan': chan, 'n_in': 1, 'pos': 0, 'ctr': ctr}
        b = build_signed(spec)
        b['txo'].sign(b['channel'])
        r, s = ec.compact_parse(b['txo'].signable.signature)
        run_signed_case(spec, res, bit_bytes, full=(r < (1 << 248) or s < (1 << 248)))


# -- legacy fixtures ---------------------------------------------------------------------------------------

def claim_blob_offset(raw, nout=0):
    """(offset, length) inside the raw transaction of the claim/support payload pushed by output `nout`."""
    from refs import btc_tx, sighash
    script = btc_tx.decode(raw)['outputs'][nout]['script']
    toks = sighash.tokens(script)
    idx = {0xb5: 2, 0xb7: 3, 0xb6: 3}[toks[0][0]]       # OP_CLAIM_NAME / OP_UPDATE_CLAIM / OP_SUPPORT_CLAIM(+data)
    blob = toks[idx][1]
    assert blob is not None and raw.count(blob) == 1
    return raw.index(blob), len(blob)


def fixture_layout(raw, txo):
    sgn = txo.signable
    off, ln = claim_blob_offset(raw)
    assert raw[4] == 1
    if not sgn.unsigned_payload:                  # current format written by an earlier release
        assert raw[off] == 1
        return {'flag': (off, 1), 'chan': (off + 1, 20), 'sig': (off + 21, 64), 'msg': [(off + 85, ln - 85)],
                'txid': (5, 32), 'nout': (37, 4)}
    # v1: protobuf with an embedded publisherSignature; message = every other byte of the payload
    sig, cert = sgn.signature, sgn.signing_channel_hash[::-1]
    assert raw.count(sig) == 1 and raw.count(cert) == 1
    so, co = raw.index(sig), raw.index(cert)
    assert off <= so < off + ln and off <= co < off + ln
    skip = set(range(so, so + len(sig))) | set(range(co, co + 20))
    runs, start = [], None
    for p in range(off, off + ln):
        if p in skip:
            if start is not None:
                runs.append((start, p - start))
                start = None
        elif start is None:
            start = p
    if start is not None:
        runs.append((start, off + ln - start))
    return {'sig': (so, len(sig)), 'chan': (co, 20), 'msg': runs, 'txid': (5, 32), 'nout': (37, 4)}


def work_fixture(item, res):
    from lbry.wallet import Transaction
    from refs import secp256k1 as ec, btc_tx, sighash
    _, idx, bit_bytes = item
    with open(FIXTURES) as f:
        pair = json.load(f)['pairs'][idx]
    raw = bytes.fromhex(pair['stream_tx_hex'])
    craw = bytes.fromhex(pair['channel_tx_hex'])
    spec = {'mode': 'fixture', 'idx': idx}
    label = f"fixture:{pair['name']}"
    res.count('evaluations')
    channel = Transaction(craw).outputs[0]
    v, txo = _validates(raw, channel)
    if v is not True:
        res.violation({'kind': 'channel-signature', 'why': 'legacy-signature-rejected', 'fixture': idx},
                      f'{label}: a signature made by an earlier release no longer validates ({v})', spec)
        return
    res.count('executions')
    sgn = txo.signable
    legacy_v1 = bool(sgn.unsigned_payload)
    pub = channel.claim.channel.public_key_bytes
    r, s = ec.compact_parse(sgn.signature)
    res.witness('legacy_v1_format_fixture' if legacy_v1 else 'earlier_release_v2_fixture')
    if len(channel.claim.channel.message.public_key) != 33:
        res.witness('channel_with_der_encoded_public_key')
    if not ec.is_low_s(s):
        res.witness('earlier_release_signature_with_high_s')
    # independent check with the documented digests
    tx = btc_tx.decode(raw)
    if legacy_v1:
        h160 = sighash.p2pkh_tail_hash(tx['outputs'][0]['script'])
        from refs import bip32
        address_bytes = bip32.b58decode(bip32.b58check_encode(b'\x55' + h160))
        digest = hashlib.sha256(address_bytes + sgn.unsigned_payload + sgn.signing_channel_hash[::-1]).digest()
    else:
        first = tx['inputs'][0]
        digest = hashlib.sha256(first['prev_hash'] + first['prev_index'].to_bytes(4, 'little')
                                + sgn.signing_channel_hash + sgn.to_message_bytes()).digest()
    if ec.ecdsa_verify(ec.decode_point(pub), digest, r, s):
        res.witness('fixture_signature_verifies_with_reference_ecdsa')
    else:
        res.violation({'kind': 'channel-signature', 'why': 'reference-rejects-genuine', 'fixture': idx},
                      f'{label}: accepted by is_signed_by, rejected by the reference', spec)
    lay = fixture_layout(raw, txo)
    judge_mutations(res, label, raw, channel, lay, bit_bytes, txo, spec, legacy_v1=legacy_v1)
    # other channels (the other fixtures' channels and a fresh one)
    with open(FIXTURES) as f:
        pairs = json.load(f)['pairs']
    others = [Transaction(bytes.fromhex(p['channel_tx_hex'])).outputs[0] for j, p in enumerate(pairs) if j != idx]
    others.append(build_channel('c_hd0')[0])
    for och in others:
        res.count('evaluations')
        v, _ = _validates(raw, och)
        if v is True:
            res.violation({'kind': 'channel-signature', 'why': 'other-channel-accepted', 'fixture': idx},
                          f'{label}: validates against a different channel', spec)
    # bit flips of the channel's key material (the 33 compressed bytes, or x||y of a DER key)
    key_field = channel.claim.channel.message.public_key
    assert craw.count(key_field) == 1
    koff = craw.index(key_field)
    region = range(koff, koff + 33) if len(key_field) == 33 else range(koff + len(key_field) - 64, koff + len(key_field))
    for p in region:
        for bit in range(8):
            res.count('evaluations')
            mut = bytearray(craw)
            mut[p] ^= 1 << bit
            try:
                och = Transaction(bytes(mut)).outputs[0]
                v, _ = _validates(raw, och)
            except Exception as e:   # noqa
                v = f'exc:{type(e).__name__}'
            if v is True:
                res.violation({'kind': 'channel-signature', 'why': 'changed-channel-key-accepted', 'fixture': idx},
                              f'{label}: validates against the channel with a key bit flipped', spec)
    res.sample({'fixture': pair['name'], 'legacy_v1_format': legacy_v1, 'high_s': not ec.is_low_s(s)})


# -- complete wallet flows ----------------------------------------------------------------------------------

FLOWS = ['claim_create', 'claim_update', 'support', 'pay', 'purchase']


def work_flow(item, res):
    """The daemon's sequence on a funded wallet: Transaction.<flow>(..., signing_channel) (placeholder signature,
    coin selection, change), re-sign the claim once the inputs are known, then sign the inputs."""
    from lbry.wallet import Transaction, Output
    from refs import btc_tx, sighash, secp256k1 as ec
    _, flow, wallet_id = item
    spec = {'mode': 'flow', 'flow': flow, 'w': wallet_id}
    with SignH(wallet_id, res) as h:
        res.count('evaluations')
        ledger, account = h.ledger, h.accounts[0]
        s0, s1 = h.slots[0], h.slots[1]
        h160 = ledger.address_to_hash160
        coins = [Output.pay_pubkey_hash(3 * COIN, h160(s0['address'])), Output.pay_pubkey_hash(5 * COIN, h160(s1['address']))]
        prev_claim = Output.pay_claim_name_pubkey_hash(CENT, 'mine', _claim('small', 9), h160(s0['address']))
        ftx = _funding_tx(coins + [prev_claim], 77)
        ftx.is_verified = True
        h.run(ledger.db.insert_transaction(ftx))
        for a in {s0['address'], s1['address']}:
            h.run(ledger.db.save_transaction_io(ftx, a, h160(a), f'{ftx.id}:{ftx.height}:'))
        channel, channel_raw = build_channel('c_hd0')
        hold = s0['address']
        try:
            if flow == 'claim_create':
                tx = h.run(Transaction.claim_create('new', _claim('small', 5), CENT, hold, [account], account, channel))
            elif flow == 'claim_update':
                tx = h.run(Transaction.claim_update(prev_claim, _claim('small', 6), CENT, hold, [account], account, channel))
            elif flow == 'support':
                tx = h.run(Transaction.support('mine', CLAIM_ID_2, CENT, hold, [account], account, channel, 'hello'))
            elif flow == 'pay':
                tx = h.run(Transaction.pay(COIN, hold, [account], account))
            else:
                tx = h.run(Transaction.purchase(CLAIM_ID_2, COIN, hold, [account], account))
        except Exception as e:   # noqa - funding is C03's subject; a failure here is reported, not judged
            res.tally(f'flow_build_raised_{type(e).__name__}(C03_territory)')
            return
        signed_flow = flow in ('claim_create', 'claim_update', 'support')
        if signed_flow:
            v, _ = _validates(tx.raw, channel)
            if v is True:
                res.violation({'kind': 'channel-signature', 'why': 'placeholder-accepted', 'flow': flow},
                              f'{flow}: placeholder signature validates once inputs are attached', spec)
            tx.outputs[0].sign(channel)
        if flow in ('claim_create', 'claim_update', 'support'):
            h.run(tx.sign([account]))
        res.count('executions')
        raw = tx.raw
        post = btc_tx.decode(raw)
        fr = btc_tx.decode(ftx.raw)
        for i, txin in enumerate(post['inputs']):
            res.count('inputs_verified')
            if txin['prev_hash'] != btc_tx.sha256d(ftx.raw):
                res.violation({'kind': 'input-signature', 'why': 'outpoint-mismatch', 'flow': flow},
                              f'{flow}: input {i} spends an unknown transaction', spec)
                continue
            f = sighash.verify_p2pkh_input(post, i, fr['outputs'][txin['prev_index']]['script'], ec)
            if not f['ok']:
                res.violation({'kind': 'input-signature', 'why': f['code'], 'flow': flow},
                              f"{flow}: input {i}: {f['why']}", spec)
        if signed_flow:
            v, _ = _validates(raw, channel)
            if v is not True:
                res.violation({'kind': 'channel-signature', 'why': 'genuine-rejected', 'flow': flow},
                              f'{flow}: re-signed claim does not validate after input signing ({v})', spec)
            else:
                res.witness('wallet_flow_signed_by_channel_validates_after_input_signing')
        res.distinct_add('nontrivial', ('flow', flow, wallet_id, len(post['inputs'])))
        if len(post['inputs']) > 0:
            res.witness('wallet_flow_inputs_chosen_by_coin_selection_verified')


# ---------------------------------------------------------------------------------------------------------
# half 1b: time-locked pay-to-script-hash outputs spent through spend_time_lock + sign(extra_keys)
# ---------------------------------------------------------------------------------------------------------

TIMELOCK_HEIGHTS = {
    # one per script-number width: 1 byte, 2 bytes with sign padding, 3 bytes, the main-net fixture's height,
    # 4 bytes (time stamp range), 5 bytes (largest lock time)
    'quick': [100, 128, 70000, 717738, 500_000_000, 0xFFFFFFFF],
    'thorough': [17, 100, 127, 128, 255, 256, 32767, 32768, 70000, 717738, 8388607, 8388608, 499_999_999, 500_000_000,
                 0x7FFFFFFF, 0x80000000, 0xFFFFFFFF],
}
EXTRA_KEY_IDS = {'quick': ['e_hash', 'e_privlz', 'e_publz'], 'thorough': ['e_hash', 'e_privlz', 'e_publz', 'e_one', 'e_nm1',
                                                                         'e_hash2']}


def extra_secret(kid):
    from refs import secp256k1 as ec
    if kid == 'e_privlz':
        return (1 << 240) + 5
    if kid == 'e_publz':
        return key_cache()['channel_secret_publz']
    if kid == 'e_one':
        return 1
    if kid == 'e_nm1':
        return ec.N - 1
    return int.from_bytes(hashlib.sha256(b'verif c04 time lock key ' + kid.encode()).digest(), 'big') % (ec.N - 1) + 1


def timelock_cases(wallet_id, tier, n_slots):
    cases = []

    def case(ins, extras, shape, v=2, outs='two'):
        cases.append({'mode': 'timelock', 'w': wallet_id, 'ins': [list(i) for i in ins], 'extras': list(extras),
                      'shape': shape, 'v': v, 'outs': outs})

    heights, kids = TIMELOCK_HEIGHTS[tier], EXTRA_KEY_IDS[tier]
    # A: the wallet's own entry point Transaction.spend_time_lock(): every height x every key
    for ht in heights:
        for kid in kids:
            case([('tl', kid, ht)], [kid], 'spend_time_lock')
    # B: hand-built transactions mixing the time-locked input with ordinary ones
    for ht in (heights[1], heights[-2]):
        for kid in kids[:2]:
            for v in (1, 2):
                case([('tl', kid, ht)], [kid], 'alone', v)
                case([('tl', kid, ht), ('p2pkh', 0)], [kid], 'mixed', v)
                case([('p2pkh', 1 % n_slots), ('tl', kid, ht)], [kid], 'mixed', v)
                case([('claim', 2 % n_slots), ('tl', kid, ht), ('p2pkh', 0)], [kid], 'mixed', v)
                case([('tl', kid, ht), ('claim_big', 3 % n_slots)], [kid], 'mixed', v, 'all')
                case([('tl', kid, ht), ('tl', kid, heights[0])], [kid], 'two-locks-one-key', v)
    # C: the key is picked out of extra_keys by address
    case([('tl', kids[1], heights[0])], [kids[0], kids[1]], 'decoy-key-first')
    case([('tl', kids[0], heights[0]), ('tl', kids[1], heights[2])], [kids[0], kids[1]], 'two-locks-two-keys')
    return cases


def run_timelock_case(h, spec, res):
    from collections import OrderedDict
    from lbry.wallet import Transaction, Input, Output
    from lbry.wallet.script import OutputScript
    from lbry.wallet.bip32 import PrivateKey
    from refs import btc_tx, sighash, secp256k1 as ec
    log = []
    res.count('evaluations')
    ins = spec['ins']
    n = len(ins)
    keys = {kid: PrivateKey.from_bytes(h.ledger, extra_secret(kid).to_bytes(32, 'big')) for kid in spec['extras']}
    extra = OrderedDict((k.address, k) for k in keys.values())
    spent, prev, redeems = [], [], []
    for j, d in enumerate(ins):
        outs = [make_spent('p2pkh', FOREIGN_HASH, 5000 + i, i) for i in range(j)]
        if d[0] == 'tl':
            _, kid, height = d
            redeem = sighash.timelock_script(height, sighash.hash160(ec.pubkey_of(extra_secret(kid))))
            txo = Output(2 * COIN + j, OutputScript(source=sighash.p2sh_script(sighash.hash160(redeem))))
        else:
            redeem = None
            pkh = h.ledger.address_to_hash160(h.slots[d[1]]['address'])
            txo = make_spent(d[0], pkh, 2 * COIN + j, j)
        ftx = _funding_tx(outs + [txo], j)
        spent.append(txo)
        redeems.append(redeem)
        prev.append((btc_tx.sha256d(ftx.raw), j, btc_tx.decode(ftx.raw)['outputs'][j]['script']))
    base = {'kind': 'input-signature', 'spent_kind': 'p2sh-timelock', 'shape': spec['shape'], 'n_in': n}
    try:
        if spec['shape'] == 'spend_time_lock':
            tx = h.run(Transaction.spend_time_lock(spent[0], redeems[0], h.accounts[0]))
        else:
            inputs = []
            for txo, redeem in zip(spent, redeems):
                if redeem is None:
                    inputs.append(Input.spend(txo))
                else:
                    txi = Input.spend_time_lock(txo, redeem)
                    txi.sequence = 0xFFFFFFFE
                    inputs.append(txi)
            tx = Transaction(version=spec['v'], locktime=max(d[2] for d in ins if d[0] == 'tl'))
            tx.add_inputs(inputs).add_outputs(make_outputs(spec['outs']))
        pre = btc_tx.decode(tx.raw)
        h.run(tx.sign(list(h.accounts), extra))
    except Exception as e:   # noqa - every key needed was supplied
        res.violation(dict(base, why=f'sign-raised:{type(e).__name__}'),
                      f'spending a time-locked output ({spec["shape"]}) raised {type(e).__name__}: {e}', spec)
        return f'raised {e!r}'
    res.count('executions')
    post = btc_tx.decode(tx.raw)
    if [(i['prev_hash'], i['prev_index'], i['sequence']) for i in pre['inputs']] != \
            [(i['prev_hash'], i['prev_index'], i['sequence']) for i in post['inputs']] or pre['outputs'] != post['outputs'] \
            or (pre['version'], pre['locktime']) != (post['version'], post['locktime']):
        res.violation(dict(base, why='signing-changed-transaction'), 'signing changed something other than input scripts', spec)
    if [(i['prev_hash'], i['prev_index']) for i in post['inputs']] != [(p[0], p[1]) for p in prev]:
        res.violation(dict(base, why='outpoint-mismatch'), 'inputs do not reference the outputs they spend', spec)
        return 'outpoint mismatch'
    for i, d in enumerate(ins):
        res.count('inputs_verified')
        if d[0] == 'tl':
            f = sighash.verify_p2sh_timelock_input(post, i, prev[i][2], ec)
            kind = 'p2sh-timelock'
            if f['ok'] and f['redeem'] != redeems[i]:
                f.update(ok=False, why='the input carries a different redeem script than the one handed in',
                         code='redeem-script-replaced')
            if f['ok'] and f['pubkey'] != ec.pubkey_of(extra_secret(d[1])):
                f.update(ok=False, why='signed with a key other than the one the redeem script names', code='wrong-key')
        else:
            f = sighash.verify_p2pkh_input(post, i, prev[i][2], ec)
            kind = d[0]
        log.append(f"input {i} ({kind}): {'ok' if f['ok'] else f['why']}")
        if not f['ok']:
            others = {ec.pubkey_of(extra_secret(k)) for k in spec['extras'] if d[0] == 'tl' and k != d[1]}
            if d[0] == 'tl' and f['code'] == 'pubkey-hash-mismatch' and f.get('pubkey') in others:
                # the input was signed with another entry of extra_keys than the one whose address the redeem script names
                res.violation({'kind': 'input-signature', 'why': 'extra-key-not-selected-by-address',
                               'spent_kind': 'p2sh-timelock'},
                              f"{spec['shape']}: input {i} (time lock for key {d[1]}) was signed with a different entry of "
                              f"extra_keys {spec['extras']}: {f['why']}", spec)
            else:
                res.violation(dict(base, why=f['code'], position=i, spent_kind=kind),
                              f"{spec['shape']}: input {i} ({kind}): {f['why']}", spec)
            continue
        if d[0] == 'tl':
            res.witness('time_locked_script_hash_input_verified')
            if len(spec['extras']) > 1:
                res.witness('time_lock_key_selected_among_several_extra_keys')
            res.witness('lock_height_script_number_of_%d_bytes' % len(sighash.script_num(d[2])))
            if f['pubkey'][1] == 0:
                res.witness('time_lock_key_pubkey_with_leading_zero_byte')
            if extra_secret(d[1]) < (1 << 248):
                res.witness('time_lock_key_private_key_with_leading_zero_byte')
            if spec['shape'] == 'spend_time_lock':
                if post['locktime'] != d[2] or post['inputs'][i]['sequence'] == 0xFFFFFFFF:
                    res.tally('interpretation_only:spend_time_lock_locktime_or_sequence_not_final_for_cltv')
            if n > 1 and any(x[0] != 'tl' for x in ins):
                res.witness('time_locked_input_mixed_with_ordinary_inputs')
    res.distinct_add('nontrivial', ('timelock', tuple(tuple(d) for d in ins), tuple(spec['extras']), spec['shape'], spec['v']))
    return '\n'.join(log)


def work_timelock(item, res):
    _, wallet_id, tier, lo, hi = item
    with SignH(wallet_id, res) as h:
        cases = timelock_cases(wallet_id, tier, len(h.slots))[lo:hi]
        for spec in cases:
            run_timelock_case(h, spec, res)
        if lo == 0 and cases:
            res.sample({'timelock_case': cases[0]})


# ---------------------------------------------------------------------------------------------------------
# half 2b: validation histories - the verdict depends only on the arguments of the call
# ---------------------------------------------------------------------------------------------------------

# channel txo id -> (script kind, key id, channel whose claim id it keeps | None)
HIST_CHANNELS = {
    'X1': ('claim', 'K1', None),     # the original channel; its claim id is I
    'X2': ('update', 'K2', 'X1'),    # channel update: same claim id I, NEW signing key (rotation)
    'X3': ('update', 'K1', 'X1'),    # channel update: same claim id I, same key
    'Y1': ('claim', 'K1', None),     # a different channel (id J) that uses the same key as X1
    'Y2': ('claim', 'K3', None),     # an unrelated channel
    'X4': ('update', 'K3', 'X1'),    # second rotation
}
# signed object id -> (kind, signer)
HIST_CLAIMS = {'S1': ('stream', 'X1'), 'S2': ('stream', 'X2'), 'S3': ('stream', 'Y1'), 'S4': ('stream', 'Y2'),
               'S5': ('support', 'X2'), 'S6': ('stream', 'X4')}
HIST_PLAN = {   # (claims, channels, sequence length)
    'quick': (['S1', 'S2', 'S3'], ['X1', 'X2', 'X3', 'Y1'], 3),
    'thorough': (['S1', 'S2', 'S3', 'S4', 'S5', 'S6'], ['X1', 'X2', 'X3', 'Y1', 'Y2', 'X4'], 3),
}


def hist_secret(kid):
    from refs import secp256k1 as ec
    return int.from_bytes(hashlib.sha256(b'verif c04 history key ' + kid.encode()).digest(), 'big') % (ec.N - 1) + 1


def build_history_world():
    """Deterministic set of channel txos (some sharing a claim id, some sharing a key) and of objects signed by them.
    -> {'channels': {id: (txo, raw)}, 'claims': {id: (txo, raw)}}"""
    from lbry.wallet import Transaction, Input, Output, Ledger
    from lbry.wallet.bip32 import PrivateKey
    from lbry.schema.claim import Claim
    channels = {}
    for cid, (kind, kid, base) in HIST_CHANNELS.items():
        key = PrivateKey.from_bytes(Ledger, hist_secret(kid).to_bytes(32, 'big'))
        claim = Claim()
        claim.channel.title = cid
        pkh = hashlib.new('ripemd160', b'hist' + cid.encode()).digest()
        if kind == 'claim':
            txo = Output.pay_claim_name_pubkey_hash(CENT, '@hist' + cid, claim, pkh)
        else:
            txo = Output.pay_update_claim_pubkey_hash(CENT, '@hist' + base, channels[base][0].claim_id, claim, pkh)
        txo.set_channel_private_key(key)
        tx = _funding_tx([txo], 200 + len(channels))
        channels[cid] = (txo, tx.raw)
    claims = {}
    for sid, (kind, signer) in HIST_CLAIMS.items():
        pkh = hashlib.new('ripemd160', b'hist' + sid.encode()).digest()
        if kind == 'stream':
            txo = Output.pay_claim_name_pubkey_hash(CENT, 'hist-' + sid, _claim('small', len(claims)), pkh)
        else:
            txo = Output.pay_support_data_pubkey_hash(CENT, 'hist', CLAIM_ID_2, _support('history ' + sid), pkh)
        mine = make_spent('p2pkh', bytes(range(120, 140)), COIN + len(claims), 0)
        _funding_tx([mine], 300 + len(claims))
        tx = Transaction().add_inputs([Input.spend(mine)]).add_outputs([txo])
        txo.sign(channels[signer][0])
        tx._reset()
        claims[sid] = (txo, tx.raw)
    return {'channels': channels, 'claims': claims}


def hist_reference(world):
    """Reference verdict for every (signed object, channel txo): ECDSA over the documented digest (first input
    outpoint || channel id embedded in the object || message) with the key carried by the channel txo passed in.
    -> {(sid, cid): (verdict, class)}; class = 'signer' | 'same-id-same-key' | 'same-key-other-id' | 'other'."""
    from refs import btc_tx, secp256k1 as ec
    table = {}
    ids = {cid: txo.claim_hash for cid, (txo, _) in world['channels'].items()}
    for sid, (_, raw) in world['claims'].items():
        off, ln = claim_blob_offset(raw)
        payload = raw[off:off + ln]
        assert payload[0] == 1
        first = btc_tx.decode(raw)['inputs'][0]
        digest = hashlib.sha256(first['prev_hash'] + first['prev_index'].to_bytes(4, 'little') + payload[1:21]
                                + payload[85:]).digest()
        r, s = ec.compact_parse(payload[21:85])
        signer = HIST_CLAIMS[sid][1]
        for cid in world['channels']:
            pub = ec.pubkey_of(hist_secret(HIST_CHANNELS[cid][1]))
            verdict = ec.ecdsa_verify(ec.decode_point(pub), digest, r, s)
            same_key = HIST_CHANNELS[cid][1] == HIST_CHANNELS[signer][1]
            same_id = ids[cid] == payload[1:21]
            cls = 'signer' if cid == signer else ('same-id-same-key' if same_key and same_id else
                                                 ('same-key-other-id' if same_key else 'other'))
            assert verdict == same_key
            table[(sid, cid)] = (verdict, cls)
    return table


def _hist_run(arg):
    """Runs one sequence of is_signed_by calls on the real code (in a forked child: no state is shared with any other
    sequence).  mode 'obj': the same Output objects are reused by all calls; 'wire': both sides re-parsed per call."""
    from lbry.wallet import Transaction, Ledger
    world, mode, seq = arg
    out = []
    for sid, cid in seq:
        try:
            if mode == 'obj':
                claim, channel = world['claims'][sid][0], world['channels'][cid][0]
            else:
                claim = Transaction(world['claims'][sid][1]).outputs[0]
                channel = Transaction(world['channels'][cid][1]).outputs[0]
            out.append(bool(claim.is_signed_by(channel, Ledger)))
        except Exception as e:   # noqa - an exception is a refusal
            out.append(f'exc:{type(e).__name__}')
    return out


def _forked(fn, arg):
    """fn(arg) in a forked child; the JSON-able result comes back through a pipe."""
    r, w = os.pipe()
    pid = os.fork()
    if pid == 0:
        code = 1
        try:
            os.close(r)
            data = json.dumps(fn(arg)).encode()
            while data:
                data = data[os.write(w, data):]
            code = 0
        finally:
            os._exit(code)
    os.close(w)
    chunks = []
    while True:
        b = os.read(r, 65536)
        if not b:
            break
        chunks.append(b)
    os.close(r)
    _, status = os.waitpid(pid, 0)
    if status != 0 or not chunks:
        raise RuntimeError(f'forked execution failed (status {status}) for {arg[1:]!r:.200}')
    return json.loads(b''.join(chunks))


def _hist_root(cid):
    """The channel whose claim id this channel txo carries."""
    return HIST_CHANNELS[cid][2] or cid


def _hist_tags(seq, i):
    """How the earlier calls of the sequence relate to call i (names the history shape in the signature)."""
    sid, cid = seq[i]
    tags = set()
    for psid, pcid in seq[:i]:
        same_key = HIST_CHANNELS[pcid][1] == HIST_CHANNELS[cid][1]
        if pcid == cid:
            tags.add('same-channel-txo-before')
        elif _hist_root(pcid) == _hist_root(cid):
            tags.add('same-claim-id-same-key-before' if same_key else 'same-claim-id-other-key-before')
        elif same_key:
            tags.add('same-key-other-claim-id-before')
        else:
            tags.add('unrelated-channel-before')
        if psid == sid:
            tags.add('same-object-before')
    for t in ('same-claim-id-other-key-before', 'same-object-before', 'same-channel-txo-before',
              'same-key-other-claim-id-before', 'same-claim-id-same-key-before', 'unrelated-channel-before'):
        if t in tags:
            return t          # the most telling relation names the history shape
    return 'first-call'


def judge_history(res, seq, mode, got, expected, table):
    """expected[(sid, cid)] = the verdict of that single call in a fresh process (checked against the reference)."""
    log = []
    for i, ((sid, cid), g) in enumerate(zip(seq, got)):
        res.count('evaluations')
        res.count('history_calls')
        want = expected[(sid, cid)]
        same = (g is True) == (want is True)
        log.append(f'{i}: {sid}.is_signed_by({cid}) -> {g} (fresh-process verdict {want}, reference {table[(sid, cid)][0]})')
        if not same:
            res.violation({'kind': 'channel-signature', 'why': 'verdict-depends-on-history', 'expected': bool(want is True),
                           'objects': mode, 'pair_class': table[(sid, cid)][1], 'history': _hist_tags(seq, i)},
                          f'call {i} of {seq}: {sid}.is_signed_by({cid}) answers {g}; the same call alone answers {want} '
                          f'(reference ECDSA with the key of the channel passed in: {table[(sid, cid)][0]})',
                          {'mode': 'history', 'objects': mode, 'seq': [list(x) for x in seq]})
    return '\n'.join(log)


def work_history(item, res):
    _, tier, mode, first_index = item
    claims, chans, depth = HIST_PLAN[tier]
    world = build_history_world()
    table = hist_reference(world)
    calls = [(s, c) for s in claims for c in chans]
    # single calls in fresh processes: must agree with the reference (the same-key-other-channel class may differ:
    # whether an equal key under another claim id counts is an interpretation, only its *stability* is demanded)
    expected = {}
    for call in calls:
        g = _forked(_hist_run, (world, mode, [call]))[0]
        expected[call] = g
        ref, cls = table[call]
        if first_index == 0:
            res.count('evaluations')
            if (g is True) != ref:
                if cls == 'same-key-other-id':
                    res.tally('interpretation_only:same_key_other_claim_id_not_accepted')
                else:
                    res.violation({'kind': 'channel-signature', 'why': 'single-call-differs-from-reference',
                                   'pair_class': cls, 'objects': mode},
                                  f'{call[0]}.is_signed_by({call[1]}) alone answers {g}, reference {ref}',
                                  {'mode': 'history', 'objects': mode, 'seq': [list(call)]})
            elif cls == 'same-key-other-id' and g is True:
                res.tally('interpretation_only:other_channel_with_same_key_accepted')
    first = calls[first_index]
    for rest in itertools.product(calls, repeat=depth - 1):
        seq = [first] + list(rest)
        got = _forked(_hist_run, (world, mode, seq))
        res.count('executions')
        judge_history(res, seq, mode, got, expected, table)
        res.distinct_add('nontrivial', ('history', mode, tuple(seq)))
        cids = [c for _, c in seq]
        if any(_hist_root(a) == _hist_root(b) and HIST_CHANNELS[a][1] != HIST_CHANNELS[b][1] for a in cids for b in cids):
            res.witness('validated_against_two_channel_txos_with_one_claim_id_and_different_keys')
        if any(_hist_root(a) != _hist_root(b) and HIST_CHANNELS[a][1] == HIST_CHANNELS[b][1] for a in cids for b in cids):
            res.witness('validated_against_two_channels_with_equal_keys')
        if len({expected[c] is True for c in seq}) == 2:
            res.witness('true_and_false_verdicts_in_one_history')
    if first_index == 0 and mode == 'obj':
        res.sample({'validation_history': {'claims': claims, 'channels': chans, 'length': depth, 'objects': mode,
                                           'example': [list(x) for x in seq]}})


# ---------------------------------------------------------------------------------------------------------
# driver
# ---------------------------------------------------------------------------------------------------------

def _n_slots(wallet_id):
    n = 0
    keys = key_cache()
    for aid in WALLETS[wallet_id]:
        pid, gen, _ = ACCOUNTS[aid]
        if gen == 'hd':
            n += 3 + (keys['hd'][pid]['n_pub_lz'] is not None) + (keys['hd'][pid]['n_priv_lz'] is not None)
        else:
            n += 1
    return n


def run(ctx):
    from refs import bip32, sighash
    bip32.selftest()
    with open(FIXTURES) as f:
        fx = json.load(f)
    n_main = sighash.selftest([bytes.fromhex(p[k]) for p in fx['pairs'] for k in ('stream_tx_hex', 'channel_tx_hex')])
    assert n_main == 6, f'reference validation on main-net inputs: {n_main}/6 verified'
    ctx.res.witness('reference_validated_on_mainnet_inputs', n_main)
    from refs import btc_tx, secp256k1 as ec
    tl = btc_tx.decode(bytes.fromhex(fx['mainnet_timelock_spend']['raw_hex']))
    redeem = sighash.tokens(tl['inputs'][0]['script'])[2][1]
    assert sighash.verify_p2sh_timelock_input(tl, 0, sighash.p2sh_script(sighash.hash160(redeem)), ec)['ok'], \
        'reference does not verify the real main-net time-lock spend'
    ctx.res.witness('reference_validated_on_mainnet_time_lock_spend')
    key_cache()
    tier = ctx.tier
    wallets = ['W1'] if ctx.quick else ['W1', 'W2', 'W3', 'W4']
    bit_bytes = 64 if ctx.quick else 1 << 20        # thorough: every bit of every message byte
    chunk = 60 if ctx.quick else 240
    items = []
    for w in wallets:
        total = len(input_cases(w, tier, _n_slots(w)))
        items += [('inputs', w, tier, lo, min(lo + chunk, total)) for lo in range(0, total, chunk)]
    sweep_n = 768 if ctx.quick else 8192
    sweep_items = [('sweep', 'W1', 0, lo, lo + 128) for lo in range(0, sweep_n, 128)]
    if not ctx.quick:
        sweep_items += [('sweep', 'W2', 3, lo, lo + 128) for lo in range(0, 1024, 128)]
    signers = ['c_hd0', 'c_publz'] if ctx.quick else list(CHANNELS)
    signed_items = []
    for obj in SIGNED_OBJECTS:
        for chan in signers:
            variants = [(1, 0)] if ctx.quick and chan != 'c_hd0' else [(1, 0), (2, 1)]
            for n_in, pos in variants:
                signed_items.append(('signed', {'mode': 'signed', 'obj': obj, 'chan': chan, 'n_in': n_in, 'pos': pos,
                                                'ctr': 0}, bit_bytes))
    csweep_n = 512 if ctx.quick else 4096
    csweep_items = [('csweep', 'c_hd0', lo, lo + 128, bit_bytes) for lo in range(0, csweep_n, 128)]
    fixture_items = [('fixture', i, bit_bytes) for i in range(len(fx['pairs']))]
    flow_items = [('flow', fl, w) for fl in FLOWS for w in (['W1'] if ctx.quick else ['W1', 'W2'])]
    tl_items = []
    for w in (['W1'] if ctx.quick else ['W1', 'W2']):
        total = len(timelock_cases(w, tier, _n_slots(w)))
        tl_items += [('timelock', w, tier, lo, min(lo + 40, total)) for lo in range(0, total, 40)]
    n_calls = len(HIST_PLAN[tier][0]) * len(HIST_PLAN[tier][1])
    hist_items = [('history', tier, mode, i) for mode in ('obj', 'wire') for i in range(n_calls)]
    many_items = [('many', 'W1', n, 'p2pkh') for n in MANY_INPUTS[tier]]
    many_items += [('many', 'W1', n, 'claims') for n in ([300] if ctx.quick else [258, 300, 1000])]
    ctx.pmap(_dispatch, many_items + hist_items + tl_items + signed_items + fixture_items + items + sweep_items + csweep_items + flow_items
             + [('pinned',)])
    ctx.meta.update(
        rule=('inputs: per wallet every tuple of spent-output kinds (6 kinds incl. 4 KiB claims) of length 1..N x every '
              'rotation of the key slots (receiving/change/second index/leading-zero pubkey/leading-zero private key per HD '
              'account, single-address accounts, account restored from xprv), same-key-for-all-inputs, full product '
              'version x locktime x sequence pattern x re-sign on four input shapes, every output list (each script kind '
              'alone, none, all 12 kinds, extreme amounts, 252/253 outputs), spent-script lengths on compact-size '
              'boundaries, consolidation transactions with 253..300 (thorough ..1000) inputs verified at every index, 256/257 '
              'outputs, an amount sweep (every k) for short r/s; channels: every signed-object kind x signer x '
              'first-input variant with every single-bit mutation of signature, channel id, first-input txid/index, format '
              'flag, message (every bit of the first B bytes, two bits per byte after), input swap, every other channel, '
              'every bit of the channel key, placeholder signature; three main-net fixtures with the same mutations; five '
              'complete wallet flows.  Time locks: BIP65 pay-to-script-hash outputs (one lock height per script-number width, keys '
              'incl. leading-zero ones) spent through Transaction.spend_time_lock + sign(extra_keys), and hand-built alone / '
              'mixed with p2pkh and claim inputs / two locks; judged with the redeem script as script code.  Validation '
              'histories: every sequence of L is_signed_by calls over (signed object, channel txo) pairs where channel txos '
              'share a claim id with different keys (rotation), share a key under different ids, or are unrelated - each '
              'sequence in its own forked process, on reused objects and on freshly parsed ones; every answer must equal '
              'the answer of that call alone, which must equal the reference verdict.  Distinct non-trivial = distinct (kind tuple, key slots, outputs, version, locktime, '
              'sequence, re-sign, amount) input cases + distinct (object, mutated field, byte offset) + distinct signed '
              'objects / channel swaps / flows.'),
        exhaustive=True,
        bounds={'many_input_sizes': MANY_INPUTS[tier], 'time_lock_heights': TIMELOCK_HEIGHTS[tier], 'validation_history_plan': list(HIST_PLAN[tier]),
                'max_inputs': 2 if ctx.quick else 4, 'wallets': wallets, 'message_bytes_with_every_bit_flipped': bit_bytes,
                'amount_sweep': sweep_n, 'signed_counter_sweep': csweep_n, 'signers': signers},
        assumptions=[
            'refs/secp256k1, refs/sighash (on refs/btc_tx) and refs/bip32 are written from SEC1/SEC2, BIP66, BIP32 and the '
            'Bitcoin OP_CHECKSIG description; validated at start on BIP32 vectors 1-3 and on six real LBRY main-net inputs',
            'script code = complete scriptPubKey of the spent output (claim prefix included), no OP_CODESEPARATOR',
            'a mutation whose bytes decode to the identical message/signature/channel id is not a change (tallied)',
            'the S-twin (r, n-s) of a signature is tallied, not demanded to fail: earlier releases produced high-S '
            'signatures and the statement requires those to validate',
            'a different channel = a channel with a different public key; same key under another claim id is tallied',
            'legacy v1 signatures bind the claim address instead of the first input: first-input mutations are tallied there',
            'exceptions from is_signed_by / parsing a mutated object count as refusal',
            'time locks: script code of a pay-to-script-hash input = the redeem script (BIP16); reference validated on the '
            'real main-net time-lock spend e4668811...; lock time / sequence finality of spend_time_lock is tallied only',
            'validation histories: hidden state is anything that survives between calls in one process; every sequence '
            'runs in a forked child so sequences cannot influence each other and replays are exact',
        ],
        expected_witnesses=['pubkey_with_leading_zero_byte_signed', 'private_key_with_leading_zero_byte_signed',
                            'r_with_leading_zero_byte', 's_with_leading_zero_byte', 'r_needs_der_padding_byte',
                            'script_code_longer_than_252_bytes', 'inputs_from_two_accounts_in_one_transaction',
                            'output_count_needs_3_byte_compact_size', 'compact_signature_r_with_leading_zero_byte',
                            'compact_signature_s_with_leading_zero_byte', 'channel_pubkey_with_leading_zero_byte',
                            'legacy_v1_format_fixture', 'channel_with_der_encoded_public_key', 'empty_message_signed',
                            'signature_pinned_by_upstream_test_verifies_under_reference_digest',
                            'wallet_flow_signed_by_channel_validates_after_input_signing',
                            'input_index_above_256_signed_and_verified', 'more_than_256_outputs',
                            'reference_validated_on_mainnet_time_lock_spend', 'time_locked_script_hash_input_verified',
                            'time_locked_input_mixed_with_ordinary_inputs', 'lock_height_script_number_of_5_bytes',
                            'time_lock_key_pubkey_with_leading_zero_byte',
                            'validated_against_two_channel_txos_with_one_claim_id_and_different_keys',
                            'validated_against_two_channels_with_equal_keys', 'true_and_false_verdicts_in_one_history'],
    )


def _dispatch(item, res):
    kind = item[0]
    if kind == 'inputs':
        work_inputs(item, res)
    elif kind == 'sweep':
        work_sweep(item, res)
    elif kind == 'signed':
        work_signed(item, res)
    elif kind == 'csweep':
        work_signed_sweep(item, res)
    elif kind == 'fixture':
        work_fixture(item, res)
    elif kind == 'flow':
        work_flow(item, res)
    elif kind == 'pinned':
        work_pinned(item, res)
    elif kind == 'timelock':
        work_timelock(item, res)
    elif kind == 'many':
        work_many(item, res)
    elif kind == 'history':
        work_history(item, res)
    else:
        raise ValueError(kind)


def _replay_mutation(res, raw, channel, data, legacy_v1):
    """Exactly one recorded wire mutation: genuine object first, then the mutated bytes."""
    field, off, mask = data['mutation']
    v0, genuine = _validates(raw, channel)
    mut = bytearray(raw)
    mut[off] ^= mask
    v1, txo = _validates(bytes(mut), channel)
    log = (f'genuine object validates: {v0}\nafter xor {mask:#04x} into byte {off} ({field}; '
           f'{raw[off]:#04x} -> {mut[off]:#04x}): {v1}')
    if v1 is True:
        same = (txo.signable.unsigned_payload or txo.signable.to_message_bytes(), txo.signable.signature,
                txo.signable.signing_channel_hash) == \
               (genuine.signable.unsigned_payload or genuine.signable.to_message_bytes(), genuine.signable.signature,
                genuine.signable.signing_channel_hash)
        if not (field in ('msg', 'flag') and same) and not (legacy_v1 and field in ('txid', 'nout')):
            res.violation({'kind': 'channel-signature', 'why': 'mutation-accepted', 'field': field},
                          f'mutated object still validates ({field} byte {off} mask {mask:#04x})', data)
    return log


def replay(data):
    from vf.core import Result
    res = Result()
    mode = data.get('mode')
    log = ''
    if mode == 'inputs':
        with SignH(data['w'], res) as h:
            log = run_input_case(h, data, res) or ''
    elif mode == 'signed':
        spec = {k: v for k, v in data.items() if k not in ('mutation', 'other', 'keyflip')}
        if 'mutation' in data:
            b = build_signed(spec)
            b['txo'].sign(b['channel'])
            b['tx']._reset()
            log = _replay_mutation(res, b['tx'].raw, b['channel'], data, False)
        else:
            log = run_signed_case(spec, res, 1 << 20) or ''
    elif mode == 'fixture':
        if 'mutation' in data:
            from lbry.wallet import Transaction
            with open(FIXTURES) as f:
                pair = json.load(f)['pairs'][data['idx']]
            raw = bytes.fromhex(pair['stream_tx_hex'])
            channel = Transaction(bytes.fromhex(pair['channel_tx_hex'])).outputs[0]
            legacy_v1 = bool(Transaction(raw).outputs[0].signable.unsigned_payload)
            log = _replay_mutation(res, raw, channel, data, legacy_v1)
        else:
            work_fixture(('fixture', data['idx'], 1 << 20), res)
    elif mode == 'flow':
        work_flow(('flow', data['flow'], data['w']), res)
    elif mode == 'pinned':
        work_pinned(('pinned',), res)
    elif mode == 'timelock':
        with SignH(data['w'], res) as h:
            log = run_timelock_case(h, data, res) or ''
    elif mode == 'history':
        world = build_history_world()
        table = hist_reference(world)
        seq = [tuple(x) for x in data['seq']]
        expected = {c: _forked(_hist_run, (world, data['objects'], [c]))[0] for c in set(seq)}
        got = _forked(_hist_run, (world, data['objects'], seq))
        log = judge_history(res, seq, data['objects'], got, expected, table)
        for c in set(seq):
            if (expected[c] is True) != table[c][0] and table[c][1] != 'same-key-other-id':
                res.violation({'kind': 'channel-signature', 'why': 'single-call-differs-from-reference'},
                              f'{c[0]}.is_signed_by({c[1]}) alone answers {expected[c]}, reference {table[c][0]}', data)
    else:
        raise ValueError(f'unknown replay mode {mode!r}')
    for v in res.violations.values():
        log += f"\n{v['what']}  [{v['count']} case(s)]"
    return bool(res.violations), log
