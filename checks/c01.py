"""C01 - blob integrity under concurrent writers.

Model checking by exhaustive interleaving enumeration on the real lbry code: one real BlobFile (and,
separately, BlobBuffer) for hash sha384(content), 1..3 writers obtained with get_blob_writer(), all of
it on the virtual loop (vf.vloop.VLoop).  Every writer follows a *script* (what the peer sends, cut into
chunks); the explorer enumerates every order of the events

    O(i)   blob.get_blob_writer(addr_i, port)      (late-open family only; otherwise writers exist up front)
    S(i)   blob.set_length(L_i)                    (unknown-length family only: what peer i's header does)
    W(i)   writers[i].write(next chunk of script i) (as data_received would, between loop iterations)
    STEP   one loop iteration (exactly the handles ready now, FIFO)
    JR(k)  run the body of executor job k (file write) - the file appears on disk
    JD(k)  deliver the completion of job k to the loop (call_soon_threadsafe of the executor thread)

and evaluates the safety invariant in every reached state and the liveness demand in every quiescent
state (no event enabled).  Search = depth first over event prefixes, each node re-executed from scratch
on fresh real objects (nothing of the implementation is copied or modelled), with canonical-state
hashing (see Exec.canon for the same-futures argument) and a stateless cross-check on a sub-space.
"""
import os
import io
import time
import asyncio
import hashlib
import marshal
import itertools

PROPERTY = 'C01'
LEVEL = 'model_checking'
HASHSEEDS = {'quick': 1, 'thorough': 1}

PORT = 3333


# ================================================================================================
# alphabet: contents, writer scripts
# ================================================================================================

def content_for(n):
    """n distinct bytes 'abcd...'."""
    return bytes(range(0x61, 0x61 + n))


def compositions(b):
    """Every way to cut b into consecutive non-empty chunks (2^(len-1)), whole string first, all single
    bytes last."""
    n = len(b)
    if n == 0:
        return [()]
    out = []
    for mask in range(2 ** (n - 1)):
        parts, start = [], 0
        for i in range(1, n):
            if mask >> (i - 1) & 1:
                parts.append(b[start:i])
                start = i
        parts.append(b[start:])
        out.append(tuple(parts))
    out.sort(key=lambda p: (len(p), p))
    return out


def kinds_for(content):
    """kind name -> bytes the peer sends.  Order = simplest first."""
    n = len(content)
    k = [('ok', content)]
    for p in range(n):
        k.append((f'flip{p}', content[:p] + bytes([content[p] ^ 0x01]) + content[p + 1:]))
    for ln in range(0, n):
        k.append((f'trunc{ln}', content[:ln]))
    k.append(('long1', content + b'\x7a'))
    k.append(('longn', content + content))
    k.append(('unrel', bytes(range(0x78 - n + 1, 0x78 + 1))[:n] if n <= 8 else bytes(n)))
    return k


def scripts_for(content, chunking='all'):
    """List of (kind, chunks).  chunking:
    'all'  every composition of the script's bytes;
    'ws'   {whole, all single bytes};
    'w'    whole only;
    'ws-'  as 'ws', except that the over-long-by-n script comes whole and as [content, content] (the first
           copy ends on a chunk boundary) instead of 2n single bytes;
    'all-' every composition, except for the over-long-by-n script, which is cut as in 'ws-';
    'q3'   as 'ws-' without the flips and truncations at inner positions (first and last position only): the
           quick tier's triples; every position is covered by its pairs and by the thorough tier's triples."""
    out = []
    n = len(content)
    inner = {f'flip{p}' for p in range(1, n - 1)} | {f'trunc{p}' for p in range(1, n - 1)}
    for kind, data in kinds_for(content):
        if chunking == 'q3':
            if kind in inner:
                continue
        comps = compositions(data)
        if chunking == 'q3':
            comps = [comps[0], (data[:n], data[n:])] if kind == 'longn' else \
                ([comps[0]] if len(comps) == 1 else [comps[0], comps[-1]])
        elif chunking == 'w':
            comps = [comps[0]]
        elif chunking in ('ws-', 'all-') and kind == 'longn':
            comps = [comps[0], (data[:n], data[n:])]
        elif chunking in ('ws', 'ws-'):
            comps = [comps[0]] if len(comps) == 1 else [comps[0], comps[-1]]
        for c in comps:
            out.append((kind, c))
    return out


def is_misbehaving(kind):
    return kind != 'ok'


PRELUDES = ('solo', 'race', 'loser')


def prelude_script(name, content):
    """Episode 1 of the two-episode families: (writers, leading events); the rest is the default schedule
    (loop first, then writers in index order) to quiescence.  Every prelude delivers a complete correct copy."""
    n = len(content)
    whole = {'kind': 'ok', 'chunks': (content,)}
    if name == 'solo':          # one correct writer, default schedule
        return [whole], []
    if name == 'race':          # two correct writers, both complete before any callback has run
        return [whole, dict(whole)], ['W0', 'W1']
    if name == 'loser':         # an over-long peer wins on a chunk boundary while a truncated one is pending
        trunc = {'kind': f'trunc{n - 1}', 'chunks': (content[:n - 1],) if n > 1 else ()}
        return [{'kind': 'long1', 'chunks': (content, b'\x7a')}, trunc], (['W1', 'W0'] if n > 1 else ['W0'])
    raise ValueError(name)


# ================================================================================================
# one execution on the real code
# ================================================================================================

class HarnessDivergence(RuntimeError):
    """A recorded event is not enabled when replayed (hard error, never a VIOLATION)."""


_LOOPCLS = None


def _loop_class():
    """VLoop subclass that remembers the tasks it created (so that their state can enter canon)."""
    global _LOOPCLS
    if _LOOPCLS is None:
        from vf.vloop import VLoop

        class TrackingLoop(VLoop):
            def __init__(self):
                super().__init__(atomic_jobs=False)
                self.tasks_created = []

            def create_task(self, coro, **kw):
                t = super().create_task(coro, **kw)
                self.tasks_created.append(t)
                return t
        _LOOPCLS = TrackingLoop
    return _LOOPCLS


_PLAIN = frozenset([type(None), bool, int, str, bytes, float])


def sdigest(canon):
    """8-byte digest of a canonical state (nested tuples of str/bytes/int/bool/None only; marshal format 2
    has no object references, so equal values give equal bytes)."""
    return hashlib.blake2b(marshal.dumps(canon, 2), digest_size=8).digest()


def _fut_state(f):
    if not f.done():
        return 'P'
    if f.cancelled():
        return 'C'
    e = f.exception()          # also marks the exception as retrieved (no GC noise)
    if e is not None:
        return 'E:' + type(e).__name__
    r = f.result()
    return ('R', r if isinstance(r, (bytes, type(None), int, str)) else type(r).__name__)


def _val(v, futmap):
    """Canonical form of an attribute value of a writer / blob (generic, so that state moved around by
    an edit of the code under test is still seen)."""
    if type(v) in _PLAIN:
        return v
    if isinstance(v, io.BytesIO):
        return ('bio', None if v.closed else v.getvalue())
    if hasattr(v, 'hexdigest'):
        return ('h', v.hexdigest())
    if isinstance(v, asyncio.Event):
        return ('ev', v.is_set())
    if isinstance(v, asyncio.Future):
        return ('fut', futmap.get(id(v), '?'), _fut_state(v))
    if isinstance(v, dict):
        return ('d', tuple((repr(k), _val(x, futmap)) for k, x in v.items()))
    if isinstance(v, (list, tuple)):
        return ('l', tuple(_val(x, futmap) for x in v))
    if callable(v):
        return 'fn'
    wid = futmap.get(id(v))
    if wid is not None:
        return ('obj', wid)
    return type(v).__name__


class Exec:
    """Fresh real objects for one case; do(event) applies one event; check()/check_final() judge."""

    def __init__(self, case, blob_dir):
        from lbry.blob.blob_file import BlobFile, BlobBuffer
        self.case = case
        self.content = case['content']
        self.n = len(self.content)
        self.hash = hashlib.sha384(self.content).hexdigest()
        self.is_file = case['cls'] == 'file'
        self.dir = blob_dir
        self.path = os.path.join(blob_dir, self.hash)
        self.loop = _loop_class()().activate()
        self.callbacks = []
        known = case.get('known_length', True)
        cls = BlobFile if self.is_file else BlobBuffer
        self.has_callback = bool(case.get('callback', True))
        self.blob = cls(self.loop, self.hash, self.n if known else None,
                        self._completed if self.has_callback else None, blob_dir)
        self.known = known
        self.late = bool(case.get('late_open'))
        self.caller_errors = []             # exceptions raised to the caller of write() (outside the oracle)
        self.nevents = 0
        self.prelude_obs = set()
        self.prelude_bad = None             # violation found in episode 1 / the between-episodes operation
        self.prelude_trace = []
        self.prelude_ws = []
        ep = case.get('episodes')
        if ep:
            self._run_prelude(ep)
        self._begin_episode(case['writers'], known, self.late)

    def _begin_episode(self, ws, known, late):
        """(Re)initialise the environment and the oracle's memory for one download episode on self.blob."""
        self.callbacks = []
        self.verified_at_start = self.blob.get_is_verified()   # carried over legitimately from an earlier episode
        self.k = len(ws)
        self.scripts = [tuple(w['chunks']) for w in ws]
        self.kinds = [w['kind'] for w in ws]
        self.L = [w.get('L') for w in ws]
        self.pos = [0] * self.k
        self.cum = [b''] * self.k           # what writer i has sent so far (harness view)
        self.sdone = [known] * self.k       # S(i) done (or not needed)
        self.opened = [False] * self.k
        self.refused = [False] * self.k     # get_blob_writer raised OSError (legitimate refusal)
        self.hit = [False] * self.k         # delivered a complete correct copy (oracle state)
        self.hit_order = []                 # writers in the order they hit
        self.open_at_first_hit = None       # writers that were open when the first copy was delivered
        self.ws = [None] * self.k
        self.length_conflict = False
        self.trace = []
        if not late:
            for i in range(self.k):
                self._open(i)

    def _run_prelude(self, ep):
        """Episode 1 (a complete download on a fixed schedule, judged by the same oracle) and the operation
        between the episodes.  Deterministic: it is re-executed, not explored."""
        writers, events = prelude_script(ep['prelude'], self.content)
        if self.blob.get_length() is None:
            self.blob.set_length(self.n)        # episode 1's header announces the right length
        self._begin_episode(writers, True, False)
        bad = self.check()
        for e in events:
            if bad is not None:
                break
            if e not in self.enabled():
                raise RuntimeError(f'C01 harness: prelude event {e} not enabled after {self.trace}')
            self.do(e)
            bad = self.check()
        mid = ep.get('mid')     # {'op': 'delete'|'close', 'pos': k}: the user aborts episode 1 after k more events
        aborted = False
        nafter = 0
        while bad is None:
            en = self.enabled()
            if mid and not aborted and (nafter >= mid['pos'] or not en):
                # fires between two loop iterations, after the first delivery and (when the tree still has that
                # many events) before episode 1 is quiescent
                if en:
                    self.prelude_obs.add('mid_download_op_fired_while_the_save_was_in_flight')
                (self.blob.delete if mid['op'] == 'delete' else self.blob.close)()
                aborted = True
                self.trace.append(f"<mid-{mid['op']}>")
                bad = self.check(aborted=True)
                continue
            if not en:
                if not aborted:
                    bad = self.check_final()
                    if bad is None and not self.blob.get_is_verified():
                        raise RuntimeError('C01 harness: prelude is supposed to deliver a complete correct copy')
                break
            self.do(en[0])
            nafter += 1
            # an episode the user aborted owes safety only (liveness is not demanded of it)
            bad = self.check(aborted=aborted)
        if aborted and bad is None and mid['op'] == 'delete':
            # outside the statement (it does not speak about a delete() racing with the save): observed, tallied
            present, _ = self.stored()
            if self.blob.get_is_verified():
                self.prelude_obs.add('interpretation_only:blob_verified_again_after_racing_delete'
                                     if present else 'interpretation_only:verified_flag_without_stored_bytes_after_racing_delete')
        self.prelude_trace = list(self.trace)
        self.prelude_ws = [w for w in self.ws if w is not None]
        if bad is not None:
            self.prelude_bad = ('episode1:' + bad[0], f'episode 1 ({ep["prelude"]}: {" ".join(self.trace)}): {bad[1]}')
            return
        op = ep['between']
        blob = self.blob
        if op == 'delete':
            blob.delete()
        elif op == 'read-once':
            with blob.reader_context() as r:
                data = r.read()
            if data != self.content:
                self.prelude_bad = ('episode1:readable-wrong-bytes', f'reader_context returned {data!r} after episode 1')
                return
        elif op == 'close':
            blob.close()
        elif op == 'unlink+delete':
            os.remove(self.path)        # the file disappears behind the blob object's back, then the owner cleans up
            blob.delete()
        else:
            raise ValueError(op)
        if self.known and blob.get_length() is None:
            blob.set_length(self.n)     # the next download announces the length again (as BlobManager.get_blob does)
        self.prelude_trace.append('<' + op + '>')
        while True:                      # let the loop settle (nothing is expected to be pending)
            en = [e for e in self.enabled() if e == 'STEP' or e[0] == 'J']
            if not en:
                break
            self.do(en[0])
            self.prelude_trace.append(en[0])

    # ---- environment callbacks ------------------------------------------------------------------
    def _completed(self, blob):
        self.callbacks.append(blob.blob_hash)

    def _open(self, i):
        try:
            self.ws[i] = self.blob.get_blob_writer(f'10.0.0.{i + 1}', PORT)
        except OSError:
            self.refused[i] = True
        self.opened[i] = True

    # ---- events ---------------------------------------------------------------------------------
    def enabled(self):
        """Canonical order (default schedule first): STEP, JD, JR, then O/S/W per writer."""
        ev = []
        loop = self.loop
        if loop._ready:
            ev.append('STEP')
        for j in loop.jobs:
            if j.state == 'ran':
                ev.append(f'JD{j.n}')
        for j in loop.jobs:
            if j.state == 'queued':
                ev.append(f'JR{j.n}')
        for i in range(self.k):
            if not self.opened[i]:
                ev.append(f'O{i}')
            elif self.refused[i]:
                continue
            elif not self.sdone[i]:
                ev.append(f'S{i}')
            elif self.pos[i] < len(self.scripts[i]):
                ev.append(f'W{i}')
        return ev

    def do(self, e):
        self.nevents += 1
        self.trace.append(e)
        c = e[0]
        if c == 'W' and e != 'STEP':
            i = int(e[1:])
            if not (self.opened[i] and not self.refused[i] and self.sdone[i] and self.pos[i] < len(self.scripts[i])):
                raise HarnessDivergence(f'{e} not enabled')
            chunk = self.scripts[i][self.pos[i]]
            self.pos[i] += 1
            w = self.ws[i]
            length_before = self.blob.get_length()
            try:
                w.write(chunk)
            except Exception as x:   # noqa - judged by the property: an exception to the writer's own caller
                self.caller_errors.append((e, type(x).__name__))   # is outside the oracle (DESIGN 4/C01)
            self.cum[i] += chunk
            if not self.hit[i] and self.cum[i] == self.content and length_before == self.n:
                # cumulative bytes equal the content exactly at a chunk boundary, under the announced
                # length n: writer i has delivered a complete correct copy.
                self.hit[i] = True
                self.hit_order.append(i)
                if self.open_at_first_hit is None:
                    self.open_at_first_hit = [j for j in range(self.k) if self.opened[j] and not self.refused[j]]
        elif e == 'STEP':
            if not self.loop._ready:
                raise HarnessDivergence('STEP not enabled')
            self.loop.step()
        elif c == 'S':
            i = int(e[1:])
            if self.sdone[i] or not self.opened[i] or self.refused[i]:
                raise HarnessDivergence(f'{e} not enabled')
            if self.blob.get_length() is not None and self.blob.get_length() != self.L[i]:
                self.length_conflict = True
            self.blob.set_length(self.L[i])
            self.sdone[i] = True
        elif c == 'J':
            n = int(e[2:])
            job = next((j for j in self.loop.jobs if j.n == n), None)
            if job is None or job.state != ('queued' if e[1] == 'R' else 'ran'):
                raise HarnessDivergence(f'{e} not enabled')
            if e[1] == 'R':
                self.loop.job_run(job)
            else:
                self.loop.job_done(job)
        elif c == 'O':
            i = int(e[1:])
            if self.opened[i]:
                raise HarnessDivergence(f'{e} not enabled')
            self._open(i)
        else:
            raise HarnessDivergence(f'unknown event {e}')

    # ---- observation ----------------------------------------------------------------------------
    def stored(self):
        """(present, bytes) of what the blob has stored: the file in the blob directory / the buffer."""
        if self.is_file:
            try:
                with open(self.path, 'rb') as f:
                    return True, f.read()
            except FileNotFoundError:
                return False, None
        vb = getattr(self.blob, '_verified_bytes', None)
        if vb is None:
            return False, None
        return True, (None if vb.closed else vb.getvalue())

    def check(self, aborted=False):
        """Safety invariant, every state.  Returns None or (kind, text).
        aborted: the user called delete()/close() in the middle of this episode; then only "nothing is verified,
        stored or called back unless a complete correct copy was delivered, and what is stored is the content"
        is demanded (a verified flag without a file, or a forgotten length, are the user's doing)."""
        blob = self.blob
        present, data = self.stored()
        verified = blob.get_is_verified()
        ncb = len(self.callbacks)
        if aborted and (verified or present or ncb):
            why = 'verified' if verified else ('stored' if present else 'callback')
            if present and data != self.content:
                return (f'{why}-with-wrong-bytes', f'{why} with stored bytes {data!r} != content {self.content!r}')
            if not any(self.hit):
                return (f'{why}-without-delivery', f'{why} although no writer delivered a complete correct copy')
        elif verified or present or ncb:
            why = 'verified' if verified else ('stored' if present else 'callback')
            if not present:
                return (f'{why}-without-stored-bytes', f'{why} although nothing is stored')
            if data != self.content:
                return (f'{why}-with-wrong-bytes',
                        f'{why} with stored bytes {data!r} != content {self.content!r}')
            if hashlib.sha384(data).hexdigest() != blob.blob_hash:
                return (f'{why}-with-wrong-bytes', 'sha384(stored) != blob hash')
            if verified and blob.get_length() != len(data):
                return ('verified-length-mismatch', f'verified with length {blob.get_length()} but {len(data)} bytes stored')
            if not any(self.hit) and not self.verified_at_start:
                return (f'{why}-without-delivery', f'{why} although no writer delivered a complete correct copy')
        if ncb > 1:
            return ('callback-twice', f'blob_completed_callback fired {ncb} times')
        for i, w in enumerate(self.ws):
            if w is None:
                continue
            f = w.finished
            if f.done() and not f.cancelled() and f.exception() is None:
                if not self.hit[i]:
                    return ('result-without-delivery',
                            f'writer {i} ({self.kinds[i]}) has finished.result() without having delivered a complete correct copy')
                if f.result() != self.content:
                    return ('result-wrong-bytes', f'writer {i} finished.result() = {f.result()!r}')
        if self.loop._scheduled:
            raise RuntimeError('C01 harness: unexpected timer (no timers in the blob writer path)')
        return None

    def check_final(self):
        """Liveness at quiescence.  Returns None or (kind, text)."""
        blob = self.blob
        for t in self.loop.tasks_created:
            if not t.done():
                return ('task-stuck', 'quiescent with a pending task')
        if not any(self.hit):
            return None
        if not blob.get_is_verified():
            return ('delivered-not-verified', f'writer {self.hit_order[0]} delivered a complete correct copy but the blob is not verified at quiescence')
        present, data = self.stored()
        if not present or data != self.content:
            return ('delivered-not-stored', 'verified at quiescence but stored bytes differ')
        if self.has_callback and not self.verified_at_start and len(self.callbacks) != 1:
            # "announced": tightened from a tally to a demand (the tally was 0 in every family of both tiers)
            return ('delivered-callback-not-fired',
                    f'blob verified by this download but blob_completed_callback fired {len(self.callbacks)} times in it')
        must = self.open_at_first_hit or []
        for i in must:
            w = self.ws[i]
            if not w.closed() or not w.finished.done():
                return ('writer-not-shut-down',
                        f'writer {i} ({self.kinds[i]}) not shut down at quiescence (closed={w.closed()}, future done={w.finished.done()})')
        # writers opened only after the first complete copy was delivered were not "pending" then: the
        # statement does not demand their shutdown (tallied by the explorer as interpretation-only)
        late_ids = {id(self.ws[i]) for i in range(self.k) if self.ws[i] is not None and i not in must}
        for wk, w in blob.writers.items():
            if id(w) not in late_ids:
                return ('writers-map-not-empty', f'writers map still holds {list(blob.writers)} at quiescence')
        return None

    def readable_final(self):
        """At quiescence, through the public reader API (destructive for BlobBuffer, so last)."""
        if not self.blob.get_is_verified():
            return None
        try:
            with self.blob.reader_context() as r:
                data = r.read()
        except Exception as x:   # noqa
            return ('verified-not-readable', f'reader_context raised {type(x).__name__}: {x}')
        if data != self.content:
            return ('readable-wrong-bytes', f'reader_context returned {data!r}')
        return None

    def outcome(self):
        return (self.blob.get_is_verified(), len(self.callbacks),
                tuple(None if w is None else _fut_state(w.finished) if not isinstance(_fut_state(w.finished), tuple) else 'R'
                      for w in self.ws))

    # ---- canonical state ------------------------------------------------------------------------
    def canon(self):
        """Canonical state.  Same-futures argument: what happens after a state depends only on
        (a) the implementation state: every attribute of the blob object and of every writer object
            (collected generically from __slots__/__dict__: events, length, writers-map keys in order,
            buffers, running hash digests, byte counters, future states), the ready queue (callback name
            + owner per handle, in order), every task created (done / waiting on what), every executor
            job (state), the stored bytes (file content / buffer);
        (b) the environment still to come: per writer the remaining chunks, its pending O/S events and L;
        (c) the oracle's memory: hit flags and order, writers open at first hit, callback count (of this
            episode), whether the blob has a completed-callback / was verified when the episode began, and
            whether the bytes sent so far are still a proper prefix of the content.
        An earlier episode on the same blob object (two-episode families) enters only through (a): whatever it
        left on the blob object, the loop, the tasks and the disk is part of the tuple.
        All three are in the tuple; the case identity is deliberately *not* (two cases that reach the
        same tuple have the same continuations), so states are shared between cases of one batch.
        Not included: object identities, the trace, exceptions already raised to callers (tallied only)."""
        loop = self.loop
        futmap = {}
        for i, w in enumerate(self.ws):
            if w is not None:
                futmap[id(w)] = f'w{i}'
                futmap[id(w.finished)] = f'f{i}'
        for n, t in enumerate(loop.tasks_created):
            futmap[id(t)] = f't{n}'
        for j in loop.jobs:
            futmap[id(j.fut)] = f'j{j.n}'
        futmap[id(self.blob)] = 'blob'
        wst = []
        for i, w in enumerate(self.ws):
            env = (self.scripts[i][self.pos[i]:], self.opened[i], self.refused[i], self.sdone[i],
                   None if self.sdone[i] else self.L[i], self.hit[i],
                   self.cum[i] if (len(self.cum[i]) < self.n and self.content.startswith(self.cum[i])) else 'X')
            if w is None:
                wst.append((env, None))
                continue
            attrs = tuple((k, _val(v, futmap)) for k, v in sorted(vars(w).items()) if k not in ('get_length', 'expected_blob_hash'))
            wst.append((env, attrs, w.closed()))
        blob = self.blob
        battrs = []
        for cls in type(blob).__mro__:
            for s in getattr(cls, '__slots__', ()):
                if s in ('loop', 'blob_completed_callback', 'blob_directory', 'added_on', 'blob_hash'):
                    continue
                battrs.append((s, _val(getattr(blob, s, None), futmap)))
        for k, v in sorted(getattr(blob, '__dict__', {}).items()):
            if k != 'file_path':
                battrs.append((k, _val(v, futmap)))
        ready = []
        for h in loop._ready:
            if h._cancelled:
                continue
            cb = h._callback
            name = getattr(cb, '__qualname__', None) or type(cb).__name__
            owner = futmap.get(id(getattr(cb, '__self__', None)), '')
            ready.append((name, owner, tuple(_val(a, futmap) for a in (h._args or ()))))
        tasks = []
        for t in loop.tasks_created:
            fw = getattr(t, '_fut_waiter', None)
            tasks.append((t.get_coro().__qualname__ if t.get_coro() is not None else '', _fut_state(t),
                          None if fw is None else (futmap.get(id(fw), '?'), fw.done())))
        jobs = tuple((j.n, j.state, j.fut.cancelled()) for j in loop.jobs)
        return (self.case['cls'], self.hash[:8], self.known, self.has_callback, self.verified_at_start, loop._job_counter,
                tuple(wst), tuple(battrs), tuple(ready), tuple(tasks),
                jobs, self.stored(), len(self.callbacks), tuple(self.hit_order),
                None if self.open_at_first_hit is None else tuple(self.open_at_first_hit))

    # ---- teardown -------------------------------------------------------------------------------
    def close(self):
        try:
            self.blob.close()
            for w in list(self.ws) + self.prelude_ws:
                if w is not None:
                    w.close_handle()
            for t in self.loop.tasks_created:
                if t.done() and not t.cancelled():
                    t.exception()
                elif not t.done():
                    t.cancel()
            for j in self.loop.jobs:
                j.fut.cancel()
            vb = getattr(self.blob, '_verified_bytes', None)
            if vb is not None:
                self.blob._verified_bytes = None
        finally:
            self.loop.shutdown()
            if self.is_file:
                try:
                    os.remove(self.path)
                except FileNotFoundError:
                    pass


# ================================================================================================
# explorer: DFS over event prefixes, re-execution from scratch, canonical-state hashing
# ================================================================================================

def _kclass(kind):
    return kind.rstrip('0123456789')


def family_of(case):
    if case.get('episodes'):
        mid = case['episodes'].get('mid')
        if mid:
            return 'episode2-after-mid-download-' + mid['op']
        return 'episode2-after-' + case['episodes']['between']
    if case.get('late_open'):
        return 'late-open'
    return 'known-length' if case.get('known_length', True) else 'unknown-length'


def signature(case, bad_kind, culprit=None):
    """violated clause x blob class x family (x script class of the implicated writer, when there is one)."""
    sig = {'kind': bad_kind, 'cls': case['cls'], 'family': family_of(case)}
    if culprit is not None:
        sig['culprit'] = _kclass(case['writers'][culprit]['kind'])
    if not case.get('callback', True):
        sig['callback'] = False
    return sig


def case_json(case):
    return {'cls': case['cls'], 'content': case['content'].hex(), 'known_length': case.get('known_length', True),
            'late_open': bool(case.get('late_open')), 'callback': bool(case.get('callback', True)),
            'episodes': case.get('episodes'),
            'writers': [{'kind': w['kind'], 'chunks': [c.hex() for c in w['chunks']], 'L': w.get('L')} for w in case['writers']]}


def case_from_json(d):
    return {'cls': d['cls'], 'content': bytes.fromhex(d['content']), 'known_length': d.get('known_length', True),
            'late_open': bool(d.get('late_open')), 'callback': bool(d.get('callback', True)), 'episodes': d.get('episodes'),
            'writers': [{'kind': w['kind'], 'chunks': tuple(bytes.fromhex(c) for c in w['chunks']), 'L': w.get('L')}
                        for w in d['writers']]}


def case_key(case):
    """Identity of a case up to the order of its writers (multiset of scripts)."""
    ep = case.get('episodes') or {}
    return (case['cls'], case['content'], case.get('known_length', True), bool(case.get('late_open')),
            bool(case.get('callback', True)), ep.get('prelude'), ep.get('between'),
            tuple(sorted((ep.get('mid') or {}).items())),
            tuple(sorted((w['kind'], w['chunks'], w.get('L') or 0) for w in case['writers'])))


def is_nontrivial(case):
    """>= 2 writers (every interleaving of them is explored, so they overlap) or a misbehaving writer."""
    return len(case['writers']) >= 2 or any(is_misbehaving(w['kind']) for w in case['writers']) \
        or not case.get('known_length', True) or bool(case.get('episodes'))


def _culprit_of(text):
    import re
    m = re.match(r'writer (\d+) ', text)
    return int(m.group(1)) if m else None


def _witness(ex, res):
    """Non-vacuity facts, evaluated on every newly reached state."""
    blob = ex.blob
    nres = 0
    for i, w in enumerate(ex.ws):
        if w is None:
            if ex.refused[i]:
                res.witness('late_open_refused')
            continue
        f = w.finished
        if f.done():
            if f.cancelled():
                if ex.pos[i] < len(ex.scripts[i]) or ex.kinds[i].startswith('trunc'):
                    res.witness('pending_writer_cancelled_by_winner')
            elif f.exception() is None:
                nres += 1
                if _kclass(ex.kinds[i]) == 'long':
                    res.witness('overlong_peer_on_chunk_boundary_wins')
            else:
                name = type(f.exception()).__name__
                if name == 'InvalidDataError':
                    res.witness('overlength_write_refused')
                    if ex.cum[i].startswith(ex.content):
                        res.witness('straddling_chunk_of_correct_prefix_refused')
                elif name == 'InvalidBlobHashError':
                    res.witness('hash_mismatch_refused')
    if nres >= 2 and not blob.writing.is_set() and not blob.get_is_verified():
        res.witness('two_writers_completed_before_any_callback_ran')
    if nres >= 2:
        res.witness('two_writers_hold_a_result')
    if ex.is_file and not blob.get_is_verified() and os.path.exists(ex.path):
        res.witness('file_on_disk_before_verified_event')
    if ex.length_conflict:
        res.witness('conflicting_set_length_ignored')


def explore(case, blob_dir, res, visited, use_hash=True, collect=None, record_states=True):
    """All interleavings of one case.  visited: set of state digests shared by the caller (per batch).
    collect: optional dict to receive {'states': set, 'outcomes': set, 'first': trace, 'last': trace}."""
    digest = sdigest
    stack = [()]
    cj = None
    nviol = 0
    seen_local = set()
    while stack:
        prefix = stack.pop()
        ex = Exec(case, blob_dir)
        try:
            if ex.prelude_bad is not None:
                # episode 1 or the between-episodes operation already broke the invariant (deterministic prelude)
                res.violation(signature(case, ex.prelude_bad[0]), f'{ex.prelude_bad[1]} [{describe(case)}]',
                              {'case': case_json(case), 'events': [], 'expect': ex.prelude_bad[0]})
                res.count('violating_states')
                break
            for e in prefix:
                ex.do(e)
            if prefix:
                res.count('replayed_events', len(prefix) - 1)
                res.count('transitions')
            elif ex.prelude_trace:
                res.count('prelude_events', len(ex.prelude_trace))
                for o in ex.prelude_obs:
                    (res.tally if o.startswith('interpretation_only') else res.witness)(o)
                if not ex.verified_at_start:
                    res.witness('episode2_starts_unverified_after_a_completed_download')
                if ex.verified_at_start:
                    res.witness('episode2_starts_on_a_still_verified_blob')
            path = list(prefix)
            while True:
                bad = ex.check()
                final = False
                if bad is None:
                    c = ex.canon()
                    d = digest(c)
                    if collect is not None and collect.get('states') is not None:
                        collect['states'].add(d)
                    if use_hash:
                        if d in visited:
                            res.count('pruned_revisits')
                            break
                        visited.add(d)
                        isnew = True
                    else:
                        isnew = d not in seen_local
                        seen_local.add(d)
                    if isnew:
                        if record_states:
                            res.distinct['states'].add(d)       # == res.distinct_add('states', c)
                        _witness(ex, res)
                    en = ex.enabled()
                    if not en:
                        final = True
                        bad = ex.check_final() or ex.readable_final()
                if bad is not None:
                    nviol += 1
                    if cj is None:
                        cj = case_json(case)
                    res.violation(signature(case, bad[0], _culprit_of(bad[1])), f'{bad[1]} [{describe(case)}; after {" ".join(path)}]',
                                  {'case': cj, 'events': list(path), 'expect': bad[0]})
                    res.count('violating_states')
                    if final:
                        res.count('executions')
                    break
                if final:
                    res.count('executions')
                    res.setmax('max_trace_len', len(path))
                    if ex.caller_errors:
                        res.tally('outside_oracle:executions_with_exception_raised_to_writers_own_caller')
                        for _, name in ex.caller_errors:
                            res.tally(f'outside_oracle:caller_saw_{name}')
                    for ctx_ in ex.loop.exc_contexts:
                        # an exception that escaped a loop callback is logged by asyncio, nothing more; its
                        # consequences (if any) are what the oracle judges
                        res.tally('outside_oracle:loop_exception_handler:' + type(ctx_.get('exception')).__name__)
                    if ex.prelude_trace and any(ex.hit) and not ex.verified_at_start:
                        res.witness('blob_verified_again_in_episode2')
                    if any(ex.hit) and any(w is not None and not w.finished.done() for w in ex.ws):
                        res.tally('interpretation_only:writer_opened_after_delivery_left_pending')
                    o = ex.outcome()
                    res.distinct_add('outcomes', o)
                    if collect is not None:
                        collect['outcomes'].add(o)
                        if collect.get('first') is None:
                            collect['first'] = list(path)
                        collect['last'] = list(path)
                    break
                for alt in reversed(en[1:]):
                    stack.append(tuple(path) + (alt,))
                ex.do(en[0])
                path.append(en[0])
                res.count('transitions')
        finally:
            ex.close()
        if nviol >= 25:          # enough counterexamples for this case; the rest of its space is skipped
            res.count('cases_cut_short_after_25_violations')
            res.count('capped')
            break


def describe(case):
    ws = ', '.join(f"{w['kind']}:{'|'.join(c.hex() for c in w['chunks'])}" + (f"@L={w['L']}" if w.get('L') is not None else '')
                   for w in case['writers'])
    ep = case.get('episodes')
    extra = ''
    if ep:
        mid = ep.get('mid')
        extra = f" (episode 1: {ep['prelude']}" + (f", {mid['op']}() after {mid['pos']} more events" if mid else '') + ')'
    extra += '' if case.get('callback', True) else ' no-callback'
    return f"{case['cls']} n={len(case['content'])} {family_of(case)}{extra} writers=[{ws}]"


def run_trace(case, events, blob_dir, complete=False):
    """Re-execute one recorded event sequence without the explorer.  Returns (violation or None, log).
    complete: when the recorded events do not end in a quiescent state (on another tree), continue on the
    default schedule to quiescence so that the liveness clause is judged too."""
    digest = sdigest
    ex = Exec(case, blob_dir)
    log = []
    bad = None
    try:
        if ex.prelude_trace or ex.prelude_bad:
            log.append(('episode 1 + between-op', ' '.join(ex.prelude_trace), ex.prelude_bad[0] if ex.prelude_bad else 'ok'))
        bad = ex.prelude_bad or ex.check()
        log.append(('init', digest(ex.canon()).hex() if bad is None else bad[0]))
        for e in events:
            if bad is not None:
                break
            if e not in ex.enabled():
                raise HarnessDivergence(f'event {e} not enabled after {ex.trace}; enabled: {ex.enabled()}')
            ex.do(e)
            bad = ex.check()
            log.append((e, digest(ex.canon()).hex() if bad is None else bad[0],
                        f'verified={ex.blob.get_is_verified()} stored={ex.stored()} callbacks={len(ex.callbacks)} '
                        f'futures={[None if w is None else _fut_state(w.finished) for w in ex.ws]}'))
        while complete and bad is None and ex.enabled():
            e = ex.enabled()[0]
            ex.do(e)
            bad = ex.check()
            log.append((e + ' (default schedule)', digest(ex.canon()).hex() if bad is None else bad[0],
                        f'verified={ex.blob.get_is_verified()} stored={ex.stored()} callbacks={len(ex.callbacks)}'))
        if bad is None and not ex.enabled():
            bad = ex.check_final() or ex.readable_final()
            log.append(('quiescent', bad[0] if bad else 'ok'))
    finally:
        ex.close()
    return bad, log


# ================================================================================================
# families of cases (the bounded spaces), batches, workers
# ================================================================================================

def fam(name, cls, n, k, chunking, mode='known', order='multiset', batch=100, maxchunks=None, big=False,
        callback=True, prelude=None, between=None, mid=None):
    """big: the family's distinct-state digests are not shipped to the parent (tens of millions); its states
    are counted per batch instead (sum over batches of the distinct states visited inside the batch)."""
    return {'name': name, 'cls': cls, 'n': n, 'k': k, 'chunking': chunking, 'mode': mode, 'order': order, 'batch': batch,
            'maxchunks': maxchunks, 'big': big, 'callback': callback,
            'episodes': ({'prelude': prelude, 'between': between, 'mid': mid} if mid else
                         {'prelude': prelude, 'between': between}) if prelude else None}


def alphabet_of(f):
    """Per-writer alphabet of a family: list of writer dicts."""
    content = content_for(f['n'])
    out = []
    for kind, chunks in scripts_for(content, f['chunking']):
        if f['mode'] == 'unknown':
            for L in (f['n'], f['n'] - 1, f['n'] + 1):
                out.append({'kind': kind, 'chunks': chunks, 'L': L})
        else:
            out.append({'kind': kind, 'chunks': chunks})
    return out


def cases_of(f, lo=0, hi=None):
    content = content_for(f['n'])
    alpha = alphabet_of(f)
    idx = range(len(alpha))
    it = itertools.product(idx, repeat=f['k']) if f['order'] == 'ordered' else \
        itertools.combinations_with_replacement(idx, f['k'])
    mc = f.get('maxchunks')
    for combo in itertools.islice(it, lo, hi):
        if mc is not None and sum(len(alpha[i]['chunks']) for i in combo) > mc:
            continue        # outside this (cross-check) sub-space by definition: too many chunks in total
        yield {'cls': f['cls'], 'content': content, 'known_length': f['mode'] != 'unknown',
               'late_open': f['mode'] == 'late', 'callback': f.get('callback', True), 'episodes': f.get('episodes'),
               'writers': [alpha[i] for i in combo]}


def count_cases(f):
    import math
    a = len(alphabet_of(f))
    return a ** f['k'] if f['order'] == 'ordered' else math.comb(a + f['k'] - 1, f['k'])


# events of the default schedule between the last write of the solo/race fixtures and quiescence of episode 1:
# BlobBuffer STEP STEP STEP; BlobFile STEP STEP JR JD STEP STEP.  Position k = after k of them (0 = right after
# the delivering write(s), before any callback ran).
MID_POSITIONS = {'buffer': 3, 'file': 6}
BETWEEN_OPS = {'file': ('delete', 'close', 'unlink+delete'), 'buffer': ('delete', 'read-once', 'close')}


def episode_families(tier, cls):
    """Two-episode families: episode 1 (prelude) downloads the blob to completion on the same blob object, a
    between-episodes operation follows, episode 2 is explored exhaustively.  With and without a completed-callback."""
    F = []
    q = tier == 'quick'
    for cb in (True, False):
        if not cb:      # single-episode families all run with a callback; this one covers the branch without
            F.append(fam('pairs-n3-w[nocb]', cls, 3, 2, 'w', batch=100, callback=False))
        for pre in PRELUDES:
            for op in BETWEEN_OPS[cls]:
                tag = f"[{pre}/{op}/{'cb' if cb else 'nocb'}]"
                kw = dict(callback=cb, prelude=pre, between=op)
                F.append(fam('ep2-single-n3' + tag, cls, 3, 1, 'ws' if q else 'all', batch=400, **kw))
                F.append(fam('ep2-pairs-n3' + tag, cls, 3, 2, 'w' if q else 'ws-', batch=90, **kw))
                F.append(fam('ep2-pairs-n1' + tag, cls, 1, 2, 'all', batch=100, **kw))
                if not q and op in ('delete', 'unlink+delete'):
                    # the length is forgotten by delete(): episode 2 announces it again per writer, rightly or wrongly
                    F.append(fam('ep2-unknown-pairs-n3' + tag, cls, 3, 2, 'w', mode='unknown', batch=250, **kw))
        # the user aborts episode 1 in the middle: delete()/close() as an event at every position between the
        # first delivery and the quiescence of episode 1 (loop iterations, job run, job done), then - with nothing
        # in flight any more - a plain delete(), the length is announced again and episode 2 is explored
        for pre in (('solo', 'race') if (cb or not q) else ('solo',)):      # quick: no-callback blobs on solo only
            for op in ('delete', 'close'):
                for pos in range(MID_POSITIONS[cls]):
                    tag = f"[{pre}/{op}@{pos}/{'cb' if cb else 'nocb'}]"
                    kw = dict(callback=cb, prelude=pre, between='delete', mid={'op': op, 'pos': pos})
                    F.append(fam('ep2mid-single-n3' + tag, cls, 3, 1, 'w' if q else 'all', batch=400, **kw))
                    F.append(fam('ep2mid-pairs-n1' + tag, cls, 1, 2, 'w' if q else 'all', batch=100, **kw))
                    if not q:
                        F.append(fam('ep2mid-pairs-n3' + tag, cls, 3, 2, 'ws-', batch=90, **kw))
    return F


def group_of(f):
    return f['name'].split('[')[0]


def families(tier):
    F = []
    both = ('buffer', 'file')
    for cls in both:
        F += episode_families(tier, cls)
    if tier == 'quick':
        for cls in both:
            for n in (1, 3, 4):
                F.append(fam(f'single-n{n}', cls, n, 1, 'all', batch=400))
            F.append(fam('pairs-n1', cls, 1, 2, 'all', order='ordered', batch=100))
            F.append(fam('triples-n1', cls, 1, 3, 'all', batch=40))
            F.append(fam('pairs-n3-all', cls, 3, 2, 'all', batch=130))
            F.append(fam('triples-n3-q3', cls, 3, 3, 'q3', batch=25))
            F.append(fam('unknown-single-n3', cls, 3, 1, 'all', mode='unknown', batch=400))
            F.append(fam('unknown-pairs-n1', cls, 1, 2, 'all', mode='unknown', batch=150))
            F.append(fam('unknown-pairs-n3-ws', cls, 3, 2, 'ws', mode='unknown', batch=100))
            F.append(fam('late-pairs-n3-ws', cls, 3, 2, 'ws', mode='late', batch=60))
    else:
        for cls in both:
            for n in (1, 3, 4):
                F.append(fam(f'single-n{n}', cls, n, 1, 'all', batch=400))
                F.append(fam(f'unknown-single-n{n}', cls, n, 1, 'all', mode='unknown', batch=400))
            F.append(fam('pairs-n1', cls, 1, 2, 'all', order='ordered', batch=100))
            F.append(fam('triples-n1', cls, 1, 3, 'all', order='ordered', batch=128))
            F.append(fam('pairs-n3-all', cls, 3, 2, 'all', order='ordered', batch=256))
            F.append(fam('pairs-n4-all', cls, 4, 2, 'all', batch=200, big=True))
            F.append(fam('triples-n3-all-', cls, 3, 3, 'all-', batch=60, big=True))
            F.append(fam('triples-n4-ws-', cls, 4, 3, 'ws-', batch=20, big=True))
            F.append(fam('unknown-pairs-n1', cls, 1, 2, 'all', mode='unknown', batch=150))
            F.append(fam('unknown-triples-n1', cls, 1, 3, 'all', mode='unknown', batch=100))
            F.append(fam('unknown-pairs-n3-all', cls, 3, 2, 'all', mode='unknown', batch=300, big=True))
            F.append(fam('unknown-triples-n3-w', cls, 3, 3, 'w', mode='unknown', batch=100, big=True))
            F.append(fam('late-pairs-n3-all', cls, 3, 2, 'all', mode='late', batch=100))
            F.append(fam('late-triples-n3-w', cls, 3, 3, 'w', mode='late', batch=10))
    return F


def xcheck_families(tier):
    """Sub-spaces explored twice - with state hashing and stateless - and compared."""
    F = []
    q = tier == 'quick'
    for cls in ('buffer', 'file'):
        # maxchunks bounds the total number of chunks of a case: the stateless enumeration grows like the
        # multinomial coefficient of the chunk counts (two 6-chunk writers alone are 142 800 executions)
        F.append(fam('x-pairs-n3-ws', cls, 3, 2, 'ws', batch=20, maxchunks=5 if q else 7))
        F.append(fam('x-triples-n1', cls, 1, 3, 'all', batch=20 if q else 6, maxchunks=3 if q else 5))
        F.append(fam('x-unknown-pairs-n1', cls, 1, 2, 'all', mode='unknown', batch=60, maxchunks=3 if q else 4))
        F.append(fam('x-ep2-pairs-n1[race/delete/cb]', cls, 1, 2, 'all', batch=40, maxchunks=3 if q else 4,
                     prelude='race', between='delete'))
        F.append(fam('x-ep2-pairs-n1[loser/close/nocb]', cls, 1, 2, 'all', batch=40, maxchunks=3 if q else 4,
                     callback=False, prelude='loser', between='close'))
        if not q:
            F.append(fam('x-late-pairs-n3-ws', cls, 3, 2, 'ws', mode='late', batch=20, maxchunks=4))
            F.append(fam('x-pairs-n3-all', cls, 3, 2, 'all', batch=100, maxchunks=5))
            F.append(fam('x-triples-n3-ws', cls, 3, 3, 'ws', batch=60, maxchunks=4))
    return F


def _dir():
    from vf.bootstrap import scratch_dir
    return scratch_dir('c01')


def _selfcheck_trace(case, events, expect_bad, blob_dir, res):
    """Determinism: replay a recorded event sequence twice; logs and verdict must agree."""
    a = run_trace(case, events, blob_dir)
    b = run_trace(case, events, blob_dir)
    res.count('determinism_replays', 2)
    if a[1] != b[1] or (a[0] is None) != (b[0] is None):
        res.error(f'C01 determinism: two replays of {describe(case)} / {events} differ')
    got = a[0][0] if a[0] else None
    if got != expect_bad:
        res.error(f'C01 determinism: replay verdict {got!r} != explored verdict {expect_bad!r} for {describe(case)} / {events}')


def work_batch(item, res):
    """One batch of consecutive cases of a family; the visited-state set is shared inside the batch."""
    import shutil
    f, lo, hi, want_sample = item
    d = _dir()
    t0 = time.process_time()
    try:
        visited = set()
        col = {'states': None, 'outcomes': set(), 'first': None, 'last': None}
        first_case = last_case = None
        seen_viol = set(res.violations)
        for case in cases_of(f, lo, hi):
            res.count('evaluations')
            res.count(f"cases:{group_of(f)}:{f['cls']}")
            if is_nontrivial(case):
                res.distinct_add('nontrivial', case_key(case))
            had_last = col['last']
            col['last'] = None
            explore(case, d, res, visited, True, col, record_states=not f.get('big'))
            if col['last'] is not None:
                last_case = case
                if first_case is None:
                    first_case = (case, col['first'])
            else:
                col['last'] = had_last
            if want_sample and col['first'] is not None and len(res.samples) < 2:
                res.sample({'family': f['name'], 'case': describe(case), 'one_complete_trace': col['last']})
        res.count('states_batch_sum', len(visited))
        if f.get('big'):
            res.count('states_big_families_batch_sum', len(visited))
        if first_case is not None:
            _selfcheck_trace(first_case[0], first_case[1], None, d, res)
            _selfcheck_trace(last_case, col['last'], None, d, res)
        for k, v in res.violations.items():
            if k not in seen_viol:
                _selfcheck_trace(case_from_json(v['replay']['case']), v['replay']['events'], v['replay']['expect'], d, res)
    finally:
        shutil.rmtree(d, ignore_errors=True)
        res.count(f"cpu_ms:{group_of(f)}", int((time.process_time() - t0) * 1000))


def work_xcheck(item, res):
    """Same cases explored with state hashing (fresh visited set per case) and stateless; the sets of
    canonical states reached, the sets of final outcomes and the verdicts must be identical.  This tests
    the same-futures argument of Exec.canon on the implementation itself."""
    import shutil
    from vf.core import Result
    f, lo, hi, _ = item
    d = _dir()
    t0 = time.process_time()
    try:
        for case in cases_of(f, lo, hi):
            res.count('evaluations')
            ra, rb = Result(), Result()
            ca = {'states': set(), 'outcomes': set(), 'first': None, 'last': None}
            cb = {'states': set(), 'outcomes': set(), 'first': None, 'last': None}
            explore(case, d, ra, set(), True, ca)
            explore(case, d, rb, None, False, cb)
            res.count('xcheck_cases')
            res.count('xcheck_stateless_executions', rb.counters['executions'])
            res.count('xcheck_hashed_executions', ra.counters['executions'])
            if ra.violations or rb.violations:
                # a violating case is cut short (25 counterexamples) at different points by the two searches;
                # the comparison is only meaningful on violation-free cases.  The findings are kept below.
                res.count('xcheck_cases_not_compared_because_violating')
            elif ca['states'] != cb['states'] or ca['outcomes'] != cb['outcomes']:
                res.error(f'C01 state-hashing cross-check failed for {describe(case)}: hashed {len(ca["states"])} states / '
                          f'{len(ca["outcomes"])} outcomes / {len(ra.violations)} violation signatures, stateless '
                          f'{len(cb["states"])} / {len(cb["outcomes"])} / {len(rb.violations)}')
            # the stateless run is a full enumeration on the implementation: keep its numbers and findings
            rb.distinct.pop('states', None)
            res.merge(rb)
            res.distinct['states'] |= ca['states']
            if is_nontrivial(case):
                res.distinct_add('nontrivial', case_key(case))
    finally:
        shutil.rmtree(d, ignore_errors=True)
        res.count(f"cpu_ms:{f['name']}", int((time.process_time() - t0) * 1000))


def work(item, res):
    if item[0] == 'batch':
        work_batch(item[1:], res)
    elif item[0] == 'xcheck':
        work_xcheck(item[1:], res)
    elif item[0] == 'single':
        work_single(item[1], res)
    else:
        raise ValueError(item)


# ================================================================================================
# boundary singles at MAX_BLOB_SIZE (default schedule, safety checked in every state)
# ================================================================================================

SINGLES = [
    # name, cls, writers (kind, chunk size or None = one chunk), expectation
    ('max-ok-1chunk', 'file', [('ok', None)], 'verified'),
    ('max-ok-64k', 'file', [('ok', 65536)], 'verified'),
    ('max-ok-1chunk', 'buffer', [('ok', None)], 'verified'),
    ('max-ok-64k', 'buffer', [('ok', 65536)], 'verified'),
    ('max-lastbit-1chunk', 'file', [('bit_last', None)], 'refused'),
    ('max-lastbit-64k', 'file', [('bit_last', 65536)], 'refused'),
    ('max-firstbit-64k', 'buffer', [('bit_first', 65536)], 'refused'),
    ('max-midbit-1chunk', 'buffer', [('bit_mid', None)], 'refused'),
    ('max-long1-1chunk', 'file', [('long1', None)], 'refused'),
    ('max-long1-64k', 'file', [('long1', 65536)], 'verified'),      # first 2 MiB land on a chunk boundary
    ('max-short1-64k', 'file', [('short1', 65536)], 'refused'),
    ('max-ok-vs-lastbit-64k', 'file', [('bit_last', 65536), ('ok', 65536)], 'verified'),
    ('max-ok-vs-lastbit-64k', 'buffer', [('ok', 65536), ('bit_last', 65536)], 'verified'),
    ('max-unknown-then-set', 'file', 'setlen', 'verified'),
    ('len0-known', 'file', 'len0', 'refused'),
    ('len0-known', 'buffer', 'len0', 'refused'),
]


def _big_content():
    from lbry.blob import MAX_BLOB_SIZE
    return hashlib.shake_256(b'C01 boundary content').digest(MAX_BLOB_SIZE)


def _chunks(b, size):
    return (b,) if size is None else tuple(b[i:i + size] for i in range(0, len(b), size))


def _single_case(name, cls, spec):
    content = _big_content()
    n = len(content)
    ws = []
    for kind, size in spec:
        if kind == 'ok':
            data = content
        elif kind == 'bit_last':
            data = content[:-1] + bytes([content[-1] ^ 1])
        elif kind == 'bit_first':
            data = bytes([content[0] ^ 0x80]) + content[1:]
        elif kind == 'bit_mid':
            data = content[:n // 2] + bytes([content[n // 2] ^ 0x10]) + content[n // 2 + 1:]
        elif kind == 'long1':
            data = content + b'\x00'
        elif kind == 'short1':
            data = content[:-1]
        else:
            raise ValueError(kind)
        ws.append({'kind': 'ok' if kind == 'ok' else ('long1' if kind == 'long1' else 'flip0'), 'chunks': _chunks(data, size)})
    return {'cls': cls, 'content': content, 'known_length': True, 'writers': ws}


def run_single(name, cls, spec, expect, blob_dir):
    """Returns (bad or None, log lines).  Round-robin over the writers, loop settled after every chunk
    (default schedule); the safety invariant is evaluated after every event."""
    from lbry.blob import MAX_BLOB_SIZE
    from lbry.blob.blob_file import BlobFile, BlobBuffer
    log = []
    if spec == 'len0':
        loop = _loop_class()().activate()
        try:
            h = hashlib.sha384(b'').hexdigest()
            fired = []
            blob = (BlobFile if cls == 'file' else BlobBuffer)(loop, h, 0, lambda b: fired.append(1), blob_dir)
            w = blob.get_blob_writer('10.0.0.1', PORT)
            try:
                w.write(b'')
                log.append('write(b"") returned')
            except OSError as e:
                log.append(f'write(b"") raised OSError({e})')
            loop.settle()
            present = os.path.exists(os.path.join(blob_dir, h))
            log.append(f'verified={blob.get_is_verified()} file={present} callbacks={len(fired)} future={_fut_state(w.finished)}')
            bad = None
            # n = 0 is outside the statement (0 < n); only "nothing wrong is stored" is demanded
            if present and open(os.path.join(blob_dir, h), 'rb').read() != b'':
                bad = ('stored-with-wrong-bytes', 'length-0 blob stored with non-empty bytes')
            blob.close()
            w.close_handle()
            return bad, log, {'len0_verified': blob.get_is_verified()}
        finally:
            loop.shutdown()
            try:
                os.remove(os.path.join(blob_dir, hashlib.sha384(b'').hexdigest()))
            except FileNotFoundError:
                pass
    if spec == 'setlen':
        content = _big_content()
        case = {'cls': cls, 'content': content, 'known_length': False,
                'writers': [{'kind': 'ok', 'chunks': _chunks(content, 65536), 'L': MAX_BLOB_SIZE}]}
        ex = Exec(case, blob_dir)
        try:
            for L in (MAX_BLOB_SIZE + 1, -1):
                ex.blob.set_length(L)
                if ex.blob.get_length() is not None:
                    return ('set-length-bound', f'set_length({L}) accepted'), log, {}
                log.append(f'set_length({L}) refused')
            try:
                ex.ws[0].write(content[:1])
                return ('write-without-length', 'write accepted while the length is unknown'), log, {}
            except OSError:
                log.append('write with unknown length raised OSError')
            # the refused write above never reached the writer; start over with the real script
            bad = _default_schedule(ex, log)
            ex.blob.set_length(5)
            if ex.blob.get_length() != MAX_BLOB_SIZE:
                bad = bad or ('set-length-overrides', 'set_length changed an established length')
            return _expect(ex, bad, expect), log, {}
        finally:
            ex.close()
    case = _single_case(name, cls, spec)
    ex = Exec(case, blob_dir)
    try:
        bad = _default_schedule(ex, log)
        return _expect(ex, bad, expect), log, {}
    finally:
        ex.close()


def _default_schedule(ex, log):
    bad = ex.check()
    while bad is None:
        en = ex.enabled()
        if not en:
            ex.verified_at_quiescence = ex.blob.get_is_verified()   # reader_context of BlobBuffer consumes it
            bad = ex.check_final() or ex.readable_final()
            break
        # settle the loop first (STEP/JD/JR come first in canonical order), then the writer that is
        # furthest behind (round robin)
        loopev = [e for e in en if e[0] in 'SJ']
        if loopev:
            e = loopev[0]
        else:
            e = min((x for x in en if x[0] == 'W'), key=lambda x: (ex.pos[int(x[1:])], int(x[1:])))
        ex.do(e)
        bad = ex.check()
    log.append(f'{ex.nevents} events; verified={ex.blob.get_is_verified()} callbacks={len(ex.callbacks)} '
               f'futures={[("R" if isinstance(_fut_state(w.finished), tuple) else _fut_state(w.finished)) for w in ex.ws]} '
               f'caller_errors={sorted(set(n for _, n in ex.caller_errors))}')
    return bad


def _expect(ex, bad, expect):
    if bad is not None:
        return bad
    v = ex.verified_at_quiescence
    if expect == 'verified' and not v:
        return ('boundary-not-verified', 'correct 2 MiB copy delivered but blob not verified')
    if expect == 'refused' and v:
        return ('boundary-verified', 'blob verified although no correct copy was delivered')
    return None


def work_single(idx, res):
    import shutil
    name, cls, spec, expect = SINGLES[idx]
    d = _dir()
    try:
        res.count('evaluations')
        res.count('boundary_singles')
        bad, log, extra = run_single(name, cls, spec, expect, d)
        bad2, log2, _ = run_single(name, cls, spec, expect, d)
        res.count('determinism_replays', 1)
        res.count('executions', 2)
        if log != log2 or (bad is None) != (bad2 is None):
            res.error(f'C01 determinism: boundary single {name}/{cls} differs between two runs')
        if extra.get('len0_verified'):
            res.tally('outside_statement:length_0_blob_verified')
        if spec == 'len0':
            res.tally('outside_statement:length_0_blob_cases')
        res.distinct_add('nontrivial', ('single', name, cls))
        res.witness('boundary_2MiB_executed' if spec != 'len0' else 'length_0_executed')
        if bad is not None:
            res.violation({'kind': bad[0], 'cls': cls, 'family': 'boundary', 'single': name}, f'{bad[1]} [{name}/{cls}]',
                          {'single': idx, 'name': name, 'cls': cls, 'expect': bad[0]})
    finally:
        shutil.rmtree(d, ignore_errors=True)


# ================================================================================================
# entry points
# ================================================================================================

EXPECTED_WITNESSES = [
    'episode2_starts_unverified_after_a_completed_download', 'episode2_starts_on_a_still_verified_blob',
    'blob_verified_again_in_episode2', 'mid_download_op_fired_while_the_save_was_in_flight',
    'two_writers_completed_before_any_callback_ran', 'pending_writer_cancelled_by_winner',
    'overlong_peer_on_chunk_boundary_wins', 'straddling_chunk_of_correct_prefix_refused',
    'hash_mismatch_refused', 'overlength_write_refused', 'file_on_disk_before_verified_event',
    'conflicting_set_length_ignored', 'late_open_refused', 'boundary_2MiB_executed',
]


def run(ctx):
    tier = ctx.tier
    items = []
    fams = families(tier)
    total_cases = 0
    for f in fams:
        nc = count_cases(f)
        total_cases += nc
        first = True
        for lo in range(0, nc, f['batch']):
            items.append(('batch', f, lo, min(nc, lo + f['batch']), first and f['cls'] == 'file'))
            first = False
    xf = xcheck_families(tier)
    for f in xf:
        nc = count_cases(f)
        for lo in range(0, nc, f['batch']):
            items.append(('xcheck', f, lo, min(nc, lo + f['batch']), False))
    items += [('single', i) for i in range(len(SINGLES))]
    # big items first for load balance (the set of items is fixed; only their dispatch order changes)
    items.sort(key=lambda it: 0 if (it[0] == 'batch' and it[1]['k'] == 3) else 1 if it[0] == 'single' else 2 if it[0] == 'xcheck' else 3)
    ctx.pmap(work, items)
    res = ctx.res
    if res.counters.get('states_big_families_batch_sum'):
        # exact distinct count for the small families + per-batch distinct counts for the big ones
        exact = len(res.distinct.pop('states', ()))
        res.counters['states_exact_distinct_small_families'] = exact
        res.counters['states'] = exact + res.counters['states_big_families_batch_sum']
    spaces = {}
    for f in fams:
        key = f"{group_of(f)}/{f['cls']}"
        spaces[key] = spaces.get(key, 0) + count_cases(f)
    ctx.meta.update(
        rule=('case = blob class (BlobFile | BlobBuffer) x content length n x family (known length | unknown length with '
              'one set_length(L_i), L_i in {n,n-1,n+1}, per writer before its first write | late open: get_blob_writer is '
              'an event too | two episodes: a first download to completion on the SAME blob object (preludes solo / race = '
              'two complete before any callback / loser = over-long winner + pending truncated peer), then one of '
              'delete(), BlobBuffer one-shot read, close(), file unlinked + delete(), then episode 2 explored '
              'exhaustively with the oracle applied to episode 2; also delete()/close() fired as an event at every '
              'position between the first delivery and the quiescence of episode 1 (safety only for the aborted episode), '
              'followed by a plain delete() and episode 2; blobs with and without a completed-callback) x tuple of '
              '1..3 writer scripts; script = kind (correct, each byte flipped by one bit, every '
              'truncation incl. the empty one, over-long by 1, over-long by n, unrelated) x chunking (per family, see '
              'bounds.chunking_legend). For every case ALL interleavings of O(i)/S(i)/W(i)/STEP/JOB_RUN/JOB_DONE events '
              'are explored (DFS over event prefixes, every node re-executed on fresh real objects, canonical-state '
              'hashing shared inside a batch of consecutive cases and cross-checked against stateless enumeration on the '
              'x-* sub-spaces); safety invariant in every state, liveness in every quiescent state. Families marked '
              'ordered enumerate ordered writer tuples, the others multisets (writers created in sorted script order). '
              'evaluations = cases explored; non-trivial = distinct writer-script multisets with >= 2 writers (all their '
              'overlaps are explored) or a misbehaving writer or a set_length event, plus the boundary singles; '
              'states = distinct canonical states (thorough: exact distinct count for the small families + sum over '
              'batches of per-batch distinct states for the families whose digests are not shipped to the parent); '
              'executions = event sequences run to quiescence (revisits pruned by state hashing are counted separately).'),
        exhaustive=True,
        bounds={'tier': tier, 'families': spaces, 'cases': total_cases, 'max_writers': 3,
                'ordered_families': sorted({f['name'] for f in fams if f['order'] == 'ordered'}),
                'chunking_legend': {'all': 'every composition of every script', 'ws': 'whole and all-single-bytes',
                                    'w': 'whole only', 'q3': 'ws- without flips/truncations at inner positions', 'ws-': 'ws, but over-long-by-n as whole and [content|content]',
                                    'all-': 'every composition, but over-long-by-n as whole and [content|content]',
                                    'single-*/pairs-n1/triples-n1': 'all'},
                'content_lengths': [1, 3, 4], 'boundary_singles': len(SINGLES),
                'episode_families': {'preludes': list(PRELUDES), 'between_ops': {k: list(v) for k, v in BETWEEN_OPS.items()},
                                     'callback': [True, False]},
                'stateless_crosscheck_families': sorted({f['name'] for f in xf})},
        bound_completed='all families listed in bounds fully enumerated, every interleaving',
        assumptions=[
            'executor job bodies (the file write) are atomic at loop-iteration boundaries (JOB_RUN), their completion '
            'reaches the loop at a later boundary (JOB_DONE); interleaving inside the body is not modelled',
            'writer data arrives between loop iterations (as data_received does); the ready queue is FIFO and never reordered',
            'contents of 1, 3 and 4 bytes carry the exhaustive part (the code compares lengths only through >, == and '
            'truthiness); 2 MiB contents appear as default-schedule singles',
            'triples: writers are created in the sorted order of their scripts (pairs: both orders; late-open family: '
            'every creation order)',
            'SHA-384 collisions are outside the enumeration',
            '"delivered a complete correct copy" = cumulative bytes equal the content exactly at a chunk boundary while '
            'the announced length is n; exceptions raised to a misbehaving writer\'s own caller are outside the oracle (tallied)',
            'writers opened after the first complete copy was delivered are not "pending" writers of the statement (tallied)',
            'a blob that has a completed-callback and was not verified when the download began must have fired it exactly '
            'once when a complete correct copy was delivered ("announced"; tightened from a tally that was 0 everywhere)',
            'two-episode families: episode 1 runs on a fixed schedule (it is judged, not explored); after delete() the '
            'harness announces the length again (known-length families) as BlobManager.get_blob does',
        ],
        expected_witnesses=EXPECTED_WITNESSES,
    )


def replay(data):
    import shutil
    d = _dir()
    try:
        if 'single' in data:
            name, cls, spec, expect = SINGLES[int(data['single'])]
            bad, log, _ = run_single(name, cls, spec, expect, d)
            lines = [f'boundary single {name}/{cls}'] + log
        else:
            case = case_from_json(data['case'])
            try:
                bad, log = run_trace(case, list(data['events']), d, complete=True)
            except HarnessDivergence as x:
                # the recorded schedule is not a schedule of this tree (e.g. the second executor job of a
                # double-write counterexample does not exist once the defect is gone): nothing reproduced
                return False, f'{describe(case)}\nrecorded events: {" ".join(data["events"])}\nDIVERGED (not reproduced): {x}'
            lines = [describe(case)] + ['  ' + ' | '.join(str(x) for x in row) for row in log]
        if bad is not None:
            lines.append(f'VIOLATED: {bad[0]}: {bad[1]}')
        return bad is not None, '\n'.join(lines)
    finally:
        shutil.rmtree(d, ignore_errors=True)
