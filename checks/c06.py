"""C06 - HD key derivation, extended keys, addresses (BIP32 / Base58Check), mnemonic integers, address chains.

Bounded-exhaustive enumeration on the real lbry code against refs/bip32 + refs/secp256k1 (independent, validated on
the published BIP32 test vectors 1-3 at start):

  tree     the complete derivation tree to depth D over the six boundary indices, for the three BIP32 vector seeds
           and seeds of 16/17/32/63/64 bytes, on the main-net and regtest ledgers: private key, public key, chain
           code, fingerprints, depth, n, both extended-key strings, address; public derivation at every
           non-hardened edge (and its refusal at every hardened edge); string round trips.
  vectors  lbry against the published strings directly (no reference in between).
  b58      Base58Check: every payload of 1..L bytes, boundary lengths x leading-zero runs x fill patterns, and every
           single-character substitution / adjacent transposition / deletion of 20 encoded strings.
  mnemonic every integer of a dense range and windows around 2048^k.
  chains   explicit-state BFS over {ensure_address_gap, mark address j used} on a real Account + Database.
"""
import hashlib
import itertools

PROPERTY = 'C06'
LEVEL = 'exploration'
HASHSEEDS = {'quick': 1, 'thorough': 1}

H = 0x80000000
INDICES = [0, 1, H - 1, H, H + 1, 2 ** 32 - 1]
INDEX_NAME = {0: '0', 1: '1', H - 1: '2^31-1', H: '2^31', H + 1: '2^31+1', 2 ** 32 - 1: '2^32-1'}

PHRASES = {
    'P0': 'carbon smart garage balance margin twelve chest sword toast envelope bottom stomach absent',
    'P1': 'abandon abandon abandon abandon abandon abandon abandon abandon abandon abandon abandon about',
}


def seeds():
    """name -> seed bytes: the three BIP32 vector seeds + one seed each of 16, 17, 32, 63 and 64 bytes."""
    from refs import bip32
    out = {}
    for k, (hx, _) in enumerate(bip32.VECTORS):
        out[f'bip32v{k + 1}'] = bytes.fromhex(hx)
    for ln in (16, 17, 32, 63, 64):
        out[f'len{ln}'] = bytes((i * 37 + ln * 11 + 5) % 256 for i in range(ln))
    return out


def ledgers():
    from lbry.wallet.ledger import Ledger, RegTestLedger
    return {'main': Ledger, 'regtest': RegTestLedger}


# ---------------------------------------------------------------------------------------------------------
# derivation tree
# ---------------------------------------------------------------------------------------------------------

def _viol(res, field, path, seed_name, ledger_name, what):
    last = path[-1] if path else None
    res.violation({'kind': 'derivation', 'field': field, 'last_index': INDEX_NAME.get(last, 'master'),
                   'depth_class': 'master' if not path else ('child' if len(path) == 1 else 'deeper')},
                  f"{seed_name} m/{'/'.join(map(str, path))} on {ledger_name}: {what}",
                  {'mode': 'node', 'seed': seed_name, 'ledger': ledger_name, 'path': list(path)})


class _Raised:
    """What a lbry call raised instead of returning; unequal to every expected value."""

    def __init__(self, e):
        self.e = e

    def __repr__(self):
        return f'<raised {type(self.e).__name__}: {self.e}>'

    def hex(self):
        return repr(self)


def _try(fn):
    try:
        return fn()
    except Exception as e:   # noqa - judged by the caller: an exception is never the value BIP32 prescribes
        return _Raised(e)


def _show(v):
    if isinstance(v, (bytes, bytearray, _Raised)):
        return v.hex()
    if isinstance(v, tuple):
        parts = [_show(x) for x in v]
        return parts[0] if len(set(parts)) == 1 else '(' + ', '.join(parts) + ')'
    return repr(v)


def check_node(res, lk, rn, ledger, seed_name, ledger_name, path):
    """lk: lbry PrivateKey reached by private derivation; rn: reference node for the same path.  Every lbry call
    goes through _try(): an exception (e.g. ValueError out of extended_key_string()) is a wrong answer, not a
    harness failure."""
    from lbry.wallet.bip32 import from_extended_key_string, PrivateKey, PublicKey
    from lbry.crypto.base58 import Base58
    from refs import bip32
    res.count('evaluations')
    res.count('nodes')

    def bad(field, what):
        _viol(res, field, path, seed_name, ledger_name, what)

    def same(field, label, got, want):
        if isinstance(got, _Raised):
            bad(field + '-raised', f'{label} raised {type(got.e).__name__}: {got.e}')
            return False
        if got != want:
            bad(field, f'{label} {_show(got)} != {_show(want)}')
            return False
        return True

    pub = _try(lambda: lk.public_key)
    if isinstance(pub, _Raised):
        bad('public-key-raised', f'PrivateKey.public_key raised {type(pub.e).__name__}: {pub.e}')
        return
    same('private-key', 'private key', _try(lambda: lk.private_key_bytes), rn.privkey)
    same('public-key', 'public key', _try(lambda: pub.pubkey_bytes), rn.pubkey)
    same('chain-code', 'chain code', _try(lambda: (lk.chain_code, pub.chain_code)), (rn.chain_code, rn.chain_code))
    same('identifier', 'key identifier', _try(lambda: (lk.identifier(), pub.identifier())), (rn.identifier,) * 2)
    same('fingerprint', 'fingerprint', _try(lambda: (lk.fingerprint(), pub.fingerprint())), (rn.fingerprint,) * 2)
    same('parent-fingerprint', 'parent fingerprint',
         _try(lambda: (lk.parent_fingerprint(), pub.parent_fingerprint())), (rn.parent_fp,) * 2)
    same('depth-or-index', '(depth, n)', _try(lambda: (lk.depth, lk.n, pub.depth, pub.n)), (rn.depth, rn.n) * 2)
    xprv_ref = rn.xprv(ledger.extended_private_key_prefix)
    xpub_ref = rn.xpub(ledger.extended_public_key_prefix)
    same('xprv-string', 'extended private key', _try(lk.extended_key_string), xprv_ref)
    same('xpub-string', 'extended public key', _try(pub.extended_key_string), xpub_ref)
    # address
    prefix = ledger.pubkey_address_prefix
    addr_ref = bip32.address(rn.pubkey, prefix)
    if same('address', 'address', _try(lambda: (pub.address, lk.address, ledger.public_key_to_address(pub.pubkey_bytes))),
            (addr_ref,) * 3):
        ok = _try(lambda: (Base58.decode_check(addr_ref) == prefix + rn.identifier
                           and ledger.address_to_hash160(addr_ref) == rn.identifier
                           and ledger.is_pubkey_address(addr_ref) and not ledger.is_script_address(addr_ref)))
        if ok is not True:
            bad('address-roundtrip', f'address {addr_ref} does not decode back to prefix || hash160 ({ok!r})')
    # extended key strings survive decode / encode
    for s, want_type in ((xprv_ref, PrivateKey), (xpub_ref, PublicKey)):
        k2 = _try(lambda: from_extended_key_string(ledger, s))
        if isinstance(k2, _Raised):
            bad('string-decode', f'from_extended_key_string raised {type(k2.e).__name__} on a valid string')
            continue
        got = _try(lambda: (type(k2), k2.private_key_bytes if isinstance(k2, PrivateKey) else k2.pubkey_bytes,
                            k2.chain_code, k2.depth, k2.n))
        want = (want_type, rn.privkey if want_type is PrivateKey else rn.pubkey, rn.chain_code, rn.depth, rn.n)
        if isinstance(got, _Raised) or got != want:
            bad('string-roundtrip', f'decoded extended key differs in key material / chain code / depth / n ({got!r:.120})')
            continue
        again = _try(k2.extended_key_string)
        if isinstance(again, _Raised):
            bad('string-reencode-raised', f're-encoding a decoded extended key raised {type(again.e).__name__}: {again.e}')
        elif rn.depth == 0:
            if again != s:
                bad('string-identity', 're-encoding a parent-less extended key changes the string')
        elif again != s:
            res.tally('interpretation_only:reencoded_child_key_string_loses_parent_fingerprint')
    # non-vacuity
    if rn.secret < (1 << 248):
        res.witness('private_key_with_leading_zero_byte')
    if rn.pubkey[1] == 0:
        res.witness('public_key_x_with_leading_zero_byte')
    if rn.chain_code[0] == 0:
        res.witness('chain_code_with_leading_zero_byte')
    if rn.fingerprint[0] == 0:
        res.witness('fingerprint_with_leading_zero_byte')
    res.distinct_add('nontrivial', (seed_name, ledger_name, tuple(path)))


def walk(res, lk, lpub, rn, ledger, seed_name, ledger_name, path, depth_left):
    """lpub: the public key object obtained by *public* derivation as far back as possible."""
    from refs import bip32
    for i in INDICES:
        p = path + [i]
        try:
            rc = rn.ckd_priv(i)
        except bip32.InvalidChild:
            res.tally('reference_invalid_child(skipped)')
            continue
        try:
            lc = lk.child(i)
        except Exception as e:   # noqa
            _viol(res, 'child-raised', p, seed_name, ledger_name, f'PrivateKey.child raised {type(e).__name__}: {e}')
            continue
        check_node(res, lc, rc, ledger, seed_name, ledger_name, p)
        if rn.secret < (1 << 248) and i >= H:
            res.witness('hardened_child_of_private_key_with_leading_zero_byte')
        if rn.pubkey[1] == 0 and i < H:
            res.witness('normal_child_of_public_key_with_leading_zero_byte')
        cpub = None
        if i < H:
            res.count('evaluations')
            res.count('public_derivations')
            try:
                cpub = lpub.child(i)
            except Exception as e:   # noqa
                _viol(res, 'public-child-raised', p, seed_name, ledger_name,
                      f'PublicKey.child raised {type(e).__name__}: {e}')
            if cpub is not None:
                got = _try(lambda: (cpub.pubkey_bytes, lc.public_key.pubkey_bytes, cpub.chain_code, cpub.depth, cpub.n,
                                    cpub.extended_key_string(), cpub.address, lc.public_key.address))
                if isinstance(got, _Raised):
                    _viol(res, 'public-derivation-raised', p, seed_name, ledger_name,
                          f'reading the publicly derived key raised {type(got.e).__name__}: {got.e}')
                    cpub = None
                elif got[0] != got[1] or got[0] != rc.pubkey:
                    _viol(res, 'public-derivation-key', p, seed_name, ledger_name,
                          'public derivation gives a different public key than private derivation')
                elif got[2] != rc.chain_code or (got[3], got[4]) != (rc.depth, rc.n):
                    _viol(res, 'public-derivation-meta', p, seed_name, ledger_name,
                          'public derivation gives a different chain code / depth / n')
                elif got[5] != rc.xpub(ledger.extended_public_key_prefix) or got[6] != got[7]:
                    _viol(res, 'public-derivation-string', p, seed_name, ledger_name,
                          'publicly derived key serialises differently')
                if len(p) <= 2:      # independent cross-check of the reference's own CKDpub
                    rp = rn.neuter().ckd_pub(i)
                    assert rp.pubkey == rc.pubkey and rp.chain_code == rc.chain_code
        else:
            res.count('evaluations')
            try:
                lpub.child(i)
                _viol(res, 'hardened-public-derivation', p, seed_name, ledger_name,
                      f'PublicKey.child({i}) returned a key for a hardened index')
            except ValueError:
                res.count('hardened_public_derivations_refused')
            except Exception as e:   # noqa
                res.tally(f'hardened_public_derivation_raises_{type(e).__name__}')
        if depth_left > 1:
            nxt_pub = cpub if cpub is not None else _try(lambda: lc.public_key)
            if isinstance(nxt_pub, _Raised):      # already reported by check_node for this node
                continue
            walk(res, lc, nxt_pub, rc, ledger, seed_name, ledger_name, p, depth_left - 1)


def _start(seed_name, ledger_name, path):
    from lbry.wallet.bip32 import PrivateKey
    from refs import bip32
    ledger = ledgers()[ledger_name]
    seed = seeds()[seed_name]
    lk = PrivateKey.from_seed(ledger, seed)
    rn = bip32.master(seed)
    lpub = lk.public_key
    for i in path:
        lk = lk.child(i)
        lpub = lpub.child(i) if i < H else lk.public_key
        rn = rn.ckd_priv(i)
    return ledger, lk, lpub, rn


def work_tree(item, res):
    _, seed_name, ledger_name, path, depth_left = item
    try:
        ledger, lk, lpub, rn = _start(seed_name, ledger_name, path)
    except Exception as e:   # noqa - the prefix itself cannot be derived: judged where the parent item walks it
        res.tally(f'subtree_prefix_not_derivable_{type(e).__name__}(reported_at_parent)')
        return
    if not path:
        check_node(res, lk, rn, ledger, seed_name, ledger_name, [])
        # index range checks at the master key
        for bad_i in (-1, 2 ** 32, 2 ** 32 + 1):
            res.count('evaluations')
            try:
                lk.child(bad_i)
                _viol(res, 'index-range', [], seed_name, ledger_name, f'PrivateKey.child({bad_i}) accepted')
            except (ValueError, OverflowError):
                pass
        for bad_i in (-1, H, 2 ** 32):
            res.count('evaluations')
            try:
                lk.public_key.child(bad_i)
                _viol(res, 'index-range', [], seed_name, ledger_name, f'PublicKey.child({bad_i}) accepted')
            except (ValueError, OverflowError):
                pass
    if depth_left > 0:
        walk(res, lk, lpub, rn, ledger, seed_name, ledger_name, list(path), depth_left)
    if not path and ledger_name == 'main':
        res.sample({'tree_root': seed_name, 'xpub': rn.xpub(), 'indices': [INDEX_NAME[i] for i in INDICES]})


def work_vectors(item, res):
    """lbry against the published BIP32 strings directly."""
    from lbry.wallet.bip32 import PrivateKey, from_extended_key_string
    from lbry.wallet.ledger import Ledger
    from refs import bip32
    for k, (seed_hex, chain) in enumerate(bip32.VECTORS):
        m = PrivateKey.from_seed(Ledger, bytes.fromhex(seed_hex))
        for path, xpub, xprv in chain:
            res.count('evaluations')
            node = m
            idx = bip32.parse_path(path)
            try:
                for i in idx:
                    node = node.child(i)
                got = (node.public_key.extended_key_string(), node.extended_key_string())
            except Exception as e:   # noqa
                got = f'<{type(e).__name__}: {e}>'
            if got != (xpub, xprv):
                res.violation({'kind': 'published-vector', 'vector': k + 1, 'path': path},
                              f'BIP32 test vector {k + 1} {path}: {got} != published strings',
                              {'mode': 'vector', 'vector': k, 'path': path})
            else:
                res.witness('published_bip32_vector_reproduced')
            for s in (xpub, xprv):
                res.count('evaluations')
                try:
                    again = from_extended_key_string(Ledger, s).extended_key_string()
                except Exception as e:   # noqa
                    again = f'<{type(e).__name__}>'
                    res.violation({'kind': 'published-vector', 'vector': k + 1, 'path': path, 'step': 'decode'},
                                  f'published extended key of {path} is refused: {again}',
                                  {'mode': 'vector', 'vector': k, 'path': path})
                    continue
                if len(idx) == 0 and again != s:
                    res.violation({'kind': 'published-vector', 'vector': k + 1, 'path': path, 'step': 'reencode'},
                                  'published master key string does not survive decode/encode',
                                  {'mode': 'vector', 'vector': k, 'path': path})
            res.distinct_add('nontrivial', ('vector', k, path))


# ---------------------------------------------------------------------------------------------------------
# Base58Check
# ---------------------------------------------------------------------------------------------------------

def _b58_case(res, payload, Base58, bip32, shape):
    res.count('evaluations')
    want = bip32.b58check_encode(payload)
    try:
        got = Base58.encode_check(payload)
    except Exception as e:   # noqa
        got = f'<{type(e).__name__}>'
    if got != want:
        res.violation({'kind': 'base58check-encode', 'shape': shape},
                      f'encode_check({payload.hex()}) = {got!r}, reference {want!r}',
                      {'mode': 'b58', 'payload': payload.hex()})
        return
    try:
        back = bytes(Base58.decode_check(want))
    except Exception as e:   # noqa
        back = f'<{type(e).__name__}>'
    if back != payload:
        res.violation({'kind': 'base58check-roundtrip', 'shape': shape},
                      f'decode_check(encode_check({payload.hex()})) = {back if isinstance(back, str) else back.hex()}',
                      {'mode': 'b58', 'payload': payload.hex()})


def work_b58_all(item, res):
    from lbry.crypto.base58 import Base58
    from refs import bip32
    _, ln, lo, hi = item
    for v in range(lo, hi):
        p = v.to_bytes(ln, 'big')
        zeros = len(p) - len(p.lstrip(b'\0'))
        _b58_case(res, p, Base58, bip32, f'len{ln}/z{zeros}')
    res.distinct_add('nontrivial', ('b58all', ln, lo))
    if lo == 0:
        res.sample({'base58check_payloads': f'every {ln}-byte payload', 'example': bip32.b58check_encode(bytes(ln))})


B58_LENGTHS = [0, 1, 3, 4, 5, 19, 20, 21, 22, 24, 25, 26, 32, 33, 34, 37, 38, 64, 65, 77, 78, 79, 82, 128, 255, 256]


def work_b58_boundary(item, res):
    from lbry.crypto.base58 import Base58
    from refs import bip32
    for ln in B58_LENGTHS:
        for zeros in range(0, min(ln, 4) + 1):
            fills = {'ff': b'\xff', '01': b'\x01', '80': b'\x80', 'ctr': None}
            for name, fill in fills.items():
                rest = ln - zeros
                body = bytes((i * 7 + 1) % 255 + 1 for i in range(rest)) if fill is None else fill * rest
                p = b'\0' * zeros + body
                _b58_case(res, p, Base58, bip32, f'len{ln}/z{zeros}/{name}')
                res.distinct_add('nontrivial', ('b58b', ln, zeros, name))
        _b58_case(res, b'\0' * ln, Base58, bip32, f'len{ln}/allzero')
    # raw Base58 of all-zero input: outside Base58Check (a checksum is never appended) -> tallied only
    for ln in (1, 2, 5):
        try:
            if bytes(Base58.decode(Base58.encode(b'\0' * ln))) != b'\0' * ln:
                res.tally('interpretation_only:raw_base58_all_zero_bytes_do_not_round_trip')
        except Exception as e:   # noqa
            res.tally(f'interpretation_only:raw_base58_all_zero_raises_{type(e).__name__}')
    res.witness('payload_lengths_20_21_25_78_with_leading_zero_runs')


def corruption_strings():
    """20 encoded strings: 8 addresses, 4 xpub, 4 xprv, 4 short/odd payloads (name, string, kind, ledger name)."""
    from refs import bip32
    out = []
    sd = seeds()
    m1 = bip32.master(sd['bip32v1'])
    m2 = bip32.master(sd['len17'])
    nodes = [m1, m1.derive([H, 1]), m2, m2.derive([2 ** 32 - 1, 0, H - 1])]
    for k, n in enumerate(nodes):
        out.append((f'address-main-{k}', bip32.address(n.pubkey, b'\x55'), 'address', 'main'))
        out.append((f'address-regtest-{k}', bip32.address(n.pubkey, bytes((111,))), 'address', 'regtest'))
        out.append((f'xpub-{k}', n.xpub(), 'xkey', 'main'))
        out.append((f'xprv-{k}', n.xprv(), 'xkey', 'main'))
    out.append(('zero-hash-version-0', bip32.b58check_encode(b'\0' * 21), 'payload', None))
    out.append(('one-byte', bip32.b58check_encode(b'\x55'), 'payload', None))
    out.append(('two-zero-bytes', bip32.b58check_encode(b'\0\0'), 'payload', None))
    out.append(('script-address', bip32.b58check_encode(b'\x7a' + bytes(range(20))), 'payload', None))
    assert len(out) == 20
    return out


NON_ALPHABET = '0OIl +'


def work_b58_corrupt(item, res):
    from lbry.crypto.base58 import Base58
    from lbry.wallet.bip32 import from_extended_key_string
    from refs import bip32
    _, k = item
    name, s, kind, ledger_name = corruption_strings()[k]
    ledger = ledgers()[ledger_name] if ledger_name else None
    assert len(bip32.b58check_decode(s)) >= 1      # the genuine string is valid for the reference

    def corrupted():
        for pos in range(len(s)):
            for c in bip32.B58 + NON_ALPHABET:
                if c != s[pos]:
                    yield 'substitution', s[:pos] + c + s[pos + 1:]
        for pos in range(len(s) - 1):
            if s[pos] != s[pos + 1]:
                yield 'transposition', s[:pos] + s[pos + 1] + s[pos] + s[pos + 2:]
        for pos in range(len(s)):
            t = s[:pos] + s[pos + 1:]
            if t and t != s:
                yield 'deletion', t
        # byte level: every single-bit flip of payload || checksum, re-encoded (reaches each checksum byte exactly)
        raw = bip32.b58decode(s)
        for i in range(len(raw)):
            for b in range(8):
                m = bytearray(raw)
                m[i] ^= 1 << b
                yield ('checksum-bitflip' if i >= len(raw) - 4 else 'payload-bitflip'), bip32.b58encode(bytes(m))

    for how, t in corrupted():
        res.count('evaluations')
        res.count('corruptions')
        try:
            ref = bip32.b58check_decode(t)
        except ValueError:
            ref = None
        try:
            got = bytes(Base58.decode_check(t))
        except Exception as e:   # noqa - any exception is a rejection
            got = None
            res.tally(f'rejected_with_{type(e).__name__}')
        if ref is None and got is not None:
            res.violation({'kind': 'base58check-accepts-corrupted', 'how': how, 'string_kind': kind},
                          f'{name}: decode_check accepts {t!r} ({how} of {s!r})',
                          {'mode': 'corrupt', 'k': k, 'string': t})
            continue
        if ref is not None:
            res.tally('corruption_with_valid_checksum(reference_accepts_too)')
            if got != ref:
                res.violation({'kind': 'base58check-decode-differs', 'how': how},
                              f'{name}: {t!r} decodes to {got} but reference says {ref.hex()}',
                              {'mode': 'corrupt', 'k': k, 'string': t})
            continue
        # the consumers built on decode_check
        if kind == 'xkey':
            try:
                from_extended_key_string(ledgers()['main'], t)
                res.violation({'kind': 'extended-key-accepts-corrupted', 'how': how},
                              f'{name}: from_extended_key_string accepts {t!r}', {'mode': 'corrupt', 'k': k, 'string': t})
            except Exception:   # noqa
                pass
        elif kind == 'address':
            try:
                ledger.is_pubkey_address(t)
                res.violation({'kind': 'address-accepts-corrupted', 'how': how},
                              f'{name}: is_pubkey_address does not reject {t!r}', {'mode': 'corrupt', 'k': k, 'string': t})
            except Exception:   # noqa
                pass
            try:
                if ledger.address_to_hash160(t) is not None:
                    res.tally('interpretation_only:address_to_hash160_does_not_verify_checksum')
            except Exception:   # noqa
                pass
    res.distinct_add('nontrivial', ('corrupt', k))
    if k == 0:
        res.sample({'corrupted_string_of': s, 'kinds': 'every substitution (58+6 symbols), adjacent transposition, deletion, every bit flip of payload||checksum'})


# ---------------------------------------------------------------------------------------------------------
# mnemonic integers
# ---------------------------------------------------------------------------------------------------------

def _mn_check(res, m, i):
    res.count('evaluations')
    try:
        words = m.mnemonic_encode(i)
        back = m.mnemonic_decode(words)
    except Exception as e:   # noqa
        back, words = f'<{type(e).__name__}>', '?'
    if back != i:
        n = 0
        j = i
        while j:
            j //= 2048
            n += 1
        res.violation({'kind': 'mnemonic-roundtrip', 'words': n, 'low_digit_zero': i % 2048 == 0},
                      f'mnemonic_decode(mnemonic_encode({i})) = {back!r} (words {words!r})', {'mode': 'mnemonic', 'i': str(i)})


def work_mnemonic(item, res):
    from lbry.wallet.mnemonic import Mnemonic
    m = Mnemonic('en')
    kind = item[1]
    if kind == 'range':
        _, _, lo, hi = item
        for i in range(lo, hi):
            _mn_check(res, m, i)
        res.distinct_add('nontrivial', ('mn-range', lo))
    elif kind == 'grid':
        # every high word with the low words {0, 1, 2047}: all (low, high) classes of a two-word mnemonic
        for hi_w in range(1, 2048):
            for lo_w in (0, 1, 2047):
                _mn_check(res, m, hi_w * 2048 + lo_w)
        res.distinct_add('nontrivial', ('mn-grid',))
    else:
        for k in range(1, 13):
            for d in range(-64, 65):
                _mn_check(res, m, 2048 ** k + d)
            res.distinct_add('nontrivial', ('mn-pow', k))
        for d in range(-64, 65):
            _mn_check(res, m, 2 ** 132 + d)
        words = m.words
        if len(words) != 2048 or len(set(words)) != 2048 or any((' ' in w or not w) for w in words):
            res.tally('word_list_not_2048_distinct_words')
        res.witness('word_list_has_2048_distinct_words' if len(set(words)) == 2048 else 'word_list_checked')
        for lang in ('es', 'ja', 'pt', 'zh'):
            try:
                Mnemonic(lang)
                res.tally(f'language_{lang}_loads')
            except Exception as e:   # noqa - outside the statement (nothing gets encoded)
                res.tally(f'interpretation_only:language_{lang}_unavailable_{type(e).__name__}')
        res.sample({'mnemonic_int': 2048 ** 2 + 2047, 'words': m.mnemonic_encode(2048 ** 2 + 2047)})


# ---------------------------------------------------------------------------------------------------------
# address chains (explicit-state BFS on a real Account + Database)
# ---------------------------------------------------------------------------------------------------------

class _FakeNetwork:
    is_connected = False

    def __init__(self):
        from lbry.wallet.stream import StreamController
        self.on_header = StreamController().stream
        self.on_status = StreamController().stream


def ref_seed(phrase):
    return hashlib.pbkdf2_hmac('sha512', phrase.encode(), b'lbryum', 2048, 64)


class ChainH:
    """Real Ledger + Database(':memory:') + Account(seed phrase, gaps).  ops: ('E',) = account.ensure_address_gap();
    ('U', chain, j) = the address with index j of that chain receives a transaction (history row written the way
    the ledger's sync does); ('R',) = the account object is rebuilt from the same dict on the same database."""

    def __init__(self, phrase_id, gaps, how='seed'):
        from vf.vloop import VLoop
        from lbry.wallet import Ledger, Database, Headers, Wallet
        self.loop = VLoop().activate()
        self.closed = False
        self.phrase_id = phrase_id
        try:
            self.ledger = Ledger({'db': Database(':memory:'), 'headers': Headers(':memory:'), 'network': _FakeNetwork()})
            self.loop.run(self.ledger.db.open())
            self.wallet = Wallet()
            self.dict = {'name': 'a', 'address_generator': {
                'name': 'deterministic-chain',
                'receiving': {'gap': gaps[0], 'maximum_uses_per_address': 1},
                'change': {'gap': gaps[1], 'maximum_uses_per_address': 1}}}
            if how == 'seed':
                self.dict['seed'] = PHRASES[phrase_id]
            else:
                from refs import bip32
                self.dict['private_key'] = bip32.master(ref_seed(PHRASES[phrase_id])).xprv()
            self._make_account()
        except BaseException:
            self.close()
            raise

    def _make_account(self):
        from lbry.wallet import Account
        self.ledger.accounts.clear()
        self.wallet.accounts.clear()
        self.account = Account.from_dict(self.ledger, self.wallet, dict(self.dict))

    def apply(self, op):
        if op[0] == 'E':
            return self.loop.run(self.account.ensure_address_gap())
        if op[0] == 'R':
            self._make_account()
            return None
        _, chain, j = op
        rows = self.rows(chain)
        address = rows[j]['address']
        self.loop.run(self.ledger.db.set_address_history(address, f'{j:064x}:{10 + j}:'))
        return address

    def rows(self, chain):
        am = self.account.address_managers[chain]
        recs = self.loop.run(am.get_address_records(order_by='n asc'))
        return [{'address': r['address'], 'n': r['pubkey'].n, 'used': r['used_times'], 'depth': r['pubkey'].depth,
                 'pubkey': r['pubkey'].pubkey_bytes, 'chain_code': r['pubkey'].chain_code} for r in recs]

    def close(self):
        if self.closed:
            return
        self.closed = True
        try:
            self.loop.run(self.ledger.db.close())
        except Exception:   # noqa
            pass
        finally:
            self.loop.shutdown()


_REF_CHAIN = {}


def ref_chain(phrase_id, chain, n):
    """Reference (address, pubkey, chain code) of m/chain/n for the account of phrase_id."""
    from refs import bip32
    key = (phrase_id, chain)
    if key not in _REF_CHAIN:
        _REF_CHAIN[key] = (bip32.master(ref_seed(PHRASES[phrase_id])).ckd_priv(chain), {})
    parent, memo = _REF_CHAIN[key]
    if n not in memo:
        c = parent.ckd_priv(n)
        memo[n] = (bip32.address(c.pubkey, b'\x55'), c.pubkey, c.chain_code)
    return memo[n]


_REF_KEY = {}


def ref_key(phrase_id, gen, chain, n):
    """Reference key the account must hand out for its address (chain, n): m/chain/n for a hierarchical account,
    the master key itself for a single-address account.  -> dict(priv, pub, cc, depth, n, address)"""
    from refs import bip32
    k = (phrase_id, gen, chain, n)
    if k not in _REF_KEY:
        m = _REF_KEY.get(('master', phrase_id))
        if m is None:
            m = _REF_KEY[('master', phrase_id)] = bip32.master(ref_seed(PHRASES[phrase_id]))
        if gen == 'hd':
            ck = ('chain', phrase_id, chain)
            if ck not in _REF_KEY:
                _REF_KEY[ck] = m.ckd_priv(chain)
            node = _REF_KEY[ck].ckd_priv(n)
        else:
            node = m
        _REF_KEY[k] = {'priv': node.privkey, 'pub': node.pubkey, 'cc': node.chain_code, 'depth': node.depth,
                       'n': node.n, 'address': bip32.address(node.pubkey, b'\x55')}
    return _REF_KEY[k]


def chain_state(h):
    return tuple(tuple((r['n'], r['used'] > 0) for r in h.rows(c)) for c in (0, 1))


def judge_chains(h, phrase_id, res, history, cfg):
    """Invariant of every state: each chain is exactly ref(m/chain/0..k-1), contiguous, in order."""
    out = None
    for c in (0, 1):
        rows = h.rows(c)
        for k, r in enumerate(rows):
            want = ref_chain(phrase_id, c, k)
            if r['n'] != k:
                out = ('not-contiguous', f'chain {c}: position {k} holds index {r["n"]}')
            elif (r['address'], r['pubkey'], r['chain_code']) != want or r['depth'] != 2:
                out = ('differs-from-reference', f'chain {c} index {k}: {r["address"]} != {want[0]}')
            if out:
                break
        if out:
            break
    if out:
        res.violation({'kind': 'address-chain', 'why': out[0], 'gaps': list(cfg['gaps'])},
                      f"{out[1]} after {history}", {'mode': 'chain', 'cfg': cfg, 'history': [list(o) for o in history]})
        return out
    # the account must hand out the BIP32 key of every address it generated: both chains, order alternating with
    # the history length, through the account and through the ledger
    env = KeyEnv.of_chain_harness(h, phrase_id)
    order = (0, 1) if len(history) % 2 == 0 else (1, 0)
    seq = []
    for api in ('A', 'L'):
        for c in order:
            for n in range(len(env.addresses[0][c])):
                seq += [('q', 0, c, n, api), ('p', 0, c, n, api)]
    bad = run_key_sequence(env, seq, res, {'mode': 'chain', 'cfg': cfg, 'history': [list(o) for o in history]},
                           context=f'chain state after {history}')
    if bad:
        out = ('key-lookup', bad)
    return out


def recover(phrase_id, gaps, used, res):
    """What a wallet restored from the same mnemonic does: generate a gap, learn which generated addresses are
    used, extend, until nothing new appears.  -> chain_state."""
    h = ChainH(phrase_id, gaps)
    try:
        known = (0, 0)
        for _ in range(64):
            h.apply(('E',))
            rows = [h.rows(0), h.rows(1)]
            for c in (0, 1):
                for r in rows[c]:
                    if r['n'] in used[c] and not r['used']:
                        h.apply(('U', c, r['n']))
            now = (len(rows[0]), len(rows[1]))
            if now == known:
                break
            known = now
        res.count('executions')
        return chain_state(h), [[r['address'] for r in h.rows(c)] for c in (0, 1)]
    finally:
        h.close()


def work_chain(item, res):
    """BFS over histories; states deduplicated on (chain contents, used flags, last op was E)."""
    _, cfg = item
    phrase_id, gaps, chain, depth, how = cfg['phrase'], tuple(cfg['gaps']), cfg['chain'], cfg['depth'], cfg['how']

    def build(history):
        h = ChainH(phrase_id, gaps, how)
        for op in history:
            h.apply(op)
            res.count('transitions')
        res.count('executions')
        return h

    seen = set()
    frontier = [[]]
    recovered = {}
    while frontier:
        nxt = []
        for hist in frontier:
            h = build(hist)
            try:
                res.count('evaluations')
                bad = judge_chains(h, phrase_id, res, hist, cfg)
                state = chain_state(h)
                quiescent = _ends_with_e(hist)
                key = (state, quiescent)
                if bad or key in seen:
                    continue
                seen.add(key)
                res.distinct_add('states', (phrase_id, gaps, chain, how, key))
                res.distinct_add('nontrivial', (phrase_id, gaps, chain, how, key))
                rows = [h.rows(0), h.rows(1)]
                addresses = [[r['address'] for r in rows[c]] for c in (0, 1)]
            finally:
                h.close()
            if quiescent:
                # a wallet restored from the same mnemonic that learns the same usage must regenerate the same
                # addresses in the same order
                used = tuple(frozenset(n for n, u in state[c] if u) for c in (0, 1))
                if used not in recovered:
                    recovered[used] = recover(phrase_id, gaps, used, res)
                rstate, raddresses = recovered[used]
                res.count('evaluations')
                if raddresses != addresses:
                    res.violation({'kind': 'address-chain', 'why': 'restored-wallet-regenerates-different-chain',
                                   'gaps': list(gaps), 'chain': chain},
                                  f'after {hist} the chains hold {[len(a) for a in addresses]} addresses, a wallet restored '
                                  f'from the same seed with the same usage holds {[len(a) for a in raddresses]}',
                                  {'mode': 'chain', 'cfg': cfg, 'history': [list(o) for o in hist]})
                else:
                    res.witness('restored_wallet_regenerated_identical_chains')
                for c in (0, 1):
                    trailing = 0
                    for n, u in reversed(state[c]):
                        if u:
                            break
                        trailing += 1
                    if trailing != gaps[c]:
                        res.tally('interpretation_only:trailing_unused_run_after_ensure_gap_differs_from_gap')
                if any(any(u for _, u in state[c]) for c in (0, 1)):
                    res.witness('chain_extended_after_use')
            if len(hist) >= depth:
                continue
            ops = [('E',)]
            if hist and hist[-1][0] == 'E':
                ops.append(('R',))
            for c in ((0, 1) if chain == 'both' else (chain,)):
                ops += [('U', c, n) for n, u in state[c] if not u]
            for op in ops:
                nxt.append(hist + [op])
        frontier = nxt
    res.setmax('chain_bfs_states', len(seen))
    if cfg['gaps'] == [3, 1] and cfg['chain'] == 0 and cfg['phrase'] == 'P0':
        res.sample({'chain_bfs': cfg, 'states': len(seen)})


GAP_SINGLES = [(20, 6), (21, 6), (22, 6), (25, 6), (30, 22), (41, 41), (64, 45)]


def work_gapchain(item, res):
    """Large / non-default gap settings generated from scratch (no BFS): ensure_address_gap once, then once more after
    the last address of either chain was used; in both states the chains must be exactly ref(m/chain/0..k), every
    generated address must resolve to its BIP32 key through account and ledger, and a wallet restored from the same
    seed with the same usage must hold the same chains."""
    _, phrase_id, gaps, how = item
    gaps = tuple(gaps)
    cfg = {'phrase': phrase_id, 'gaps': list(gaps), 'chain': 'both', 'depth': 4, 'how': how}
    h = ChainH(phrase_id, gaps, how)
    try:
        hist = [('E',)]
        h.apply(hist[0])
        res.count('executions')
        res.count('evaluations')
        bad = judge_chains(h, phrase_id, res, hist, cfg)
        lens = [len(h.rows(c)) for c in (0, 1)]
        if not bad and lens != list(gaps):
            res.tally('interpretation_only:first_ensure_gap_generated_other_than_gap_addresses')
        if not bad:
            for c in (0, 1):
                op = ('U', c, lens[c] - 1)
                h.apply(op)
                hist.append(op)
            hist.append(('E',))
            h.apply(('E',))
            res.count('evaluations')
            bad = judge_chains(h, phrase_id, res, hist, cfg)
        if not bad:
            state = chain_state(h)
            addresses = [[r['address'] for r in h.rows(c)] for c in (0, 1)]
    finally:
        h.close()
    if not bad:
        used = tuple(frozenset(n for n, u in state[c] if u) for c in (0, 1))
        _, raddresses = recover(phrase_id, gaps, used, res)
        res.count('evaluations')
        if raddresses != addresses:
            res.violation({'kind': 'address-chain', 'why': 'restored-wallet-regenerates-different-chain', 'gaps': list(gaps),
                           'chain': 'both'},
                          f'gaps {gaps}: after {hist} the chains hold {[len(a) for a in addresses]} addresses, a restored wallet '
                          f'{[len(a) for a in raddresses]}', {'mode': 'chain', 'cfg': cfg, 'history': [list(o) for o in hist]})
        else:
            res.witness('large_gap_chain_generated_from_scratch_is_contiguous_and_restorable')
            if max(len(a) for a in addresses) > 41:
                res.witness('chain_longer_than_41_addresses')
    res.distinct_add('nontrivial', ('gapchain', phrase_id, gaps, how))


def _ends_with_e(hist):
    """True if no address was marked used after the last ensure_address_gap (a reload in between is fine)."""
    for op in reversed(hist):
        if op[0] == 'E':
            return True
        if op[0] == 'U':
            return False
    return False


def work_account(item, res):
    """Account-level strings: the keys an account stores are the reference's master strings; a reload from the
    stored dict (seed, or private key string only, or public key string only) gives the same addresses."""
    from refs import bip32
    _, phrase_id = item
    m = bip32.master(ref_seed(PHRASES[phrase_id]))
    h = ChainH(phrase_id, (3, 2))
    try:
        res.count('evaluations')
        d = _try(h.account.to_dict)
        if isinstance(d, _Raised):
            res.violation({'kind': 'account-keys', 'why': 'to_dict-raised'},
                          f'account of {phrase_id}: serialising the account keys raised {type(d.e).__name__}: {d.e}',
                          {'mode': 'account', 'phrase': phrase_id})
        elif d['private_key'] != m.xprv() or d['public_key'] != m.xpub():
            res.violation({'kind': 'account-keys', 'why': 'stored-strings-differ-from-reference'},
                          f"account of {phrase_id}: stored extended keys differ from BIP32 master keys of the seed",
                          {'mode': 'account', 'phrase': phrase_id})
        if h.account.id != bip32.address(m.pubkey, b'\x55'):
            res.violation({'kind': 'account-keys', 'why': 'account-id'}, 'account id is not the master address',
                          {'mode': 'account', 'phrase': phrase_id})
        h.apply(('E',))
        first = [[r['address'] for r in h.rows(c)] for c in (0, 1)]
        judge_chains(h, phrase_id, res, [('E',)], {'phrase': phrase_id, 'gaps': [3, 2], 'chain': 0, 'depth': 1, 'how': 'seed'})
    finally:
        h.close()
    for how in ('xprv', 'xpub'):
        res.count('evaluations')
        h2 = ChainH(phrase_id, (3, 2), 'xprv')
        try:
            if how == 'xpub':
                h2.dict.pop('private_key')
                h2.dict['public_key'] = m.xpub()
                h2._make_account()
            h2.apply(('E',))
            again = [[r['address'] for r in h2.rows(c)] for c in (0, 1)]
            if again != first:
                res.violation({'kind': 'account-keys', 'why': f'reload-from-{how}-gives-different-addresses'},
                              f'account restored from its {how} string generates different addresses',
                              {'mode': 'account', 'phrase': phrase_id})
            else:
                res.witness(f'account_restored_from_{how}_regenerates_same_addresses')
        finally:
            h2.close()
    res.distinct_add('nontrivial', ('account', phrase_id))


# ---------------------------------------------------------------------------------------------------------
# account-level key lookup: for every generated address, in any query order
# ---------------------------------------------------------------------------------------------------------

KEY_WALLETS = {
    # two hierarchical accounts in one wallet (restored from xprv strings: cheap to rebuild for every sequence)
    'K1': [{'phrase': 'P0', 'gen': 'hd', 'gaps': (3, 2), 'how': 'xprv'},
           {'phrase': 'P1', 'gen': 'hd', 'gaps': (2, 2), 'how': 'xprv'}],
    # seed-restored hierarchical account + single-address account
    'K2': [{'phrase': 'P1', 'gen': 'hd', 'gaps': (2, 3), 'how': 'seed'},
           {'phrase': 'P0', 'gen': 'single', 'how': 'seed'}],
    # default gaps (20 receiving / 6 change), seed and xprv
    'K3': [{'phrase': 'P0', 'gen': 'hd', 'gaps': (20, 6), 'how': 'seed'},
           {'phrase': 'P1', 'gen': 'hd', 'gaps': (20, 6), 'how': 'xprv'}],
}
PASSWORD = 'correct horse'


class KeyEnv:
    """What run_key_sequence needs: accounts, their generated addresses [account][chain] -> [address...] (read from
    the database), specs, encrypted flags."""

    def __init__(self, loop, ledger, wallet, accounts, specs, addresses):
        self.loop, self.ledger, self.wallet = loop, ledger, wallet
        self.accounts, self.specs, self.addresses = accounts, specs, addresses
        self.encrypted = [False] * len(accounts)

    @classmethod
    def of_chain_harness(cls, h, phrase_id):
        rows = [[r['address'] for r in h.rows(c)] for c in (0, 1)]
        return cls(h.loop, h.ledger, h.wallet, [h.account], [{'phrase': phrase_id, 'gen': 'hd'}], [rows])


class KeyH:
    """Real Ledger + Database + Wallet with several Accounts whose addresses were generated once by
    ensure_address_gap(); reset() rebuilds the Account objects (and with them every per-account cache) on the
    same database, as a wallet restart does."""

    def __init__(self, wallet_id):
        from vf.vloop import VLoop
        from lbry.wallet import Ledger, Database, Headers, Wallet
        from refs import bip32
        self.loop = VLoop().activate()
        self.closed = False
        self.specs = KEY_WALLETS[wallet_id]
        try:
            self.ledger = Ledger({'db': Database(':memory:'), 'headers': Headers(':memory:'), 'network': _FakeNetwork()})
            self.loop.run(self.ledger.db.open())
            self.wallet = Wallet()
            self.dicts = []
            for k, sp in enumerate(self.specs):
                if sp['gen'] == 'hd':
                    gen = {'name': 'deterministic-chain',
                           'receiving': {'gap': sp['gaps'][0], 'maximum_uses_per_address': 1},
                           'change': {'gap': sp['gaps'][1], 'maximum_uses_per_address': 1}}
                else:
                    gen = {'name': 'single-address'}
                d = {'name': f'k{k}', 'address_generator': gen}
                if sp['how'] == 'seed':
                    d['seed'] = PHRASES[sp['phrase']]
                else:
                    d['private_key'] = bip32.master(ref_seed(PHRASES[sp['phrase']])).xprv()
                self.dicts.append(d)
            self.reset()
            self.addresses = []
            for acc, sp in zip(self.accounts, self.specs):
                self.loop.run(acc.ensure_address_gap())
                chains = (0, 1) if sp['gen'] == 'hd' else (0,)
                per = []
                for c in chains:
                    recs = self.loop.run(acc.address_managers[c].get_address_records(order_by='n asc'))
                    per.append([r['address'] for r in recs])
                if len(per) == 1:
                    per.append([])
                self.addresses.append(per)
        except BaseException:
            self.close()
            raise

    def reset(self):
        from lbry.wallet import Account
        self.ledger.accounts.clear()
        self.wallet.accounts.clear()
        self.accounts = [Account.from_dict(self.ledger, self.wallet, dict(d)) for d in self.dicts]

    def env(self):
        return KeyEnv(self.loop, self.ledger, self.wallet, self.accounts, self.specs, self.addresses)

    def close(self):
        if self.closed:
            return
        self.closed = True
        try:
            self.loop.run(self.ledger.db.close())
        except Exception:   # noqa
            pass
        finally:
            self.loop.shutdown()


def _key_call(env, op):
    """One lookup on the real objects.  op = (kind, account, chain, n, api); kind q = private key, p = public key;
    api A = Account.get_*_key(chain, n), M = AddressManager.get_*_key(n), L = Ledger.get_*_key_for_address()."""
    kind, a, c, n, api = op
    acc = env.accounts[a]
    if api == 'A':
        return acc.get_private_key(c, n) if kind == 'q' else acc.get_public_key(c, n)
    if api == 'M':
        am = acc.address_managers[c]
        return am.get_private_key(n) if kind == 'q' else am.get_public_key(n)
    address = env.addresses[a][c][n]
    if kind == 'q':
        return env.loop.run(env.ledger.get_private_key_for_address(env.wallet, address))
    return env.loop.run(env.ledger.get_public_key_for_address(env.wallet, address))


def _history_tags(seq, i):
    """How the lookups before position i relate to lookup i (names the history shape in the signature)."""
    _, a, c, _, _ = seq[i]
    tags = set()
    for op in seq[:i]:
        if op[0] in ('x', 'd'):
            tags.add('lock-unlock' if op[1] == a else 'other-account-locked')
        elif op[1] != a:
            tags.add('other-account')
        elif op[2] != c:
            tags.add('other-chain')
        else:
            tags.add('same-chain')
    return sorted(tags) or ['first-lookup']


def run_key_sequence(env, seq, res, replay, context='', start=0):
    """Executes the lookups / lock / unlock operations in order and judges every answer.  Returns a description of
    the first deviation (also recorded as a violation) or None.  Operations before `start` already ran on these
    objects (they are history only)."""
    first_bad = None
    for i in range(start, len(seq)):
        op = seq[i]
        if op[0] == 'x':
            env.accounts[op[1]].encrypt(PASSWORD)
            env.encrypted[op[1]] = True
            continue
        if op[0] == 'd':
            ok = env.accounts[op[1]].decrypt(PASSWORD)
            env.encrypted[op[1]] = False
            if ok is not True:
                res.tally('decrypt_with_right_password_refused(C13_territory)')
            continue
        kind, a, c, n, api = op
        sp = env.specs[a]
        want = ref_key(sp['phrase'], sp['gen'], c, n)
        address = env.addresses[a][c][n]
        res.count('evaluations')
        res.count('key_lookups')
        got = _try(lambda: _key_call(env, op))
        field = None
        if isinstance(got, _Raised):
            if kind == 'q' and env.encrypted[a]:
                res.tally('private_key_lookup_on_locked_account_refused')
                continue
            field, what = 'raised', f'raised {type(got.e).__name__}: {got.e}'
        elif got is None:
            if kind == 'q' and env.encrypted[a]:
                res.tally('private_key_lookup_on_locked_account_answers_None')
                continue
            field, what = 'none', 'returned None for an address the account generated'
        else:
            if kind == 'q':
                view = _try(lambda: (got.private_key_bytes, got.public_key.pubkey_bytes, got.public_key.address,
                                     got.chain_code, got.depth, got.n))
                exp = (want['priv'], want['pub'], want['address'], want['cc'], want['depth'], want['n'])
                names = ('private-key', 'public-key', 'address', 'chain-code', 'depth', 'n')
            else:
                view = _try(lambda: (got.pubkey_bytes, got.address, got.chain_code, got.depth, got.n))
                exp = (want['pub'], want['address'], want['cc'], want['depth'], want['n'])
                names = ('public-key', 'address', 'chain-code', 'depth', 'n')
            if isinstance(view, _Raised):
                field, what = 'raised', f'reading the returned key raised {type(view.e).__name__}: {view.e}'
            else:
                for nm, g, e in zip(names, view, exp):
                    if g != e:
                        field, what = nm, f'{nm} {_show(g)} is not that of the BIP32 key ({_show(e)})'
                        break
                if field is None and want['address'] != address:
                    field, what = 'stored-address', f'stored address {address} is not the BIP32 address {want["address"]}'
        if field is None:
            continue
        path = f"m/{c}/{n}" if sp['gen'] == 'hd' else 'm'
        tags = _history_tags(seq, i)
        msg = (f"{'private' if kind == 'q' else 'public'} key lookup {i} via {api} for account {a} {path} "
               f"({address}) {what}; history {tags}{' - ' + context if context else ''}")
        res.violation({'kind': 'account-key-lookup', 'what': 'private' if kind == 'q' else 'public', 'api': api,
                       'field': field, 'generator': sp['gen'], 'history': tags},
                      msg, dict(replay, seq=[list(o) for o in seq], failing=i))
        if first_bad is None:
            first_bad = msg
    return first_bad


def key_ops(env_specs, addresses, alphabet):
    """Lookup alphabet.  'R' (reduced): index 0 only, private via A and L, public via A.  'F' (full): first and
    last generated index, both kinds via A, M and L.  'G': as F without the AddressManager API."""
    ops = []
    for a, sp in enumerate(env_specs):
        chains = (0, 1) if sp['gen'] == 'hd' else (0,)
        for c in chains:
            last = len(addresses[a][c]) - 1
            idx = [0] if alphabet == 'R' else sorted({0, last})
            for n in idx:
                if alphabet == 'R':
                    ops += [('q', a, c, n, 'A'), ('q', a, c, n, 'L'), ('p', a, c, n, 'A')]
                else:
                    ops += [(k, a, c, n, api) for k in 'qp' for api in ('AML' if alphabet == 'F' else 'AL')]
    return ops


def key_sequences(ops, n_accounts, depth, first):
    """Every sequence of exactly `depth` operations that starts with `first`, over the lookups in ops plus the
    legal lock ('x', a) / unlock ('d', a) operation of every account."""
    def rec(prefix, enc):
        if len(prefix) == depth:
            yield prefix
            return
        for op in list(ops) + [('d', a) if enc[a] else ('x', a) for a in range(n_accounts)]:
            e2 = enc
            if op[0] in ('x', 'd'):
                e2 = list(enc)
                e2[op[1]] = op[0] == 'x'
            yield from rec(prefix + [op], e2)
    enc = [False] * n_accounts
    if first[0] == 'x':
        enc[first[1]] = True
    yield from rec([first], enc)


def final_sweep(env):
    """After every sequence: every generated address of every account, chain 0 then chain 1, private (if the
    account is unlocked) and public key through the account."""
    seq = []
    for a, sp in enumerate(env.specs):
        for c in ((0, 1) if sp['gen'] == 'hd' else (0,)):
            for n in range(len(env.addresses[a][c])):
                if not env.encrypted[a]:
                    seq.append(('q', a, c, n, 'A'))
                seq.append(('p', a, c, n, 'A'))
    return seq


def work_keys(item, res):
    """Exhaustive enumeration of lookup orders: every sequence of `depth` operations whose first operation is
    `first`; fresh Account objects for every sequence."""
    _, wallet_id, alphabet, depth, first_index = item
    h = KeyH(wallet_id)
    try:
        ops = key_ops(h.specs, h.addresses, alphabet)
        firsts = ops + [('x', a) for a in range(len(h.specs))]
        assert len(firsts) == _n_key_firsts(wallet_id, alphabet), (len(firsts), wallet_id, alphabet)
        first = firsts[first_index]
        n = 0
        for seq in key_sequences(ops, len(h.specs), depth, first):
            h.reset()
            env = h.env()
            res.count('executions')
            replay = {'mode': 'keys', 'wallet': wallet_id}
            bad = run_key_sequence(env, seq, res, replay)
            if not bad:
                run_key_sequence(env, seq + final_sweep(env), res, replay, start=len(seq))
            n += 1
            res.distinct_add('nontrivial', ('keys', wallet_id, alphabet, tuple(seq)))
            if any(o[0] == 'q' and o[2] == 1 for o in seq) and any(o[0] == 'q' and o[2] == 0 for o in seq):
                res.witness('private_keys_requested_on_both_chains_of_one_account_object')
            if any(o[0] == 'x' for o in seq) and any(o[0] == 'd' for o in seq):
                res.witness('lookup_after_lock_and_unlock')
            if len({o[1] for o in seq if o[0] == 'q'}) > 1:
                res.witness('private_keys_requested_from_two_accounts_of_one_wallet')
        if first_index == 0:
            res.sample({'key_lookup_sequences': {'wallet': wallet_id, 'alphabet': alphabet, 'depth': depth,
                                                 'operations': len(firsts), 'example': [list(o) for o in seq]}})
    finally:
        h.close()


def work_keysweep(item, res):
    """Dedicated sweep: every generated address of every account through every API, in four chain orders, each
    lookup asked twice, with lock/unlock at three places; fresh Account objects per run."""
    _, wallet_id = item
    h = KeyH(wallet_id)
    try:
        for order in ('0then1', '1then0', 'interleaved', 'interleaved-desc'):
            for api in 'AML':
                for lock in ('none', 'between-chains', 'before-everything', 'other-account-between'):
                    h.reset()
                    env = h.env()
                    res.count('executions')
                    seq = []
                    if lock == 'before-everything':
                        for a in range(len(h.specs)):
                            seq += [('x', a), ('d', a)]
                    for a, sp in enumerate(h.specs):
                        chains = (0, 1) if sp['gen'] == 'hd' else (0,)
                        lens = [len(h.addresses[a][c]) for c in chains]
                        if order in ('0then1', '1then0'):
                            cs = chains if order == '0then1' else tuple(reversed(chains))
                            cells = []
                            for k, c in enumerate(cs):
                                if k == 1 and lock == 'between-chains':
                                    cells += [('x', a), ('d', a)]
                                if k == 1 and lock == 'other-account-between':
                                    o = (a + 1) % len(h.specs)
                                    cells += [('x', o), ('d', o)]
                                cells += [(c, n) for n in range(lens[chains.index(c)])]
                        else:
                            cells = []
                            for n in range(max(lens)):
                                for c in chains:
                                    if n < lens[chains.index(c)]:
                                        cells.append((c, n))
                            if order == 'interleaved-desc':
                                cells.reverse()
                            if lock == 'between-chains':
                                cells.insert(len(cells) // 2, ('x', a))
                                cells.insert(len(cells) // 2 + 1, ('d', a))
                        for cell in cells:
                            if cell[0] in ('x', 'd'):
                                seq.append(cell)
                            else:
                                c, n = cell
                                seq += [('q', a, c, n, api), ('p', a, c, n, api), ('q', a, c, n, api)]
                    run_key_sequence(env, seq, res, {'mode': 'keys', 'wallet': wallet_id})
                    res.distinct_add('nontrivial', ('keysweep', wallet_id, order, api, lock))
        res.witness('every_generated_address_looked_up_in_four_chain_orders')
    finally:
        h.close()


# ---------------------------------------------------------------------------------------------------------
# driver
# ---------------------------------------------------------------------------------------------------------

def _dispatch(item, res):
    {'tree': work_tree, 'vectors': work_vectors, 'b58all': work_b58_all, 'b58b': work_b58_boundary,
     'corrupt': work_b58_corrupt, 'mn': work_mnemonic, 'chain': work_chain, 'account': work_account,
     'keys': work_keys, 'keysweep': work_keysweep, 'gapchain': work_gapchain}[item[0]](item, res)


def _n_key_firsts(wallet_id, alphabet):
    """Number of possible first operations (lookups + one lock per account) without building the harness."""
    specs = KEY_WALLETS[wallet_id]
    n = 0
    for sp in specs:
        if sp['gen'] == 'hd':
            for g in sp['gaps']:
                n += 3 if alphabet == 'R' else (6 if alphabet == 'F' else 4) * len({0, g - 1})
        else:
            n += 3 if alphabet == 'R' else (6 if alphabet == 'F' else 4)
    return n + len(specs)


def run(ctx):
    from refs import bip32
    bip32.selftest()
    ctx.res.witness('reference_reproduces_published_bip32_vectors_1_to_3', 14)
    depth = 4 if ctx.quick else 6
    items = []
    # derivation trees: main ledger to full depth, regtest ledger two levels shallower
    split = 1 if ctx.quick else 2
    for seed_name in seeds():
        for ledger_name, d in (('main', depth), ('regtest', depth - 2)):
            items.append(('tree', seed_name, ledger_name, [], min(split, d)))
            if d > split:
                for prefix in itertools.product(INDICES, repeat=split):
                    items.append(('tree', seed_name, ledger_name, list(prefix), d - split))
    items.append(('vectors',))
    # Base58Check
    max_len = 2 if ctx.quick else 3
    for ln in range(1, max_len + 1):
        total = 256 ** ln
        step = 65536 if ln < 3 else 131072
        items += [('b58all', ln, lo, min(lo + step, total)) for lo in range(0, total, step)]
    items.append(('b58b',))
    items += [('corrupt', k) for k in range(20)]
    # mnemonic
    top = 2048 * 40 + 2048 if ctx.quick else 2048 ** 2 + 2048
    step = 16384 if ctx.quick else 65536
    items += [('mn', 'range', lo, min(lo + step, top + 1)) for lo in range(1, top + 1, step)]
    items += [('mn', 'grid'), ('mn', 'pow')]
    # address chains
    chain_depth = 5 if ctx.quick else 7
    cfgs = []
    for g in (1, 2, 3):
        cfgs.append({'phrase': 'P0', 'gaps': [g, 1], 'chain': 0, 'depth': chain_depth, 'how': 'seed'})
        cfgs.append({'phrase': 'P0', 'gaps': [1, g], 'chain': 1, 'depth': chain_depth, 'how': 'seed'})
    cfgs.append({'phrase': 'P1', 'gaps': [2, 2], 'chain': 'both', 'depth': chain_depth - 1, 'how': 'xprv'})
    if not ctx.quick:
        for g in (1, 2, 3):
            cfgs.append({'phrase': 'P1', 'gaps': [g, 2], 'chain': 0, 'depth': chain_depth, 'how': 'xprv'})
            cfgs.append({'phrase': 'P1', 'gaps': [2, g], 'chain': 1, 'depth': chain_depth, 'how': 'seed'})
        cfgs.append({'phrase': 'P0', 'gaps': [3, 2], 'chain': 'both', 'depth': chain_depth - 1, 'how': 'seed'})
    chain_items = [('chain', c) for c in cfgs]
    chain_items += [('gapchain', 'P0' if k % 2 == 0 else 'P1', list(g), 'seed' if k % 3 == 0 else 'xprv')
                    for k, g in enumerate(GAP_SINGLES)]
    if not ctx.quick:
        chain_items += [('gapchain', 'P1' if k % 2 == 0 else 'P0', [g[1], g[0]], 'xprv') for k, g in enumerate(GAP_SINGLES)]
        chain_items += [('gapchain', 'P0', [g, g], 'xprv') for g in (19, 23, 39, 40, 42, 43, 60, 61, 62, 63, 83, 84, 100)]
    # account-level key lookup: every order of `depth` operations; item = one first operation
    key_plan = [('K1', 'R', 3), ('K1', 'F', 2)] if ctx.quick else \
               [('K1', 'R', 4), ('K1', 'G', 3), ('K1', 'F', 2), ('K2', 'R', 3), ('K2', 'F', 2)]
    key_items = []
    for wid, alphabet, kdepth in key_plan:
        n_first = _n_key_firsts(wid, alphabet)
        key_items += [('keys', wid, alphabet, kdepth, i) for i in range(n_first)]
    key_items += [('keysweep', wid) for wid in (('K1', 'K2') if ctx.quick else ('K1', 'K2', 'K3'))]
    account_items = [('account', p) for p in PHRASES]
    # long items first
    ctx.pmap(_dispatch, chain_items + key_items + items + account_items)
    ctx.meta.update(
        rule=('tree: every path of length <= D over the indices {0, 1, 2^31-1, 2^31, 2^31+1, 2^32-1} from 8 seeds (BIP32 '
              'vectors 1-3, 16/17/32/63/64 bytes) on the main-net ledger (D) and the regtest ledger (D-2); at every node all '
              'fields + both strings + address + string/address round trips, at every non-hardened edge public derivation, '
              'at every hardened edge its refusal.  Base58Check: every payload of 1..L bytes; 26 boundary lengths x leading-'
              'zero runs 0..4 x 4 fills; every substitution (58+6 symbols), adjacent transposition, deletion and every single-bit flip of the '
              'underlying payload||checksum bytes of 20 strings.  Mnemonic: every integer 1..T, every (high word, low word in {0,1,2047}), +-64 around 2048^k (k<=12) '
              'and 2^132.  Chains: BFS over {ensure gap, reload, mark address j used} to depth 5 (7 thorough), gaps 1..3 on '
              'either chain and on both chains together, plus from-scratch singles with (receiving, change) gaps (20,6) (21,6) '
              '(22,6) (25,6) (30,22) (41,41) (64,45) - ensure gap, use the last address of each chain, ensure gap, restore; in every chain state every generated address is looked up (private '
              'and public key, via account and ledger, chain order alternating).  Key lookup: every sequence of d operations '
              'over {private/public key lookup via Account / AddressManager / Ledger for first and last index of either '
              'chain of either account of one wallet, lock, unlock} on fresh Account objects, each followed by a sweep over '
              'all generated addresses; plus a dedicated sweep in four chain orders x three APIs x four lock placements.  '
              'Distinct non-trivial = distinct (seed, ledger, path) nodes + payload blocks + boundary cells + '
              'corrupted strings + mnemonic blocks + chain states.'),
        exhaustive=True,
        bounds={'tree_depth': depth, 'regtest_tree_depth': depth - 2, 'base58check_all_payloads_up_to_bytes': max_len,
                'mnemonic_dense_range_top': top, 'chain_bfs_depth': chain_depth, 'gaps': [1, 2, 3],
                'from_scratch_gap_settings': [list(g) for g in GAP_SINGLES],
                'key_lookup_plan(wallet, alphabet, sequence length)': [list(x) for x in key_plan]},
        bound_completed=f'tree depth {depth}; chain BFS depth {chain_depth}',
        assumptions=[
            'refs/bip32 + refs/secp256k1 are written from BIP32 / SEC1 / the Base58Check description and reproduce the '
            'published BIP32 test vectors 1-3 (checked at start)',
            'account seed = PBKDF2-HMAC-SHA512(phrase, "lbryum", 2048 rounds) as the wallet documents',
            're-encoding a child key parsed from a string loses the parent fingerprint by design: string identity is '
            'demanded for depth-0 keys only (tallied otherwise)',
            'a corrupted string whose checksum happens to be valid for the reference too is not a checksum error (tallied)',
            'address decoding = Base58.decode_check / Ledger.is_pubkey_address; Ledger.address_to_hash160 does not verify '
            'checksums by design (tallied)',
            'regenerates the same addresses = a wallet restored from the same seed that learns the same address usage '
            'ends with the same chains in the same order; the exact trailing-gap size is tallied only',
            'mnemonic languages other than English fail to load in this tree (wrong module path): outside the statement',
            'key lookup: hidden caches are assumed to live in Account / AddressManager objects (rebuilt for every '
            'sequence); Ledger and Database are rebuilt per work item; lock/unlock = Account.encrypt/decrypt (what '
            'Wallet.lock/unlock call); a private-key lookup on a locked account may refuse but never answer wrongly',
        ],
        expected_witnesses=['private_key_with_leading_zero_byte', 'public_key_x_with_leading_zero_byte',
                            'chain_code_with_leading_zero_byte', 'hardened_child_of_private_key_with_leading_zero_byte',
                            'normal_child_of_public_key_with_leading_zero_byte', 'published_bip32_vector_reproduced',
                            'restored_wallet_regenerated_identical_chains', 'chain_extended_after_use',
                            'account_restored_from_xpub_regenerates_same_addresses',
                            'private_keys_requested_on_both_chains_of_one_account_object',
                            'lookup_after_lock_and_unlock', 'private_keys_requested_from_two_accounts_of_one_wallet',
                            'every_generated_address_looked_up_in_four_chain_orders',
                            'large_gap_chain_generated_from_scratch_is_contiguous_and_restorable',
                            'chain_longer_than_41_addresses'],
    )


def replay(data):
    from vf.core import Result
    res = Result()
    mode = data['mode']
    log = ''
    if mode == 'node':
        path = [int(x) for x in data['path']]
        ledger, lk, lpub, rn = _start(data['seed'], data['ledger'], path[:-1])
        if path:
            # re-run the parent's edge so that public derivation is judged as well
            sub = Result()
            walk(sub, lk, lpub, rn, ledger, data['seed'], data['ledger'], path[:-1], 1)
            for k, v in sub.violations.items():
                if v['replay'].get('path') == path:
                    res.violations[k] = v
        else:
            check_node(res, lk, rn, ledger, data['seed'], data['ledger'], [])
        log = f"node m/{'/'.join(map(str, path))} of seed {data['seed']} on {data['ledger']}"
    elif mode == 'vector':
        work_vectors(('vectors',), res)
    elif mode == 'b58':
        from lbry.crypto.base58 import Base58
        from refs import bip32
        _b58_case(res, bytes.fromhex(data['payload']), Base58, bip32, 'replay')
    elif mode == 'corrupt':
        from lbry.crypto.base58 import Base58
        from refs import bip32
        t = data['string']
        try:
            ref = bip32.b58check_decode(t)
        except ValueError:
            ref = None
        try:
            got = bytes(Base58.decode_check(t))
        except Exception as e:   # noqa
            got = None
            log = f'decode_check raised {type(e).__name__}'
        if (ref is None) != (got is None) or ref != got:
            res.violation({'kind': 'base58check-corrupted'}, f'decode_check({t!r}) -> {got}, reference {ref}', data)
        else:
            work_b58_corrupt(('corrupt', data['k']), res)
    elif mode == 'mnemonic':
        from lbry.wallet.mnemonic import Mnemonic
        _mn_check(res, Mnemonic('en'), int(data['i']))
    elif mode == 'chain':
        cfg = data['cfg']
        hist = [tuple(o) for o in data['history']]
        h = ChainH(cfg['phrase'], tuple(cfg['gaps']), cfg['how'])
        try:
            for op in hist:
                h.apply(op)
            judge_chains(h, cfg['phrase'], res, hist, cfg)
            state = chain_state(h)
            addresses = [[r['address'] for r in h.rows(c)] for c in (0, 1)]
        finally:
            h.close()
        used = tuple(frozenset(n for n, u in state[c] if u) for c in (0, 1))
        _, raddresses = recover(cfg['phrase'], tuple(cfg['gaps']), used, res)
        log = f'history {hist}: chains {[len(a) for a in addresses]}, restored wallet {[len(a) for a in raddresses]}'
        if _ends_with_e(hist) and raddresses != addresses:
            res.violation({'kind': 'address-chain', 'why': 'restored-wallet-regenerates-different-chain'}, log, data)
    elif mode == 'account':
        work_account(('account', data['phrase']), res)
    elif mode == 'keys':
        h = KeyH(data['wallet'])
        try:
            seq = [tuple(o) for o in data['seq']]
            log = run_key_sequence(h.env(), seq, res, {'mode': 'keys', 'wallet': data['wallet']}) or \
                f'all {len(seq)} operations answered with the BIP32 keys'
        finally:
            h.close()
    else:
        raise ValueError(mode)
    for v in res.violations.values():
        log += '\n' + v['what']
    return bool(res.violations), log

