"""C20 - LBC <-> dewies conversion is exact (bounded-exhaustive input enumeration vs. an integer/decimal
reference written from the statement)."""
import itertools

PROPERTY = 'C20'
LEVEL = 'exploration'

COIN = 10 ** 8
SUPPLY = 1_083_202_000 * COIN // 1000 * 1000   # ~1.083e17 (boundary only; any value works)
LIMIT = 21 * 10 ** 16


def ref_format(n):
    """Exact decimal of n / 10^8: trailing zeros trimmed, at least one fractional digit."""
    sign = '-' if n < 0 else ''
    q, r = divmod(abs(n), COIN)
    s = f'{q}.{r:08d}'.rstrip('0')
    if s.endswith('.'):
        s += '0'
    return sign + s


DIGITS = '0123456789'


def ref_parse(s):
    """None = must be rejected; else the exact integer."""
    if not isinstance(s, str) or s.count('.') != 1:
        return None
    w, f = s.split('.')
    if not (1 <= len(w) <= 10 and 1 <= len(f) <= 8):
        return None
    if any(ch not in DIGITS for ch in w + f):
        return None
    return int(w) * COIN + int(f.ljust(8, '0'))


def check_int(n, res, d2l, l2d):
    res.count('evaluations')
    exp = ref_format(n)
    try:
        got = d2l(n)
    except Exception as e:   # noqa
        got = f'<{type(e).__name__}>'
    if got != exp:
        res.violation({'kind': 'format-inexact', 'sign': '-' if n < 0 else '+', 'digits': len(str(abs(n)))},
                      f'dewies_to_lbc({n}) = {got!r}, exact value is {exp!r}', {'mode': 'int', 'n': n})
        return
    if n >= 0:
        try:
            back = l2d(got)
        except Exception as e:   # noqa
            back = f'<{type(e).__name__}>'
        if back != n:
            res.violation({'kind': 'roundtrip', 'digits': len(str(n))},
                          f'lbc_to_dewies(dewies_to_lbc({n})) = {back!r}', {'mode': 'int', 'n': n})


def check_dict(n, res, dv2l):
    """dict_values_to_lbc - the entry point the daemon's balance/response paths use: every int leaf, at any
    nesting depth, must come out as the exact decimal string; other leaves are passed through."""
    res.count('evaluations')
    exp = ref_format(n)
    src = {'a': n, 'nested': {'b': n, 'deeper': {'c': n}}, 'text': 'x', 'none': None, 'flag': True}
    try:
        got = dv2l(src)
    except Exception as e:   # noqa
        got = {'a': f'<{type(e).__name__}>'}
    leaves = (got.get('a'), (got.get('nested') or {}).get('b'), ((got.get('nested') or {}).get('deeper') or {}).get('c'))
    if any(leaf != exp for leaf in leaves):
        res.violation({'kind': 'dict-format', 'sign': '-' if n < 0 else '+', 'digits': len(str(abs(n)))},
                      f'dict_values_to_lbc formats the int leaf {n} as {leaves!r}, exact value is {exp!r}',
                      {'mode': 'dict', 'n': n})
    elif got.get('text') != 'x' or got.get('none') is not None:
        res.violation({'kind': 'dict-passthrough'}, f'dict_values_to_lbc changed a non-int leaf: {got!r}',
                      {'mode': 'dict', 'n': n})
    if isinstance(got.get('flag'), str):
        res.tally('interpretation_only:bool_leaf_formatted_as_amount')
    # a sequence of calls: results are independent objects, a later call with other keys neither inherits
    # earlier keys nor rewrites an earlier result that is still held
    try:
        first = dv2l({'total': n, 'only_first': 7})
        snapshot = dict(first)
        second = dv2l({'total': n + 1 if n < LIMIT else n - 1, 'only_second': {'x': 1}})
        third = dv2l({})
        bad = None
        if first != snapshot:
            bad = f'an earlier result was rewritten by a later call: {snapshot!r} -> {first!r}'
        elif set(second) != {'total', 'only_second'} or second.get('total') != ref_format(n + 1 if n < LIMIT else n - 1):
            bad = f'second call returned {second!r}'
        elif third != {}:
            bad = f'dict_values_to_lbc({{}}) returned {third!r} after earlier calls'
        elif first is second or second is third:
            bad = 'two calls returned the same dict object'
        if bad:
            res.violation({'kind': 'dict-call-sequence'}, bad, {'mode': 'dict', 'n': n})
    except Exception as e:   # noqa
        res.violation({'kind': 'dict-call-sequence', 'exc': type(e).__name__}, f'call sequence raised {e!r}', {'mode': 'dict', 'n': n})


def check_str(s, res, l2d):
    res.count('evaluations')
    exp = ref_parse(s)
    try:
        got = l2d(s)
    except ValueError:
        got = None
    except Exception as e:   # noqa
        got = f'<{type(e).__name__}>'
    if got != exp:
        shape = ''.join('d' if c in DIGITS else c for c in s)
        res.violation({'kind': 'parse', 'shape': shape if len(shape) <= 24 else shape[:24] + '...'},
                      f'lbc_to_dewies({s!r}) = {got!r}, reference says {"reject" if exp is None else exp}',
                      {'mode': 'str', 's': s})
    elif exp is not None:
        res.count('accepted_strings')


def boundaries():
    bs = [0] + [10 ** k for k in range(0, 18)] + [2 ** k for k in range(50, 58)]
    bs += [SUPPLY, LIMIT, 9007199254740993, 99999999999999999]
    return sorted(b for b in set(bs) if b <= LIMIT)


def work(item, res):
    from lbry.wallet.dewies import dewies_to_lbc as d2l, lbc_to_dewies as l2d
    kind = item[0]
    if kind == 'window':
        _, b, w = item
        from lbry.wallet.dewies import dict_values_to_lbc as dv2l
        for n in range(b - w, min(b + w, LIMIT) + 1):
            check_int(n, res, d2l, l2d)
            if n > 0:
                check_int(-n, res, d2l, l2d)
            if abs(n - b) <= 64:        # the dict entry point: a dense core of every window, both signs
                check_dict(n, res, dv2l)
                if n > 0:
                    check_dict(-n, res, dv2l)
        res.distinct_add('nontrivial', ('window', b))
    elif kind == 'frac_all':
        _, whole, lo, hi = item
        base = whole * COIN
        for f in range(lo, hi):
            check_int(base + f, res, d2l, l2d)
        res.distinct_add('nontrivial', ('frac_all', whole, lo))
    elif kind == 'frac_grid':
        _, whole = item
        base = whole * COIN
        fs = set()
        for j in range(8):
            for k in range(0, 10 ** (8 - j)):
                if k > 99 and j < 6:
                    break
                for d in (-1, 0, 1):
                    f = k * 10 ** j + d
                    if 0 <= f < COIN:
                        fs.add(f)
        for f in sorted(fs):
            check_int(base + f, res, d2l, l2d)
            check_int(-(base + f), res, d2l, l2d)
        res.distinct_add('nontrivial', ('frac_grid', whole))
    elif kind == 'strings':
        _, first, alphabet, maxlen = item
        for ln in range(0, maxlen):
            for tail in itertools.product(alphabet, repeat=ln):
                check_str(first + ''.join(tail), res, l2d)
        res.distinct_add('nontrivial', ('strings', first))
    elif kind == 'digitgrid':
        for wi in range(0, 13):
            for fi in range(0, 11):
                for wd, fd in (('1', '1'), ('9', '9'), ('0', '0'), ('0', '1'), ('1', '0')):
                    variants = [wd * wi + '.' + fd * fi, wd * wi + fd * fi, '0' * 3 + wd * wi + '.' + fd * fi,
                                wd * wi + '.' + fd * fi + '0' * 3, '-' + wd * wi + '.' + fd * fi,
                                '+' + wd * wi + '.' + fd * fi, ' ' + wd * wi + '.' + fd * fi,
                                wd * wi + '.' + fd * fi + ' ', wd * wi + ',' + fd * fi, wd * wi + '.' + fd * fi + 'e1', wd * wi + '.' + fd * fi + 'E1', wd * wi + '.' + fd * fi + 'E-1',
                                wd * wi + '.' + fd * fi + 'E+1', wd * wi + 'E' + fd * fi, wd * wi + '.' + fd * fi + 'e-8',
                                wd * wi + '..' + fd * fi, wd * wi + '.' + fd * fi + '.' + fd]
                    for s in variants:
                        check_str(s, res, l2d)
                    res.distinct_add('nontrivial', ('grid', wi, fi, wd, fd))
        for bad in (None, 1, 1.0, b'1.0', ['1.0']):
            res.count('evaluations')
            try:
                l2d(bad)
                res.violation({'kind': 'parse-nonstring', 'type': type(bad).__name__},
                              f'lbc_to_dewies({bad!r}) accepted', {'mode': 'nonstr', 'repr': repr(bad)})
            except ValueError:
                pass
            except Exception as e:   # noqa
                res.tally(f'nonstring_input_raises_{type(e).__name__}')
        # outside the stated alphabet: tallied only
        for s in ('1.0\n', '١.٢', '1.٠'):
            try:
                l2d(s)
                res.tally('interpretation_only:accepted_outside_ascii_alphabet')
            except ValueError:
                pass


def run(ctx):
    W = 2000 if ctx.quick else 100000
    items = [('window', b, W) for b in boundaries()]
    wholes = [0, 9, 10, 99_999_999, 90_071_992, 1_083_000_000, 2_099_999_999]
    items += [('frac_grid', w) for w in wholes]
    alphabet = '019.-+eE ,_'
    maxlen = 5 if ctx.quick else 6
    items += [('strings', a, alphabet, maxlen) for a in alphabet] + [('strings', '', alphabet, 1)]
    items += [('digitgrid',)]
    if not ctx.quick:
        step = 2_000_000
        items += [('frac_all', w, lo, lo + step) for w in wholes for lo in range(0, COIN, step)]
    ctx.pmap(work, items)
    ctx.res.sample({'int_case': 9007199254740993, 'expected': ref_format(9007199254740993)})
    ctx.res.sample({'int_case': -1, 'expected': ref_format(-1)})
    ctx.res.sample({'str_case': '00000000001.0', 'expected': 'reject (11 integer digits)'})
    ctx.res.sample({'str_case': '1.000000001', 'expected': 'reject (9 fractional digits)'})
    ctx.meta.update(
        rule=('entry points dewies_to_lbc, lbc_to_dewies and dict_values_to_lbc (int leaves at three nesting depths, dense core of every window); integers: every n in +-W windows around 0, 10^k (k<=17), 2^k (50<=k<=57), supply and 2.1e17, '
              'and their negatives; w*10^8+f for 7 whole parts x (quick: every f = k*10^j+-1 grid; thorough: all '
              '10^8 fractional parts); strings: every string of length <= L over "019.-+eE ,_" plus a digit-count '
              'grid 0..12 x 0..10 with 12 decorations each. Non-trivial/distinct = distinct (window | whole part | '
              'string first symbol | grid cell) classes, all of which exercise a boundary named in the statement.'),
        exhaustive=True,
        bounds={'window_half_width': W, 'string_max_len': maxlen, 'all_fractional_parts': not ctx.quick},
        assumptions=['reference = integer divmod formatting / ASCII digit grammar written from the statement',
                     'negative amounts: exact formatting only (the parser is specified to reject a sign)',
                     "inputs with a trailing newline or non-ASCII digits are outside the alphabet (tallied)"],
    )


def replay(data):
    from lbry.wallet.dewies import dewies_to_lbc as d2l, lbc_to_dewies as l2d
    from vf.core import Result
    res = Result()
    if data['mode'] == 'int':
        check_int(int(data['n']), res, d2l, l2d)
        log = f"dewies_to_lbc({data['n']}) -> {d2l(int(data['n']))!r}; exact {ref_format(int(data['n']))!r}"
    elif data['mode'] == 'dict':
        from lbry.wallet.dewies import dict_values_to_lbc as dv2l
        check_dict(int(data['n']), res, dv2l)
        log = f"dict_values_to_lbc({{'a': {data['n']}}}) -> {dv2l({'a': int(data['n'])})!r}; exact {ref_format(int(data['n']))!r}"
    elif data['mode'] == 'str':
        check_str(data['s'], res, l2d)
        log = f"lbc_to_dewies({data['s']!r}); reference {ref_parse(data['s'])!r}"
    else:
        log = 'non-string input case: ' + data['repr']
    for v in res.violations.values():
        log += '\n' + v['what']
    return bool(res.violations), log
