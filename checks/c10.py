"""C10 - blob exchange: honest transfer always completes, lying peers never poison.

Model checking on the real code: the real BlobExchangeClientProtocol / request_blob and the real
BlobServerProtocol + BlobManager run on the virtual loop over the in-memory TCP fabric (vf.tcpfab).  The
harness owns every delivery: how many bytes each data_received gets (cut sets are enumerated outright),
when a FIN arrives, and - in the hostile pairings only - whether a timer fires while data is still in
flight (deviation-bounded DFS over those choice points).

Pairings
  A  real client <-> real server + BlobManager         (fragmentation only, timers never beat data)
  B  real client <-> scripted hostile server            (catalogue x message position x cuts x timers)
  C  scripted hostile client <-> real server, plus a second honest real client on its own connection
"""
import os
import json
import hashlib
import itertools
import shutil
import asyncio

PROPERTY = 'C10'
LEVEL = 'model_checking'
HASHSEEDS = {'quick': 2, 'thorough': 2}

HOST, PORT = '1.2.3.4', 3333
CONNECT_TO = 3.0          # peer_connect_timeout
DL_TO = 10.0              # blob_download_timeout (peer_timeout of the client protocol)
IDLE_TO = 30.0            # server idle_timeout (default)
XFER_TO = 60.0            # server transfer_timeout (default)
EPS = 1e-6
MAX_REQ = 1200            # lbry.blob_exchange.server.MAX_REQUEST_SIZE (asserted at run time)
MIB2 = 2 * 1024 * 1024
RESP_KEYS = {'lbrycrd_address', 'available_blobs', 'blob_data_payment_rate', 'incoming_blob'}


# =====================================================================================================
# blob alphabet and reference wire format (written from the protocol, not from lbry's serialization)
# =====================================================================================================

def sha(data):
    return hashlib.sha384(data).hexdigest()


def filler(n, variant=0):
    """n bytes in 0x30..0x6f (never a brace), different for every variant."""
    return bytes(0x30 + (5 * i + 11 * variant + 1) % 64 for i in range(n))


def prng(n, variant=0):
    return hashlib.shake_256(b'c10-big-%d' % variant).digest(n)


def ref_header(h, length, rate='RATE_ACCEPTED', avail='same', **extra):
    d = {'incoming_blob': {'blob_hash': h, 'length': length}, 'blob_data_payment_rate': rate,
         'available_blobs': [h] if avail == 'same' else avail}
    d.update(extra)
    return json.dumps(d).encode()


def ref_request(h):
    return json.dumps({'requested_blobs': [h], 'lbrycrd_address': True, 'blob_data_payment_rate': 0.0,
                       'requested_blob': h}).encode()


SHAPES = {
    'one': 'a single byte',
    'plain20': '20 bytes without braces',
    'brace': 'starts with }',
    'emptyobj': 'starts with {}',
    'addr': 'starts with {"lbrycrd_address":1} (smallest response-shaped object)',
    'avail': 'starts with {"available_blobs":[]}',
    'jsonother': 'starts with {"a":1} (JSON object that is not response-shaped)',
    'fakehdr': 'starts with a complete fake response header naming another blob',
    'wslead': 'starts with the JSON white-space bytes " \\r\\n\\t" (a parser that skips blanks after the header eats them)',
    'wstail': 'ends with "\\r\\n \\t" (a parser that strips the tail loses them)',
    'wsonly': 'six bytes of white space only',
    'bomnul': 'starts with a UTF-8 BOM and NUL bytes, ends with NUL',
    'big': '2 MiB pseudo-random',
    'bigaddr': '2 MiB starting with {"lbrycrd_address":1}',
}


def make_blob(shape, variant=0):
    if shape == 'one':
        return bytes([0x41 + variant])
    if shape == 'plain20':
        return filler(20, variant)
    if shape == 'brace':
        return b'}' + filler(9, variant)
    if shape == 'emptyobj':
        return b'{}' + filler(10, variant)
    if shape == 'addr':
        return b'{"lbrycrd_address":1}' + filler(10, variant)
    if shape == 'avail':
        return b'{"available_blobs":[]}' + filler(10, variant)
    if shape == 'jsonother':
        return b'{"a":1}' + filler(10, variant)
    if shape == 'fakehdr':
        return ref_header(sha(b'some other blob %d' % variant), 31) + filler(12, variant)
    if shape == 'wslead':
        return b' \r\n\t' + filler(10, variant)
    if shape == 'wstail':
        return filler(10, variant) + b'\r\n \t'
    if shape == 'wsonly':
        return (b' \n\t\r \n' + b' ' * variant)
    if shape == 'bomnul':
        return b'\xef\xbb\xbf\x00\x00' + filler(8, variant) + b'\x00'
    if shape == 'big':
        return prng(MIB2, variant)
    if shape == 'bigaddr':
        return b'{"lbrycrd_address":1}' + prng(MIB2 - 21, variant)
    raise KeyError(shape)


def response_shaped_prefix(blob):
    """Length of the leading complete JSON object of `blob` whose keys are all response keys, else 0.
    (Defines the input class of finding F9.)"""
    head = bytes(blob[:4096])
    pos = 0
    while True:
        q = head.find(b'}', pos)
        if q < 0:
            return 0
        pos = q + 1
        try:
            o = json.loads(head[:pos])
        except ValueError:
            continue
        if isinstance(o, dict) and o and set(o) <= RESP_KEYS:
            return pos
        return 0


# ---- cut-point alphabets --------------------------------------------------------------------------------
# A cut name is resolved against the actual message at run time.  s2c message = header (H bytes) + body.
S2C_PRIORITY = ['he', 'he-1', 'he+1', 'bj0+', 'bj0-', 'mid', 'j0+', 'b1', 'end-1', 'j0-', 'bj1+', 'bj1-', 'bj2+', 'bj2-']
C2S_NAMES = ['b1', 'mid', 'end-1']


def body_braces(body):
    return [i for i in range(min(len(body), 256)) if body[i:i + 1] == b'}'][:3]


def s2c_key(name, body):
    """Canonical (base, delta) of a cut name for a response carrying `body`, or None if not applicable."""
    L = len(body)
    if name == 'b1':
        return ('0', 1)
    if name == 'j0-':
        return ('j0', 0)
    if name == 'j0+':
        return ('j0', 1)
    if name == 'he-1':
        return ('H', -1)
    if name == 'he':
        return ('H', 0)
    if name == 'he+1':
        d = 1
    elif name == 'mid':
        d = L // 2
    elif name == 'end-1':
        d = L - 1
    elif name.startswith('bj'):
        i = int(name[2])
        br = body_braces(body)
        if i >= len(br):
            return None
        d = br[i] + (1 if name.endswith('+') else 0)
    else:
        raise KeyError(name)
    if d <= 0 and name != 'bj0-':
        return None
    if d < 0 or d >= L:
        return None
    return ('H', d)


def s2c_alphabet(body, limit):
    """Applicable cut names for a response with this body, de-duplicated on position, priority order."""
    seen, out = set(), []
    for name in S2C_PRIORITY:
        k = s2c_key(name, body)
        if k is None or k in seen:
            continue
        seen.add(k)
        out.append(name)
    return out[:limit]


def json_end(msg):
    """End offset of the JSON document `msg` starts with (independent parser: json.raw_decode)."""
    _, end = json.JSONDecoder().raw_decode(bytes(msg[:8192]).decode('latin-1'))
    return end


def resolve_s2c(names, msg):
    """names -> sorted relative offsets inside msg = header + body; also returns H."""
    H = json_end(msg)
    body = msg[H:]
    j0 = msg.index(b'}')
    offs = set()
    for name in names:
        k = s2c_key(name, body)
        if k is None:
            continue
        base = {'0': 0, 'j0': j0, 'H': H}[k[0]]
        o = base + k[1]
        if 0 < o < len(msg):
            offs.add(o)
    return sorted(offs), H


def resolve_c2s(names, msg):
    R = len(msg)
    offs = set()
    for name in names:
        o = {'b1': 1, 'mid': R // 2, 'end-1': R - 1}[name]
        if 0 < o < R:
            offs.add(o)
    return sorted(offs)


EXECUTORS = {}


# =====================================================================================================
# reference parser for everything a *real server* put on the wire
# =====================================================================================================

def check_server_stream(stream, held):
    """stream: all bytes one server connection wrote.  held: {hash: bytes} the server holds verified.
    Returns (serves, problem): serves = [(hash, complete?)...]; problem = None or text."""
    dec = json.JSONDecoder()
    pos, serves = 0, []
    while pos < len(stream):
        if stream[pos:pos + 1] != b'{':
            return serves, f'bytes that are neither a JSON message nor an announced blob at offset {pos}'
        try:
            obj, end = dec.raw_decode(stream[pos:pos + 8192].decode('latin-1'))
        except ValueError:
            return serves, f'unparseable message at offset {pos}'
        pos += end
        ib = obj.get('incoming_blob') if isinstance(obj, dict) else None
        if ib is None:
            continue
        if isinstance(ib, dict) and 'blob_hash' not in ib and 'error' in ib:
            continue
        h = ib.get('blob_hash') if isinstance(ib, dict) else None
        ln = ib.get('length') if isinstance(ib, dict) else None
        if h not in held:
            return serves, f'header announces blob {str(h)[:12]} (length {ln!r}) which the server does not hold verified'
        if type(ln) is not int or ln != len(held[h]):
            return serves, f'header announces length {ln!r} for a blob of {len(held[h])} bytes'
        body = stream[pos:pos + ln]
        if body != held[h][:len(body)]:
            return serves, f'bytes after the header differ from blob {h[:12]}'
        serves.append((h, len(body) == ln))
        pos += len(body)
        if len(body) < ln:
            break
    return serves, None


# =====================================================================================================
# one execution = one World (fresh virtual loop, fresh managers, clean directories)
# =====================================================================================================

def _clear_dir(d):
    os.makedirs(d, exist_ok=True)
    for e in os.scandir(d):
        os.remove(e.path)


def _clear_cache_concurrent(fn):
    for c in fn.__closure__ or ():
        if isinstance(c.cell_contents, dict):
            c.cell_contents.clear()


class Obs:
    """What one execution produced."""

    def __init__(self):
        self.log = []            # observation log (events and outcomes), identical on every replay
        self.viol = []           # (signature, what)
        self.states = []         # canonical harness states visited
        self.transitions = 0
        self.witness = set()
        self.tallies = []
        self.timer_devs = 0

    def digest(self):
        return hashlib.sha256('\n'.join(self.log).encode()).hexdigest()


class StubStorage:
    """The only storage call the blob exchange reaches is BlobManager.blob_completed -> add_blobs; the
    sqlite bookkeeping itself is C18's subject, so it is replaced by a recorder here (3 ms / execution)."""

    def __init__(self):
        self.added = []

    async def add_blobs(self, *blobs, finished=False):
        self.added.extend((b[0], b[1], finished) for b in blobs)

    async def close(self):
        return None


class World:
    def __init__(self, base, obs):
        from vf.tcpfab import TcpLoop
        from lbry.conf import Config
        import lbry.blob_exchange.server as srv
        assert srv.MAX_REQUEST_SIZE == MAX_REQ
        self.obs = obs
        self.base = base
        self.sd = os.path.join(base, 's')
        self.cd = os.path.join(base, 'c')
        self.cd2 = os.path.join(base, 'c2')
        for d in (self.sd, self.cd, self.cd2):
            _clear_dir(d)
        self.loop = TcpLoop().activate()
        self.conf = Config(data_dir=base, wallet_dir=base, download_dir=base)
        self.storages = []
        self.managers = []
        self.held = {}               # hash -> bytes the real server holds verified
        self.server_protos = []
        self.state_prefix = ()
        self.state_extra = lambda: ()

    def manager(self, d):
        from lbry.blob.blob_manager import BlobManager
        st = StubStorage()
        bm = BlobManager(self.loop, d, st, self.conf)
        self.storages.append(st)
        self.managers.append(bm)
        return bm

    def hold(self, bm, data):
        """Make the server's manager hold `data` verified, the way a finished download does."""
        h = sha(data)
        if h in self.held:
            return h

        async def put():
            b = bm.get_blob(h, len(data))
            b.get_blob_writer().write(data)
            await b.verified.wait()
        self.loop.run(put())
        self.loop.settle()
        assert bm.get_blob(h).get_is_verified() and h in bm.completed_blob_hashes
        self.held[h] = data
        return h

    def listen_real(self, bm):
        from lbry.blob_exchange.server import BlobServerProtocol

        def factory():
            p = BlobServerProtocol(self.loop, bm, 'bServerPaymentAddress', IDLE_TO, XFER_TO)
            self.server_protos.append(p)
            return p
        self.loop.run(self.loop.create_server(factory, HOST, PORT))

    def listen_scripted(self, factory):
        self.loop.run(self.loop.create_server(factory, HOST, PORT))

    # ---- scheduling --------------------------------------------------------------------------------
    def pump(self, until, chunk=None, chooser=None, timers=True, t_horizon=None, max_events=400000,
             on_step=None):
        """Default schedule with optional TIMER-before-data deviations.  Returns 'done' | 'quiet' |
        'horizon' | 'steps'."""
        loop, obs = self.loop, self.obs
        n = 0
        while True:
            loop.settle()
            if on_step is not None:
                on_step()
            if until is not None and until():
                return 'done'
            evs = loop.tcp_enabled()
            nt = loop.next_timer() if timers else None
            if nt is not None and t_horizon is not None and nt._when > t_horizon:
                nt = None
            if evs:
                ev = evs[0]
                if chooser is not None and nt is not None:
                    if chooser.choose(2, (0, 1), ev.label + '|TIMER') == 1:
                        loop.fire_timer()
                        obs.timer_devs += 1
                        obs.log.append(f'TIMER-FIRST@{loop.time():.3f} (pending {ev.label})')
                        obs.transitions += 1
                        n += 1
                        continue
                size = chunk(ev) if (chunk is not None and ev.kind == 'SEG') else None
                got = loop.tcp_fire(ev, size)
                obs.log.append(f'{ev.label}:{got}' if ev.kind == 'SEG' else ev.label)
            elif nt is not None:
                loop.fire_timer()
                obs.log.append(f'TIMER@{loop.time():.3f}')
            else:
                return 'quiet' if (t_horizon is None or loop.next_timer() is None or not timers) else 'horizon'
            obs.transitions += 1
            n += 1
            if n > max_events:
                return 'steps'

    def check_client_dir(self, d, genuine, pairing, final=False):
        """A file may exist in a client blob directory only if it is, byte for byte, a blob this client is
        allowed to end up with.  Called in every state; file contents are re-read when the listing changes
        and once more at the end."""
        names = os.listdir(d)
        key = (d, tuple(names))
        if not names or (not final and key == getattr(self, '_dir_seen', None)):
            return
        self._dir_seen = key
        for name in names:
            if name not in genuine or file_state(d, name) != genuine[name]:
                self.obs.viol.append(({'kind': 'client-dir-poisoned', 'pairing': pairing},
                                      f'file {name[:12]} in the client blob dir is not a genuine, permitted blob'))

    def snapshot(self):
        """Canonical harness state (hash-seed and identity independent)."""
        parts = []
        for conn in self.loop.tcp_conns:
            cp = conn.client._protocol
            cs = None
            if cp is not None and hasattr(cp, '_blob_bytes_received'):
                f = cp._response_fut
                cs = (len(cp.buf), cp._blob_bytes_received,
                      None if f is None else ('c' if f.cancelled() else ('d' if f.done() else 'p')),
                      bool(cp.writer and not cp.writer.closed()))
            parts.append((conn.offset['c'], conn.offset['s'], len(conn.client.outq), len(conn.server.outq),
                          conn.client._closing, conn.server._closing, conn.server._paused, cs))
        sp = tuple((len(p.buf), p.transport is None) for p in self.server_protos)
        return (self.state_prefix, tuple(parts), sp, round(self.loop.time(), 3), self.state_extra())

    def close(self):
        from lbry.blob_exchange.client import request_blob
        loop = self.loop
        try:
            for conn in list(loop.tcp_conns):
                for t in (conn.client, conn.server):
                    p = t._protocol
                    if p is not None and hasattr(p, 'close') and hasattr(p, '_blob_bytes_received'):
                        p.close()
            for bm in self.managers:
                bm.stop()
            loop.settle()
            for st in self.storages:
                try:
                    loop.run(st.close())
                except Exception:   # noqa
                    pass
        finally:
            _clear_cache_concurrent(request_blob)
            loop.shutdown()


class Cutter:
    """Turns a set of cut names (or 'bytes1') into segment sizes for one direction of one connection.
    A new message starts when everything written before has been handed out; by then the whole message
    is in flight (the default schedule settles the sender before anything is delivered)."""

    def __init__(self, spec, direction, note=None):
        self.spec = spec
        self.direction = direction      # 's2c' or 'c2s'
        self.end = 0
        self.cuts = []
        self.note = note                # callback(start, H, total) per message
        self.used = []                  # per message: (relative cuts, H)

    def size(self, ev, conn):
        if self.spec == 'bytes1':
            return 1
        side = ev.side
        pos = conn.offset[side]
        if pos >= self.end:
            stream = conn.stream('s' if side == 'c' else 'c')
            msg = stream[pos:]
            if self.direction == 's2c':
                try:
                    rel, H = resolve_s2c(self.spec, msg)
                except ValueError:
                    rel, H = [], None
            else:
                rel, H = resolve_c2s(self.spec, msg), None
            self.cuts = [pos + o for o in rel]
            self.end = len(stream)
            self.used.append((rel, H, len(msg)))
        nxt = self.end
        for c in self.cuts:
            if c > pos:
                nxt = c
                break
        return max(1, min(nxt - pos, ev.avail))


def file_state(d, h):
    p = os.path.join(d, h)
    if not os.path.isfile(p):
        return None
    with open(p, 'rb') as f:
        return f.read()


# =====================================================================================================
# pairing A: real client <-> real server
# =====================================================================================================

def split_class(rel, H, total):
    return {'in_header': any(0 < c < H for c in rel), 'at_header_end': H in rel,
            'in_body': any(H < c < total for c in rel)}


def exec_honest(base, case, chooser=None):
    """case = {'seq': [[shape, variant], ...], 'known': bool, 'c2s': [names]|'bytes1', 's2c': [names]|'bytes1'}"""
    from lbry.blob_exchange.client import request_blob
    obs = Obs()
    w = World(base, obs)
    try:
        loop = w.loop
        sbm, cbm = w.manager(w.sd), w.manager(w.cd)
        blobs = [make_blob(s, v) for s, v in case['seq']]
        hashes = [w.hold(sbm, b) for b in blobs]
        w.listen_real(sbm)
        cblobs = [cbm.get_blob(h, len(b) if case['known'] else None) for h, b in zip(hashes, blobs)]
        w.state_prefix = ('A', tuple(map(tuple, case['seq'])), case['known'])
        recs = []

        async def main():
            proto = None
            for i, cb in enumerate(cblobs):
                rec = {'i': i, 't0': loop.time()}
                try:
                    n, proto = await request_blob(loop, cb, HOST, PORT, CONNECT_TO, DL_TO, connected_protocol=proto)
                    rec.update(outcome='ok' if proto is not None else 'dropped', n=n)
                except asyncio.CancelledError:
                    rec.update(outcome='cancelled', n=None)
                    proto = None
                except Exception as e:   # noqa
                    rec.update(outcome='exc:' + type(e).__name__, n=None)
                    proto = None
                rec.update(t1=loop.time(), verified=cb.get_is_verified())
                recs.append(rec)
                if proto is None:
                    break
            return proto

        task = loop.create_task(main())
        cut_c = Cutter(case['s2c'], 's2c')       # towards the client
        cut_s = Cutter(case['c2s'], 'c2s')       # towards the server

        def chunk(ev):
            conn = loop.tcp_conns[ev.conn - 1]
            return (cut_c if ev.side == 'c' else cut_s).size(ev, conn)

        genuine = dict(zip(hashes, blobs))

        def on_step():
            obs.states.append(w.snapshot())
            w.check_client_dir(w.cd, genuine, 'honest')

        end = w.pump(task.done, chunk=chunk, on_step=on_step, t_horizon=1000.0)
        obs.log.append(f'pump:{end} t={loop.time():.3f}')
        if not task.done():
            obs.viol.append(({'kind': 'honest-transfer-hangs', 'shape': case['seq'][len(recs)][0] if len(recs) < len(blobs) else '?'},
                             f'request_blob did not return ({end}) for {case}'))
            task.cancel()
            loop.settle()
        # ---- witnesses from the delivered segments (first connection, towards the client) ----
        if loop.tcp_conns:
            conn = loop.tcp_conns[0]
            pos = 0
            bounds = []
            start = 0
            for rel, H, total in (cut_c.used if case['s2c'] != 'bytes1' else []):
                bounds.append((start, start + H, start + total))
                start += total
            if case['s2c'] == 'bytes1':
                obs.witness.add('all_one_byte_schedule')
            for n in conn.delivered['c']:
                a, z = pos, pos + n
                for (s0, he, e0) in bounds:
                    if s0 < z < he:
                        obs.witness.add('header_split_inside_json')
                    if a < he < z:
                        obs.witness.add('header_glued_to_body_bytes')
                    if a < he and z == he and e0 > he:
                        obs.witness.add('header_delivered_alone_then_body')
                pos = z
        # ---- oracle ----
        for rec in recs:
            i = rec['i']
            data = file_state(w.cd, hashes[i])
            good = (rec['outcome'] == 'ok' and rec['verified'] and data == blobs[i] and rec['n'] == len(blobs[i]))
            obs.log.append(f"req{i}: {rec['outcome']} n={rec['n']} verified={rec['verified']} "
                           f"file={'identical' if data == blobs[i] else ('absent' if data is None else 'DIFFERENT')} "
                           f"t={rec['t1'] - rec['t0']:.3f}")
            if good:
                continue
            shape = case['seq'][i][0]
            J = response_shaped_prefix(blobs[i])
            if case['s2c'] == 'bytes1' or i >= len(cut_c.used):
                rel, H, total = [], None, None
                sc = {'bytes1': True}
            else:
                rel, H, total = cut_c.used[i]
                sc = split_class(rel, H, total)
            if J and H is not None and H in rel and not any(H < c < H + J for c in rel):
                sig = {'kind': 'json-shaped-blob-after-split-header'}
            else:
                sig = {'kind': 'honest-transfer-failed', 'shape': shape, 'outcome': rec['outcome'], 'split': sc,
                       'later_request': i > 0}
            errs = [f"{e['message']} {e['exception']!r}" for e in loop.tcp_errors]
            obs.viol.append((sig, f"honest server holds {shape} blob ({len(blobs[i])} bytes) but request {i + 1}/"
                                  f"{len(blobs)} ended {rec['outcome']}, verified={rec['verified']}, file="
                                  f"{'absent' if data is None else 'present'}; s2c cuts {case['s2c']} -> {rel} (header {H}); {errs[:1]}"))
            break
        all_ok = len(recs) == len(blobs) and not obs.viol
        # let the FINs travel, then judge the wire
        proto = task.result() if task.done() and not task.cancelled() and not task.exception() else None
        if proto is not None:
            proto.close()
        w.pump(None, timers=False, on_step=on_step)
        w.check_client_dir(w.cd, genuine, 'honest', final=True)
        for conn in loop.tcp_conns:
            serves, problem = check_server_stream(conn.stream('s'), w.held)
            if problem:
                obs.viol.append(({'kind': 'server-wire', 'pairing': 'honest', 'problem': problem.split(' at offset')[0][:60]},
                                 f'conn {conn.n}: {problem}'))
            elif all_ok and conn.n == 1 and serves != [(h, True) for h in hashes]:
                obs.viol.append(({'kind': 'server-wire', 'pairing': 'honest', 'problem': 'serve list'},
                                 f'server sent {serves}, expected exactly the requested blobs'))
        if all_ok:
            if loop.time() != 0.0:
                obs.tallies.append('honest_run_needed_a_timer')
            if loop.tcp_errors or loop.pop_exceptions():
                obs.tallies.append('callback_exception_in_successful_honest_run')
        return obs
    finally:
        w.close()


# =====================================================================================================
# pairing B: real client <-> scripted hostile server
# =====================================================================================================

class Scripted(asyncio.Protocol):
    """A peer that follows a script.  Actions: ('w', bytes) ('close',) ('abort',) ('eof',) ('sleep', s)
    ('recv', n) = wait until n bytes in total have been received."""

    def __init__(self, loop, on_connect=None, on_request=None):
        self.loop = loop
        self.on_connect = on_connect
        self.on_request = on_request
        self.t = None
        self.buf = b''
        self.idx = 0
        self.received = 0
        self.lost = None
        self.waiting = None        # (n, remaining actions)
        self.done_at = None        # virtual time the script ran out of actions
        self.last_action_at = 0.0

    def connection_made(self, t):
        self.t = t
        if self.on_connect:
            self.on_connect(self)

    def data_received(self, data):
        self.received += len(data)
        if self.on_request:
            self.buf += data
            while b'}' in self.buf:
                raw, _, self.buf = self.buf.partition(b'}')
                try:
                    req = json.loads(raw + b'}')
                except ValueError:
                    req = None
                self.idx += 1
                self.on_request(self, self.idx, req)
        if self.waiting and self.received >= self.waiting[0]:
            acts, self.waiting = self.waiting[1], None
            self.perform(acts)

    def connection_lost(self, exc):
        self.lost = repr(exc)

    def written(self):
        return sum(len(x) for x in self.t.conn.written[self.t.side])

    def perform(self, acts):
        acts = list(acts)
        while acts:
            a = acts.pop(0)
            self.last_action_at = self.loop.time()
            if a[0] == 'w':
                if not self.t.is_closing():
                    self.t.write(a[1])
            elif a[0] == 'close':
                self.t.close()
            elif a[0] == 'abort':
                self.t.abort()
            elif a[0] == 'eof':
                if not self.t.is_closing():
                    self.t.write_eof()
            elif a[0] == 'sleep':
                self.loop.call_later(a[1], self.perform, acts)
                return
            elif a[0] == 'recv':
                if self.received < a[1]:
                    self.waiting = (a[1], acts)
                    return
            else:
                raise KeyError(a[0])
        self.done_at = self.loop.time()


_HS_CACHE = {}


def hs_catalogue(h, blob, oh, oblob, never_closes=65536):
    """Memoised front of _hs_catalogue (the entries are immutable; building all of them costs ~1 ms for small
    blobs and ~0.5 s for a 2 MiB one)."""
    key = (h, oh, never_closes)
    if key not in _HS_CACHE:
        if len(_HS_CACHE) > 6:
            _HS_CACHE.clear()
        _HS_CACHE[key] = _hs_catalogue(h, blob, oh, oblob, never_closes)
    return _HS_CACHE[key]


def _hs_catalogue(h, blob, oh, oblob, never_closes=65536):
    """Hostile-server catalogue for a request of blob `blob` (hash h); (oh, oblob) is another real blob.
    entry = dict(resp=[actions], pre=[actions], hl=header length used for the cut points, must_fail=bool).
    must_fail = the statement's literal list (wrong hash, wrong length, corrupted, short, malformed or
    never-closing JSON) plus peers that never deliver the bytes: the blob must never be verified.  For the
    other entries (excess / unsolicited bytes around genuine content, availability or price oddities, slow
    but genuine data) verification is permitted - but only ever of the byte-identical genuine blob."""
    L = len(blob)
    ok = ref_header(h, L)
    E = {}

    def add(name, resp, must_fail, pre=(), hl=None):
        first = b''.join(a[1] for a in itertools.takewhile(lambda a: a[0] == 'w', list(pre) or list(resp)))
        if hl is None:
            try:
                hl = json_end(first) if first[:1] == b'{' else min(len(first), 8)
            except ValueError:
                hl = min(len(first), 24)
        # relies_on_length: the lie only matters to a client that takes the length (or the error flag) from
        # the header; a client that already knows the length from the stream descriptor writes the genuine
        # bytes glued to such a header before it validates the header (enforced reading: no poison; the
        # literal reading "never verified" is tallied for these - DESIGN A.6).
        E[name] = {'resp': list(resp), 'pre': list(pre), 'hl': hl, 'tot': len(first), 'must_fail': must_fail,
                   'relies_on_length': name.startswith('len-') or name == 'error-response-then-bytes'}

    W = lambda b: ('w', b)   # noqa
    # wrong hash
    add('hash-other', [W(ref_header(oh, L, avail=[h]) + blob)], True)
    add('hash-other-avail-too', [W(ref_header(oh, L) + blob)], True)
    add('hash-other-consistent', [W(ref_header(oh, len(oblob)) + oblob)], True)
    add('hash-not-a-string', [W(ref_header(5, L, avail=[h]) + blob)], True)
    # wrong length
    lens = {'plus1': L + 1, 'minus1': L - 1, 'zero': 0, 'negative': -1, 'huge': MIB2 + 1, 'int64': 2 ** 63,
            'string': str(L), 'fraction': L + 0.5, 'null': None, 'list': [L], 'object': {}, 'true': True}
    for tag, v in lens.items():
        lie = not (v is True and L == 1) and v != L
        add('len-' + tag, [W(ref_header(h, v) + blob)], lie)
    add('len-equal-float', [W(ref_header(h, float(L)) + blob)], False)
    # corrupted / short / excess
    for tag, i in (('first', 0), ('middle', L // 2), ('last', L - 1)):
        bad = bytearray(blob)
        bad[i] ^= 0x01
        add('corrupt-' + tag, [W(ok + bytes(bad))], True)
    add('short-by-one', [W(ok + blob[:-1])], True)
    add('short-half', [W(ok + blob[:L // 2])], True)
    add('header-only', [W(ok)], True)
    add('excess-byte', [W(ok + blob + b'X')], False)
    add('excess-header', [W(ok + blob + ok)], False)
    add('excess-blob-again', [W(ok + blob + blob)], False)
    # unsolicited bytes before the request
    add('unsolicited-garbage', [W(ok + blob)], False, pre=[W(b'\x00\x01garbage')])
    add('unsolicited-brace', [W(ok + blob)], False, pre=[W(b'}')])
    add('unsolicited-whole-response', [], False, pre=[W(ok + blob)])
    add('unsolicited-header', [W(blob)], False, pre=[W(ok)])
    add('unsolicited-other-response', [W(ok + blob)], False, pre=[W(ref_header(oh, len(oblob)) + oblob)])
    add('header-twice', [W(ok + ok + blob)], True)
    # error / availability / price
    err = lambda **kw: json.dumps(dict({'incoming_blob': {'error': 'blob not found'},   # noqa
                                        'blob_data_payment_rate': 'RATE_ACCEPTED', 'available_blobs': [h]}, **kw)).encode()
    add('error-response', [W(err())], True)
    add('error-response-then-bytes', [W(err() + blob)], True)
    add('error-top-level', [W(json.dumps({'error': 'nope'}).encode() + blob)], True)
    add('avail-empty', [W(ref_header(h, L, avail=[]) + blob)], False)
    add('avail-other', [W(ref_header(h, L, avail=[oh]) + blob)], False)
    add('avail-both', [W(ref_header(h, L, avail=[h, oh]) + blob)], False)
    add('avail-not-a-list', [W(ref_header(h, L, avail=5) + blob)], False)
    d = json.loads(ok)
    del d['available_blobs']
    add('avail-missing', [W(json.dumps(d).encode() + blob)], False)
    add('rate-too-low', [W(ref_header(h, L, rate='RATE_TOO_LOW') + blob)], False)
    add('rate-unset', [W(ref_header(h, L, rate='RATE_UNSET') + blob)], False)
    add('rate-bogus', [W(ref_header(h, L, rate='FREE_BEER') + blob)], False)
    d = json.loads(ok)
    del d['blob_data_payment_rate']
    add('rate-missing', [W(json.dumps(d).encode() + blob)], False)
    # malformed JSON
    add('json-syntax', [W(b'{"incoming_blob": }' + blob)], True)
    add('json-array', [W(b'[1, 2, 3]' + blob)], True)
    add('json-incoming-int', [W(b'{"incoming_blob": 5}' + blob)], True)
    add('json-incoming-empty', [W(b'{"incoming_blob": {}}' + blob)], True)
    add('json-incoming-null', [W(b'{"incoming_blob": null}' + blob)], True)
    add('json-not-utf8', [W(b'{"\xff\xfe": 1}' + blob)], True)
    add('json-deep', [W(b'{"a":' + b'[' * 100000 + b'}' + blob)], True, hl=12)
    add('json-never-closes', [W(b'{"incoming_blob": {"blob_hash": "' + b'a' * never_closes)], True, hl=40)
    # connection faults
    add('close-mid-body', [W(ok + blob[:L // 2]), ('close',)], True)
    add('abort-mid-body', [W(ok + blob[:L // 2]), ('abort',)], True)
    add('eof-mid-body', [W(ok + blob[:L // 2]), ('eof',)], True)
    add('close-after-header', [W(ok), ('close',)], True)
    add('close-at-once', [('close',)], True)
    add('silence', [], True)
    add('close-after-genuine', [W(ok + blob), ('close',)], False)
    # slow peers (the scripted peer owns these timers; the client's timeouts race them)
    add('slow-but-in-time', [('sleep', 9.0), W(ok), ('sleep', 9.0), W(blob)], False)
    add('slow-header-late', [('sleep', 10.5), W(ok + blob)], False)
    add('slow-body-late', [W(ok), ('sleep', 10.5), W(blob)], False)
    add('slow-drip', [W(ok)] + [x for i in range(L) for x in (('sleep', 4.0), W(blob[i:i + 1]))], False)
    return E


HS_CUTS = ['he-1', 'he', 'he+1', 'mid']


def exec_hostile_server(base, case, chooser=None):
    """case = {'n','k','entry','known','shape','cuts': [names]|'bytes1', 'never_closes': int}"""
    from lbry.blob_exchange.client import request_blob
    obs = Obs()
    w = World(base, obs)
    try:
        loop = w.loop
        cbm = w.manager(w.cd)
        n, k = case['n'], case['k']
        blobs = [make_blob(case['shape'] if i == k - 1 else 'plain20', i + 1) for i in range(n)]
        hashes = [sha(b) for b in blobs]
        by_hash = dict(zip(hashes, blobs))
        oblob = make_blob('plain20', 7)
        entry = hs_catalogue(hashes[k - 1], blobs[k - 1], sha(oblob), oblob, case.get('never_closes', 65536))[case['entry']]
        st = {'hostile_start': None, 'server': None}

        def begin_hostile(s):
            if st['hostile_start'] is None:
                st['hostile_start'] = s.written()

        def on_connect(s):
            st['server'] = st['server'] or s
            if k == 1 and entry['pre'] and len(loop.tcp_conns) == 1 and st['server'] is s:
                begin_hostile(s)
                s.perform(entry['pre'])

        def on_request(s, idx, req):
            h = req.get('requested_blob') if isinstance(req, dict) else None
            if s is not st['server']:
                idx = -1
            if idx == k:
                begin_hostile(s)
                s.perform(entry['resp'])
                return
            if h in by_hash:
                s.perform([('w', ref_header(h, len(by_hash[h])) + by_hash[h])])
            if idx == k - 1 and entry['pre']:
                begin_hostile(s)
                s.perform(entry['pre'])

        w.listen_scripted(lambda: Scripted(loop, on_connect, on_request))
        cblobs = [cbm.get_blob(h, len(b) if case['known'] else None) for h, b in zip(hashes, blobs)]
        w.state_prefix = ('B', n, k, case['entry'], case['known'], case['shape'])
        recs = []

        async def main():
            proto = None
            for i, cb in enumerate(cblobs):
                rec = {'i': i, 't0': loop.time(), 'connecting': proto is None}
                try:
                    nb, proto = await request_blob(loop, cb, HOST, PORT, CONNECT_TO, DL_TO, connected_protocol=proto)
                    rec.update(outcome='ok' if proto is not None else 'dropped', n=nb)
                except asyncio.CancelledError:
                    rec.update(outcome='cancelled', n=None)
                    proto = None
                except Exception as e:   # noqa
                    rec.update(outcome='exc:' + type(e).__name__, n=None)
                    proto = None
                rec.update(t1=loop.time(), verified=cb.get_is_verified(),
                           open_transports=[c.n for c in loop.tcp_conns if not c.client.is_closing()])
                recs.append(rec)
                if proto is None:
                    break
            return proto

        task = loop.create_task(main())
        spec = case['cuts']

        def chunk(ev):
            if spec == 'bytes1':
                return 1
            if ev.side != 'c' or st['hostile_start'] is None:
                return None
            conn = loop.tcp_conns[ev.conn - 1]
            pos = conn.offset['c']
            hs, hl, tot = st['hostile_start'], entry['hl'], entry['tot']
            offs = {'he-1': hl - 1, 'he': hl, 'he+1': hl + 1, 'mid': hl + (tot - hl) // 2}
            cuts = sorted({hs + offs[nm] for nm in spec if 0 < offs[nm] < tot})
            for c in cuts:
                if c > pos:
                    return max(1, min(c - pos, ev.avail))
            return None

        genuine = dict(zip(hashes, blobs))
        strict = entry['must_fail'] and not (case['known'] and entry['relies_on_length'])
        sig_base = {'entry': case['entry'], 'first_request': k == 1, 'known_len': case['known']}
        target = cblobs[k - 1]

        def on_step():
            obs.states.append(w.snapshot())
            w.check_client_dir(w.cd, genuine, 'hostile-server')
            if entry['must_fail'] and target.get_is_verified() and not st.get('flagged'):
                st['flagged'] = True
                if not strict:
                    obs.tallies.append('interpretation_only:genuine_blob_verified_although_header_lied_about_length_known_to_client')
                    return
                obs.viol.append((dict(sig_base, kind='verified-after-lie'),
                                 f"client marked the blob verified although the peer misbehaved ({case['entry']}, request {k}/{n})"))

        use_chooser = chooser if spec != 'bytes1' else None
        end = w.pump(task.done, chunk=chunk, chooser=use_chooser, on_step=on_step, t_horizon=500.0)
        obs.log.append(f'pump:{end} t={loop.time():.3f}')
        if not task.done():
            obs.viol.append((dict(sig_base, kind='request-never-returns'),
                             f'request_blob has not returned after {loop.time():.1f} virtual seconds ({end}); case {case}'))
            task.cancel()
            loop.settle()
        for rec in recs:
            i = rec['i']
            obs.log.append(f"req{i}: {rec['outcome']} n={rec['n']} verified={rec['verified']} "
                           f"t={rec['t1'] - rec['t0']:.3f} open={rec['open_transports']}")
            bound = (CONNECT_TO if rec['connecting'] else 0.0) + 2 * DL_TO + EPS
            if rec['t1'] - rec['t0'] > bound:
                obs.viol.append((dict(sig_base, kind='late-return'),
                                 f"request_blob took {rec['t1'] - rec['t0']:.3f} virtual seconds (> {bound:.0f}) against {case['entry']}"))
            if rec['outcome'] != 'ok' and rec['open_transports']:
                obs.viol.append((dict(sig_base, kind='transport-left-open'),
                                 f"request ended {rec['outcome']} against {case['entry']} but the client transport is not closed"))
            if rec['outcome'] == 'cancelled':
                obs.tallies.append('interpretation_only:request_blob_raised_CancelledError_instead_of_returning')
            if rec['outcome'].startswith('exc:'):
                obs.tallies.append('interpretation_only:request_blob_raised_' + rec['outcome'][4:])
            if i < k - 1 and not (rec['outcome'] == 'ok' and rec['verified'] and file_state(w.cd, hashes[i]) == blobs[i]):
                if not obs.timer_devs and i == k - 2 and entry['pre']:
                    # the peer delivered header + genuine blob completely and only then started to send bytes nobody
                    # asked for: the transfer that was complete must stand (this is what the _write cap is for)
                    obs.viol.append(({'kind': 'complete-genuine-transfer-spoiled-by-later-excess-bytes', 'entry': case['entry']},
                                     f"request {i + 1}/{n} was answered completely and correctly, unsolicited bytes "
                                     f"({case['entry']}) followed, and the request ended {rec['outcome']}, verified={rec['verified']}"))
                elif not obs.timer_devs:
                    obs.viol.append(({'kind': 'honest-transfer-failed', 'shape': 'plain20', 'outcome': rec['outcome'],
                                      'split': {'scripted_honest_server': True}, 'later_request': i > 0},
                                     f'honest exchange {i + 1} before the hostile position failed: {rec}'))
            if i == k - 1:
                if rec['verified']:
                    obs.tallies.append('hostile_position_ended_verified_genuine:' + case['entry'])
                if obs.timer_devs and rec['outcome'] != 'ok' and any('pending SEG' in ln for ln in obs.log):
                    obs.witness.add('timeout_fired_before_slow_data')
        if len(recs) >= k and recs[k - 1]['outcome'] == 'ok' and not recs[k - 1]['verified']:
            obs.tallies.append('returned_protocol_without_verified_blob:' + case['entry'])
        proto = task.result() if task.done() and not task.cancelled() and not task.exception() else None
        if proto is not None:
            proto.close()
        w.pump(None, timers=False, on_step=on_step)
        # not demanded by the statement, observed only: is the blob still obtainable from an honest peer?
        if not target.get_is_verified() and task.done():
            async def again():
                try:
                    return await request_blob(loop, target, HOST, PORT, CONNECT_TO, DL_TO)
                except asyncio.CancelledError:
                    return 0, None
            st['flagged'] = True         # from here on a verified blob is the honest peer's doing
            st['server'] = st['server'] or 'nobody'    # every new connection meets an honest peer
            t3 = loop.create_task(again())
            w.pump(t3.done, on_step=on_step, t_horizon=loop.time() + 100.0)
            obs.log.append(f'retry from an honest peer: verified={target.get_is_verified()}')
            if not target.get_is_verified():
                obs.tallies.append('interpretation_only:blob_not_obtainable_from_honest_peer_after_hostile_one:' + case['entry'])
            elif file_state(w.cd, hashes[k - 1]) == blobs[k - 1]:
                obs.witness.add('blob_recovered_from_honest_peer_after_hostile_one')
            if t3.done() and not t3.cancelled() and t3.result()[1] is not None:
                t3.result()[1].close()
            w.pump(None, timers=False, on_step=on_step)
        w.check_client_dir(w.cd, genuine, 'hostile-server', final=True)
        for e in loop.tcp_errors:
            if e['side'] == 'c':
                obs.tallies.append('client_callback_raised_' + type(e['exception']).__name__)
        return obs
    finally:
        w.close()


def hostile_server_cases(quick):
    positions = [(1, 1), (2, 2), (2, 1)] if quick else [(1, 1), (2, 2), (2, 1), (3, 3), (3, 2), (3, 1)]
    shapes = ['plain20'] if quick else ['plain20', 'one', 'addr', 'fakehdr']
    names = list(hs_catalogue(sha(b'x'), b'x' * 20, sha(b'y'), b'y' * 20, 8))
    if quick:    # every subset of the three header-end cuts, the body-middle cut alone and with the header-end cut
        cutsets = [list(s) for s in subsets(HS_CUTS[:3])] + [['mid'], ['he', 'mid']] + ['bytes1']
    else:
        cutsets = [list(s) for s in subsets(HS_CUTS)] + ['bytes1']
    cases = []
    for shape in shapes:
        for (n, k) in positions:
            for entry in names:
                for known in (False, True):
                    for cuts in cutsets:
                        if cuts == 'bytes1' and entry in ('json-deep', 'json-never-closes'):
                            continue
                        cases.append({'n': n, 'k': k, 'entry': entry, 'known': known, 'shape': shape, 'cuts': cuts})
    # singles: a JSON document of more than 2 MiB that never closes, and a 2 MiB target blob
    for known in (False, True):
        cases.append({'n': 1, 'k': 1, 'entry': 'json-never-closes', 'known': known, 'shape': 'plain20', 'cuts': [],
                      'never_closes': MIB2 + 4096})
    # (glued delivery: a split exactly at the header end, or a rejected header, makes the client re-scan
    # every following segment for JSON at each '}' - seconds of CPU per execution on 2 MiB of random bytes)
    for entry in ('corrupt-last', 'short-by-one', 'excess-byte', 'len-plus1', 'len-minus1', 'close-mid-body'):
        cases.append({'n': 1, 'k': 1, 'entry': entry, 'known': False, 'shape': 'big', 'cuts': []})
    if not quick:
        for entry in ('corrupt-last', 'hash-other'):
            cases.append({'n': 1, 'k': 1, 'entry': entry, 'known': False, 'shape': 'big', 'cuts': ['he']})
    return cases


EXECUTORS['B'] = exec_hostile_server

# =====================================================================================================
# pairing C: scripted hostile client <-> real server, with a second honest client
# =====================================================================================================

def pad_request(h, size):
    """A syntactically valid request for h of exactly `size` bytes (blanks before the closing brace)."""
    r = ref_request(h)
    assert size >= len(r)
    return r[:-1] + b' ' * (size - len(r)) + b'}'


def hc_catalogue(V, W, U, C, A):
    """Hostile-client catalogue.  V, W: hashes the server holds verified; U: known to the manager, being
    written, not verified; C: listed in completed_blob_hashes but not verified; A: absent.
    entry = dict(acts=[...], expect=...):
      expect 'served:<hashes>'  the well-formed requests must be answered with exactly these blobs
             'closed-now'       the server must close at once (request size cap / malformed JSON)
             None               only the general safety oracle applies."""
    E = {}
    req = ref_request(V)
    R = len(req)
    W_ = lambda b: ('w', b)   # noqa

    def add(name, acts, expect=None, mode='per-write'):
        E[name] = {'acts': list(acts), 'expect': expect, 'mode': mode}

    add('honest-whole', [W_(req)], 'served:V')
    add('honest-bytes1', [W_(req)], 'served:V', mode='bytes1')
    for c in range(1, R):
        add(f'split@{c}', [W_(req[:c]), W_(req[c:])], 'served:V')
    add('keepalive-two', [W_(req), ('recv', 1), ('sleep', 1.0), W_(ref_request(W))], 'served:V,W')
    add('pipelined-two', [W_(req), W_(ref_request(W))], None)
    add('two-glued', [W_(req + ref_request(W))], 'closed-now')
    add('two-glued-split', [W_(req + ref_request(W)[:10]), W_(ref_request(W)[10:])], 'closed-now')
    # garbage / malformed
    add('garbage-no-brace', [W_(b'\x00\xffGET / HTTP/1.1\r\n\r\n')], None)
    add('garbage-brace', [W_(b'garbage}')], 'closed-now')
    add('binary-brace', [W_(b'\xff\xfe\x00}')], 'closed-now')
    add('empty-object', [W_(b'{}')], 'closed-now')
    add('json-array-of-object', [W_(b'[{}]')], 'closed-now')
    add('json-string', [W_(b'"}"')], 'closed-now')
    add('json-number-brace', [W_(b'1}')], 'closed-now')
    add('truncated-json-brace', [W_(req[:R // 2] + b'}')], 'closed-now')
    add('lone-brace', [W_(b'}')], 'closed-now')
    # request size cap
    add('size-1199', [W_(pad_request(V, 1199))], 'served:V')
    add('size-1200', [W_(pad_request(V, 1200))], 'closed-now')
    add('size-1201', [W_(pad_request(V, 1201))], 'closed-now')
    big = pad_request(V, 1201)
    add('size-1201-two-halves', [W_(big[:600]), W_(big[600:])], 'closed-now')
    add('size-1199-two-halves', [W_(pad_request(V, 1199)[:600]), W_(pad_request(V, 1199)[600:])], 'served:V')
    add('flood-no-brace', [W_(b'{"requested_blob": "' + b'a' * 380)] + [W_(b'a' * 400)] * 9, 'closed-now')
    add('flood-no-brace-one-write', [W_(b'a' * 5000)], 'closed-now')
    add('flood-bytes1', [W_(b'{' + b'a' * 1300)], 'closed-now', mode='bytes1')
    # valid JSON, wrong types / odd hashes
    odd = {
        'blob-int': {'requested_blob': 5}, 'blob-null': {'requested_blob': None}, 'blob-list': {'requested_blob': [V]},
        'blob-object': {'requested_blob': {'a': 1}}, 'blob-bool': {'requested_blob': True},
        'blobs-string': {'requested_blobs': V}, 'blobs-empty': {'requested_blobs': []},
        'blobs-nested': {'requested_blobs': [[V]]}, 'blobs-int': {'requested_blobs': 7},
        'blobs-ints': {'requested_blobs': [1, 2]}, 'rate-string': {'blob_data_payment_rate': 'x', 'requested_blob': A},
        'only-address': {'lbrycrd_address': True}, 'unknown-keys': {'foo': 1},
        'hash-short': {'requested_blob': 'abcd'}, 'hash-traversal': {'requested_blob': '../' * 32},
        'hash-96-g': {'requested_blob': 'g' * 96}, 'hash-96-commas': {'requested_blob': ',' * 96},
        'hash-95-newline': {'requested_blob': 'a' * 95 + '\n'}, 'hash-upper': {'requested_blob': V.upper()},
        'hash-empty': {'requested_blob': ''},
    }
    for name, doc in odd.items():
        add('type-' + name, [W_(json.dumps(doc).encode())], None)
    add('request-absent', [W_(ref_request(A))], 'served:')
    add('request-unverified-writing', [W_(ref_request(U))], 'served:')
    add('request-completed-not-verified', [W_(ref_request(C))], 'served:')
    add('availability-many', [W_(json.dumps({'requested_blobs': [V, W, A, U, C], 'requested_blob': V}).encode())], 'served:V')
    add('download-only', [W_(json.dumps({'requested_blob': V}).encode())], 'served:V')
    add('nested-object-split', [W_(b'{"requested_blob": "' + V.encode() + b'", "x": {"y": 1}'), W_(b'}')], None)
    # disconnects
    for tag, c in (('1', 1), ('mid', R // 2), ('end-1', R - 1)):
        add(f'fin-after-{tag}', [W_(req[:c]), ('close',)], None)
        add(f'rst-after-{tag}', [W_(req[:c]), ('abort',)], None)
    add('fin-after-request', [W_(req), ('close',)], None)
    add('rst-after-request', [W_(req), ('abort',)], None)
    add('half-close-after-request', [W_(req), ('eof',)], None)
    add('connect-and-say-nothing', [], None)
    add('connect-and-close', [('close',)], None)
    # slow clients (idle timer races the bytes)
    add('slow-request-29s', [W_(req[:100]), ('sleep', 29.0), W_(req[100:])], 'served:V')
    add('slow-request-31s', [W_(req[:100]), ('sleep', 31.0), W_(req[100:])], None)
    add('idle-after-transfer', [W_(req), ('recv', 1), ('sleep', 45.0), W_(ref_request(W))], None)
    return E


def exec_hostile_client(base, case, chooser=None):
    """case = {'entry': name, 'second': 'post'|'pre'}"""
    from lbry.blob_exchange.client import request_blob
    obs = Obs()
    w = World(base, obs)
    try:
        loop = w.loop
        sbm, cbm = w.manager(w.sd), w.manager(w.cd2)
        vb, wb = make_blob('plain20', 0), make_blob('addr', 1)
        V, Wh = w.hold(sbm, vb), w.hold(sbm, wb)
        ub, cb_, ab = make_blob('plain20', 3), make_blob('plain20', 4), make_blob('plain20', 5)
        U, C, A = sha(ub), sha(cb_), sha(ab)
        ublob = sbm.get_blob(U, len(ub))
        ublob.get_blob_writer('9.9.9.9', 4444).write(ub[:7])       # a download from elsewhere in progress
        sbm.completed_blob_hashes.add(C)                            # announced, but the file is gone
        w.listen_real(sbm)
        names = {'V': V, 'W': Wh}
        entry = hc_catalogue(V, Wh, U, C, A)[case['entry']]
        w.state_prefix = ('C', case['entry'].split('@')[0], case['second'])
        second_blob = cbm.get_blob(Wh)
        st = {'hostile': None, 'closed_at': None, 'buf_max': 0}

        def on_connect(s):
            st['hostile'] = s
            s.perform(entry['acts'])

        def on_step():
            obs.states.append(w.snapshot())
            w.check_client_dir(w.cd2, {Wh: wb}, 'hostile-client')
            for p in w.server_protos:
                if len(p.buf) >= MAX_REQ and not st.get('buf_flag'):
                    st['buf_flag'] = True
                    obs.viol.append(({'kind': 'request-buffer-over-cap', 'entry': case['entry'].split('@')[0]},
                                     f'server buffers {len(p.buf)} request bytes (cap {MAX_REQ}) from a peer that never completes a request'))
            h = st['hostile']
            if h is not None and h.t is not None and st['closed_at'] is None and h.t.peer is not None and h.t.peer.is_closing():
                st['closed_at'] = loop.time()

        def chunk(ev):
            h = st['hostile']
            if h is None or h.t is None or ev.conn != h.t.conn.n or ev.side != 's':
                return None
            if entry['mode'] == 'bytes1':
                return 1
            return h.t.segs[0][1]          # exactly what is left of the oldest write: the peer's own segmentation

        async def second(proto=None):
            try:
                n, proto = await request_blob(loop, second_blob, HOST, PORT, CONNECT_TO, DL_TO, connected_protocol=proto)
                return ('ok' if proto else 'dropped'), proto
            except asyncio.CancelledError:
                return 'cancelled', None

        pre_proto = None
        if case['second'] == 'pre':
            t0 = loop.create_task(request_blob(loop, None, HOST, PORT, CONNECT_TO, DL_TO))
            w.pump(t0.done, on_step=on_step)
            pre_proto = t0.result()[1]
        # ---- phase 1: the hostile client connects and plays its script ----
        hostile_task = loop.create_task(loop.create_connection(lambda: Scripted(loop, on_connect, None), HOST, PORT))

        def hostile_done():
            h = st['hostile']
            return hostile_task.done() and h is not None and (h.done_at is not None or h.lost is not None
                                                             or (h.waiting is not None and h.t.is_closing())) \
                and not [e for e in loop.tcp_enabled()]
        end = w.pump(hostile_done, chunk=chunk, chooser=chooser if entry['mode'] != 'bytes1' else None,
                     on_step=on_step, t_horizon=400.0)
        obs.log.append(f'hostile phase:{end} t={loop.time():.3f}')
        h = st['hostile']
        hconn = h.t.conn if h is not None and h.t is not None else None
        t_last = max(h.last_action_at if h else 0.0, loop.time() if (h and h.done_at is None) else 0.0)
        closed_now = hconn is not None and hconn.server.is_closing()
        # ---- phase 2: an honest client must still be served ----
        t2 = loop.create_task(second(pre_proto))
        w.pump(t2.done, on_step=on_step, t_horizon=loop.time() + 100.0)
        out2, proto2 = t2.result() if t2.done() else ('pending', None)
        good2 = out2 == 'ok' and second_blob.get_is_verified() and file_state(w.cd2, Wh) == wb
        obs.log.append(f'second client: {out2} verified={second_blob.get_is_verified()} t={loop.time():.3f}')
        sig_entry = case['entry'].split('@')[0]
        if not good2:
            obs.viol.append(({'kind': 'second-client-not-served', 'entry': sig_entry, 'second': case['second']},
                             f"after hostile client '{case['entry']}' an honest client's download ended {out2}, "
                             f"verified={second_blob.get_is_verified()}"))
        if proto2 is not None:
            proto2.close()
        # ---- phase 3: time passes; the hostile connection must be gone within the configured timeouts ----
        limit = t_last + IDLE_TO + XFER_TO + EPS

        def hostile_closed():
            return hconn is None or hconn.server.is_closing()
        w.pump(hostile_closed, chunk=chunk, on_step=on_step, t_horizon=limit + 50.0)
        on_step()
        obs.log.append(f"hostile connection closed_at={st['closed_at']} (limit {limit:.1f})")
        if hconn is not None and (not hconn.server.is_closing() or (st['closed_at'] or 0.0) > limit):
            obs.viol.append(({'kind': 'hostile-connection-not-closed', 'entry': sig_entry},
                             f"server still holds the connection of '{case['entry']}' {loop.time() - t_last:.0f} virtual seconds "
                             f"after its last byte (idle {IDLE_TO:.0f} + transfer {XFER_TO:.0f})"))
        elif hconn is not None and st['closed_at'] is not None and st['closed_at'] > t_last + IDLE_TO + EPS:
            obs.tallies.append('interpretation_only:hostile_connection_closed_later_than_one_idle_timeout')
        w.pump(None, timers=False, on_step=on_step)
        # ---- wire oracle on every connection of the real server ----
        for conn in loop.tcp_conns:
            serves, problem = check_server_stream(conn.stream('s'), w.held)
            if problem:
                obs.viol.append(({'kind': 'server-wire', 'pairing': 'hostile-client', 'entry': sig_entry,
                                  'problem': problem.split(' at offset')[0].split(' (length')[0][:70]},
                                 f"'{case['entry']}' conn {conn.n}: {problem}"))
            if conn is hconn:
                obs.log.append(f'hostile conn served {[(x[:8], c) for x, c in serves]} wrote {len(conn.stream("s"))} bytes')
                exp = entry['expect']
                if exp and exp.startswith('served:') and not obs.timer_devs and not problem:
                    want = [(names[x], True) for x in exp[7:].split(',') if x]
                    if serves != want:
                        obs.viol.append(({'kind': 'well-formed-request-not-served', 'entry': sig_entry},
                                         f"'{case['entry']}': server sent {[(x[:8], c) for x, c in serves]}, expected {exp}"))
                if exp == 'closed-now':
                    if not closed_now:
                        obs.viol.append(({'kind': 'not-closed-at-once', 'entry': sig_entry},
                                         f"'{case['entry']}': server did not close the connection when the bad request arrived"))
                    if serves:
                        obs.viol.append(({'kind': 'served-bad-request', 'entry': sig_entry},
                                         f"'{case['entry']}': server sent blob bytes in answer to a request it must refuse"))
                if any(hh in (U, C, A) for hh, _ in serves):
                    obs.viol.append(({'kind': 'served-blob-not-held', 'entry': sig_entry}, f"'{case['entry']}': {serves}"))
        if case['entry'] == 'nested-object-split' and hconn is not None and not check_server_stream(hconn.stream('s'), w.held)[0]:
            obs.tallies.append('interpretation_only:valid_request_with_nested_object_split_after_inner_brace_refused')
        for ctx_ in loop.pop_exceptions():
            obs.tallies.append('server_task_exception_' + type(ctx_.get('exception')).__name__)
        if obs.timer_devs:
            obs.witness.add('server_timer_fired_before_slow_client_data')
        ublob.close()
        return obs
    finally:
        w.close()


def hostile_client_cases(quick):
    names = list(hc_catalogue('a' * 96, 'b' * 96, 'c' * 96, 'd' * 96, 'e' * 96))
    return [{'entry': nm, 'second': sec} for nm in names for sec in ('post', 'pre')]


EXECUTORS['C'] = exec_hostile_client

# =====================================================================================================
# pairing D: ONE client-side blob raced from two peers - the real server and a scripted liar
# pairing E: the same race driven by the real BlobDownloader.download_blob with a two-peer queue
# =====================================================================================================

LHOST, LPORT = '5.6.7.8', 4444
LIAR_TO = 5.0             # blob_download_timeout used towards the liar in pairing D (so that a timer deviation
                          # can end the liar's request while the honest transfer is still within its own timeout)
RACE_ENTRIES = ['corrupt-first', 'corrupt-middle', 'corrupt-last', 'hash-other', 'close-mid-body', 'abort-mid-body',
                'short-by-one', 'excess-byte', 'error-response', 'silence', 'len-plus1', 'len-minus1']


def pump_race(w, until, chunk, chooser, on_step, t_horizon, timer_dev=True):
    """Like World.pump, but the order in which the two connections' bytes reach the client is a choice:
    events travelling towards a server (CONNECT, request bytes, FINs) are taken in canonical order without
    a choice; when only client-bound events are pending, every connection's oldest event is an alternative
    of cost 0 (all interleavings are enumerated) and firing the earliest timer instead costs 1."""
    loop, obs = w.loop, w.obs
    n = 0
    while True:
        loop.settle()
        on_step()
        if until():
            return 'done'
        evs = loop.tcp_enabled()
        nt = loop.next_timer()
        if nt is not None and nt._when > t_horizon:
            nt = None
        up = [e for e in evs if e.kind == 'CONNECT' or e.side == 's']
        if up:
            ev = up[0]
        elif evs:
            firsts, seen = [], set()
            for e in sorted(evs, key=lambda e: (e.conn, RANK_KIND[e.kind], e.seq)):
                if e.conn not in seen:
                    seen.add(e.conn)
                    firsts.append(e)
            # only the first connection to each peer takes part in the race; connections opened later (the
            # downloader re-dialling a peer) are served in canonical order - this keeps the space finite
            racing = [e for e in firsts if e.conn <= 2]
            opts = racing + (['TIMER'] if (nt is not None and timer_dev) else [])
            if len(opts) > 1 and chooser is not None:
                costs = tuple([0] * len(racing) + ([1] if len(opts) > len(racing) else []))
                ev = opts[chooser.choose(len(opts), costs, '|'.join(o if o == 'TIMER' else o.label for o in opts))]
            else:
                ev = firsts[0]
            if ev == 'TIMER':
                loop.fire_timer()
                obs.timer_devs += 1
                obs.log.append(f'TIMER-FIRST@{loop.time():.3f}')
                obs.transitions += 1
                continue
        elif nt is not None:
            loop.fire_timer()
            obs.log.append(f'TIMER@{loop.time():.3f}')
            obs.transitions += 1
            continue
        else:
            return 'quiet' if loop.next_timer() is None else 'horizon'
        size = chunk(ev) if ev.kind == 'SEG' else None
        got = loop.tcp_fire(ev, size)
        obs.log.append(f'{ev.label}:{got}' if ev.kind == 'SEG' else ev.label)
        obs.transitions += 1
        n += 1
        if n > 3000 or len(loop.tcp_conns) > 60:     # a peer re-dialled without end at one virtual instant
            return 'steps'


RANK_KIND = {'CONNECT': 0, 'SEG': 0, 'EOF': 1, 'RESET': 2}


class RaceWorld:
    """Common set-up of pairings D and E: real server holding the blob at HOST:PORT, scripted liar at
    LHOST:LPORT, one client manager; coarse cut alphabet header / half body / rest on both connections."""

    def __init__(self, base, obs, case):
        self.w = w = World(base, obs)
        loop = w.loop
        self.sbm, self.cbm = w.manager(w.sd), w.manager(w.cd)
        self.blob = make_blob('plain20', 0)
        self.h = w.hold(self.sbm, self.blob)
        w.listen_real(self.sbm)
        oblob = make_blob('plain20', 7)
        self.entry = entry = hs_catalogue(self.h, self.blob, sha(oblob), oblob)[case['entry']]
        self.liars = []

        def on_request(s, idx, req):
            s.perform(entry['resp'])

        def liar():
            self.liars.append(Scripted(loop, None, on_request))
            return self.liars[-1]
        loop.run(loop.create_server(liar, LHOST, LPORT))
        self.honest_cut = {}

    def chunk(self, ev):
        if ev.side != 'c':
            return None
        loop = self.w.loop
        conn = loop.tcp_conns[ev.conn - 1]
        pos = conn.offset['c']
        if conn.addr == (HOST, PORT):
            cut = self.honest_cut.setdefault(conn.n, Cutter(['he', 'mid'], 's2c'))
            return cut.size(ev, conn)
        hl, tot = self.entry['hl'], self.entry['tot']
        for c in sorted({hl, hl + (tot - hl) // 2}):
            if pos < c < tot:
                return max(1, min(c - pos, ev.avail))
        return None

    def conns(self, addr):
        return [c for c in self.w.loop.tcp_conns if c.addr == addr]


def exec_race(base, case, chooser=None):
    """case = {'entry': liar's misbehaviour, 'known': bool, 'order': 'hl'|'lh' (which request starts first)}"""
    from lbry.blob_exchange.client import request_blob
    obs = Obs()
    rw = RaceWorld(base, obs, case)
    w = rw.w
    try:
        loop = w.loop
        h, blob, entry = rw.h, rw.blob, rw.entry
        cb = rw.cbm.get_blob(h, len(blob) if case['known'] else None)
        w.state_prefix = ('D', case['entry'], case['known'], case['order'])
        recs = {}

        async def one(tag, host, port, timeout):
            rec = recs[tag] = {'t0': loop.time(), 'outcome': 'pending', 'n': None}
            try:
                nb, proto = await request_blob(loop, cb, host, port, CONNECT_TO, timeout)
                rec.update(outcome='ok' if proto is not None else 'dropped', n=nb, proto=proto)
            except asyncio.CancelledError:
                rec.update(outcome='cancelled')
            except Exception as e:   # noqa
                rec.update(outcome='exc:' + type(e).__name__)
            rec.update(t1=loop.time(), verified_then=cb.get_is_verified())

        spec = {'h': ('h', HOST, PORT, DL_TO), 'l': ('l', LHOST, LPORT, LIAR_TO)}
        tasks = {tag: loop.create_task(one(*spec[tag])) for tag in case['order']}
        genuine = {h: blob}
        st = {}

        def on_step():
            obs.states.append(w.snapshot())
            w.check_client_dir(w.cd, genuine, 'race')
            if 'l' in recs and recs['l']['outcome'] != 'pending' and recs.get('h', {}).get('outcome') == 'pending' \
                    and not cb.get_is_verified():
                hc = rw.conns((HOST, PORT))
                if hc and 0 < hc[0].offset['c'] < len(hc[0].stream('s')):
                    obs.witness.add('liar_finished_while_honest_transfer_in_flight')

        end = pump_race(w, lambda: all(t.done() for t in tasks.values()), rw.chunk, chooser, on_step, t_horizon=200.0)
        obs.log.append(f'pump:{end} t={loop.time():.3f}')
        sig = {'entry': case['entry'], 'known_len': case['known']}
        for tag in 'hl':
            rec = recs.get(tag, {'outcome': 'never-started', 't0': 0.0})
            obs.log.append(f"{'honest' if tag == 'h' else 'liar'}: {rec['outcome']} n={rec.get('n')} "
                           f"t={rec.get('t1', loop.time()) - rec['t0']:.3f}")
            to = DL_TO if tag == 'h' else LIAR_TO
            if not tasks[tag].done():
                obs.viol.append((dict(sig, kind='raced-request-never-returns', who=tag),
                                 f"request_blob towards the {'honest peer' if tag == 'h' else 'liar'} has not returned after "
                                 f"{loop.time():.0f} virtual seconds ({case})"))
                tasks[tag].cancel()
            elif rec['t1'] - rec['t0'] > CONNECT_TO + 2 * to + EPS:
                obs.viol.append((dict(sig, kind='raced-request-late', who=tag),
                                 f"request_blob ({tag}) took {rec['t1'] - rec['t0']:.3f} virtual seconds, bound {CONNECT_TO + 2 * to:.0f}"))
        loop.settle()
        data = file_state(w.cd, h)
        good = cb.get_is_verified() and data == blob
        obs.log.append(f"blob verified={cb.get_is_verified()} file={'identical' if data == blob else ('absent' if data is None else 'DIFFERENT')}")
        hrec = recs.get('h', {})
        honest_timed_out = loop.time() >= DL_TO - EPS and hrec.get('outcome') != 'ok'
        if not good:
            if honest_timed_out:
                obs.tallies.append('race_honest_transfer_hit_its_own_timeout')
            elif entry['relies_on_length'] and not case['known']:
                # the liar's announced length sticks to the shared blob object (set_length in data_received) and the
                # honest header is then refused as "unexpected length": its own, specific signature
                obs.viol.append(({'kind': 'announced-wrong-length-sticks-to-shared-blob'},
                                 f"blob of unknown length raced from an honest server and a peer announcing a wrong length "
                                 f"({case['entry']}): the liar's header arrived first, blob.length stayed {cb.length}, the honest "
                                 f"peer's header was refused (honest request ended {hrec.get('outcome')}), verified={cb.get_is_verified()}"))
            else:
                errs = [f"{e['message']} {e['exception']!r}" for e in loop.tcp_errors][:1]
                obs.viol.append((dict(sig, kind='honest-copy-did-not-complete-beside-liar', honest_outcome=hrec.get('outcome')),
                                 f"blob raced from an honest server and a liar ({case['entry']}): honest request ended "
                                 f"{hrec.get('outcome')}, liar's ended {recs.get('l', {}).get('outcome')}, verified="
                                 f"{cb.get_is_verified()}, file={'absent' if data is None else 'present'} {errs}"))
        lrec = recs.get('l', {})
        if lrec.get('outcome') not in ('ok', 'pending', None):
            open_l = [c.n for c in rw.conns((LHOST, LPORT)) if not c.client.is_closing()]
            if open_l:
                obs.viol.append((dict(sig, kind='liar-connection-left-open'),
                                 f"request towards the liar ended {lrec['outcome']} but its transport is still open"))
        for rec in recs.values():
            if rec.get('proto') is not None:
                rec['proto'].close()
        w.pump(None, timers=False, on_step=on_step)
        w.check_client_dir(w.cd, genuine, 'race', final=True)
        for conn in rw.conns((HOST, PORT)):
            serves, problem = check_server_stream(conn.stream('s'), w.held)
            if problem:
                obs.viol.append(({'kind': 'server-wire', 'pairing': 'race', 'problem': problem.split(' at offset')[0][:60]}, problem))
        return obs
    finally:
        w.close()


def exec_downloader(base, case, chooser=None):
    """case = {'entry', 'queue': 'lh'|'hl'}: the real BlobDownloader with a two-peer queue."""
    from lbry.blob_exchange.downloader import BlobDownloader
    from lbry.dht.peer import make_kademlia_peer
    obs = Obs()
    rw = RaceWorld(base, obs, case)
    w = rw.w
    try:
        loop = w.loop
        h, blob = rw.h, rw.blob
        make_kademlia_peer.cache_clear()
        peers = {'h': make_kademlia_peer(b'\x01' * 48, HOST, udp_port=4444, tcp_port=PORT),
                 'l': make_kademlia_peer(b'\x02' * 48, LHOST, udp_port=4444, tcp_port=LPORT)}
        w.conf.peer_connect_timeout = CONNECT_TO
        w.conf.blob_download_timeout = DL_TO
        q = asyncio.Queue()
        q.put_nowait([peers[t] for t in case['queue']])
        dl = BlobDownloader(loop, w.conf, rw.cbm, q)
        w.state_prefix = ('E', case['entry'], case['queue'])
        genuine = {h: blob}
        task = loop.create_task(dl.download_blob(h))

        def on_step():
            obs.states.append(w.snapshot())
            w.check_client_dir(w.cd, genuine, 'downloader')

        # the downloader polls on 1 s timers; they are not deviations here (timer_dev off: interleavings only)
        end = pump_race(w, task.done, rw.chunk, chooser, on_step, t_horizon=300.0, timer_dev=False)
        obs.log.append(f'pump:{end} t={loop.time():.3f}')
        sig = {'entry': case['entry'], 'queue': case['queue']}
        got = None
        if task.done() and not task.cancelled() and task.exception() is None:
            got = task.result()
        data = file_state(w.cd, h)
        obs.log.append(f"download_blob: {'returned' if got is not None else 'did not return'} verified="
                       f"{bool(got and got.get_is_verified())} file={'identical' if data == blob else 'absent/different'}")
        if (got is None or not got.get_is_verified() or data != blob) and rw.entry['relies_on_length']:
            obs.viol.append(({'kind': 'announced-wrong-length-sticks-to-shared-blob'},
                             f"BlobDownloader.download_blob (length unknown, peers: honest server + liar '{case['entry']}') has not "
                             f"returned after {loop.time():.0f} virtual seconds: the liar's announced length stuck to the blob "
                             f"(length={rw.cbm.get_blob(h).length}) and every honest header is refused as unexpected length"))
        elif got is None or not got.get_is_verified() or data != blob:
            obs.viol.append((dict(sig, kind='downloader-did-not-get-blob-beside-liar'),
                             f"BlobDownloader.download_blob with peers {case['queue']} (l = liar '{case['entry']}', h = honest "
                             f"server): {end} at t={loop.time():.1f}, task={'done' if task.done() else 'pending'}, "
                             f"file={'absent' if data is None else 'present'}"))
        elif loop.time() > CONNECT_TO + 2 * DL_TO + EPS:
            obs.viol.append((dict(sig, kind='downloader-late'), f'download_blob needed {loop.time():.1f} virtual seconds'))
        if not task.done():
            task.cancel()
        dl.close()
        loop.settle()
        w.pump(None, timers=False, on_step=on_step)
        w.check_client_dir(w.cd, genuine, 'downloader', final=True)
        make_kademlia_peer.cache_clear()
        return obs
    finally:
        w.close()


def race_cases(quick):
    return [{'entry': e, 'known': k, 'order': o} for e in RACE_ENTRIES for k in (False, True) for o in ('hl', 'lh')]


def downloader_cases(quick):
    return [{'entry': e, 'queue': o} for e in RACE_ENTRIES for o in ('lh', 'hl')]


EXECUTORS['D'] = exec_race
EXECUTORS['E'] = exec_downloader

# =====================================================================================================
# work items, run, replay
# =====================================================================================================

def run_case(base, pairing, case, choices=()):
    from vf.explore import Chooser
    ch = Chooser(choices)
    obs = EXECUTORS[pairing](base, case, ch)
    return obs, ch


def record(res, pairing, case, obs, ch):
    res.count('executions')
    res.count('executions_pairing_' + pairing)
    res.count('evaluations')
    res.count('transitions', obs.transitions)
    for s in obs.states:
        res.distinct_add('states', s)
    for wn in obs.witness:
        res.witness(wn)
    for t in obs.tallies:
        res.tally(t)
    if obs.timer_devs:
        res.count('executions_with_timer_before_data')
    res.setmax('max_events_in_one_execution', obs.transitions)
    for sig, what in obs.viol:
        res.violation(sig, what, {'pairing': pairing, 'case': case, 'choices': list(ch.choices)})


def nontrivial_key(pairing, case):
    c = dict(case)
    return (pairing, json.dumps(c, sort_keys=True))


def work(item, res):
    """item = (pairing, [cases], bound) - every case is explored with all TIMER deviations <= bound."""
    from vf.bootstrap import scratch_dir
    from vf.explore import dfs_deviation
    import time as _time
    pairing, cases, bound = item
    base = scratch_dir('c10')
    _t0 = _time.time()
    try:
        first = last = None
        for case in cases:
            def run_one(ch, case=case):
                return EXECUTORS[pairing](base, case, ch)

            def on_result(ch, obs, case=case):
                nonlocal first, last
                record(res, pairing, case, obs, ch)
                if first is None:
                    first = (case, list(ch.choices), obs.digest())
                last = (case, list(ch.choices), obs.digest())
                if obs.viol:
                    again, _ = run_case(base, pairing, case, ch.choices)
                    res.count('determinism_replays')
                    if again.digest() != obs.digest() or [s for s, _ in again.viol] != [s for s, _ in obs.viol]:
                        res.error(f'non-deterministic replay of violating case {case} {ch.choices}')
            out = dfs_deviation(run_one, bound=bound, on_result=on_result)
            res.setmax('max_choice_points', out['max_points'])
            if nontrivial(pairing, case):
                res.distinct_add('nontrivial', nontrivial_key(pairing, case))
        for probe in (first, last):
            if probe is not None:
                for _ in range(1):
                    again, _ch = run_case(base, pairing, probe[0], probe[1])
                    res.count('determinism_replays')
                    if again.digest() != probe[2]:
                        res.error(f'non-deterministic replay of {probe[0]} {probe[1]}')
    finally:
        shutil.rmtree(base, ignore_errors=True)
        res.setmax('max_item_wall_s', round(_time.time() - _t0, 1))
        if os.environ.get('C10_DEBUG'):
            with open(os.environ['C10_DEBUG'], 'a') as f:
                f.write(f"{_time.time() - _t0:.2f} {pairing} {len(cases)} {json.dumps(cases[0])}\n")


def nontrivial(pairing, case):
    if pairing == 'A':
        return case['s2c'] == 'bytes1' or case['c2s'] == 'bytes1' or bool(case['s2c']) or bool(case['c2s']) \
            or len(case['seq']) > 1
    return True


def subsets(names):
    for r in range(len(names) + 1):
        for c in itertools.combinations(names, r):
            yield list(c)


def honest_cases(quick):
    limit = 8 if quick else 12
    shapes = ['one', 'plain20', 'brace', 'emptyobj', 'jsonother', 'addr', 'avail', 'fakehdr',
              'wslead', 'wstail', 'wsonly', 'bomnul']
    cases = []
    c2s_all = [list(s) for s in subsets(C2S_NAMES)] + ['bytes1']
    for shape in shapes:
        names = s2c_alphabet(make_blob(shape), limit)
        seqs = [[[shape, 0]], [['plain20', 1], [shape, 0]], [[shape, 0], ['plain20', 1], [shape, 2]]]
        for si, seq in enumerate(seqs):
            for known in ((False, True) if (si == 0 or not quick) else (False,)):
                s2c_all = [s for s in subsets(names)] + ['bytes1']
                for s2c in s2c_all:
                    if not quick and si == 0 and not known:
                        c2s_opts = c2s_all                      # full product of both directions
                    elif s2c and s2c != 'bytes1':
                        c2s_opts = [[]]                         # response chunkings, request whole
                    else:
                        c2s_opts = c2s_all                      # request chunkings around whole / 1-byte responses
                    for c2s in c2s_opts:
                        cases.append({'seq': seq, 'known': known, 'c2s': c2s, 's2c': s2c})
    # 2 MiB blobs: singles in quick, subsets of 8 cuts in thorough
    for shape in ('big', 'bigaddr'):
        names = s2c_alphabet(make_blob(shape), 8)
        if quick:
            opts = [[], ['he'], ['he+1'], ['he', 'mid'], ['he-1', 'end-1']]
            if shape == 'bigaddr':
                opts += [['he', 'bj0+'], ['he', 'bj0-']]
        else:
            opts = list(subsets(names))
        for s2c in opts:
            cases.append({'seq': [[shape, 0]], 'known': False, 'c2s': [], 's2c': s2c})
        cases.append({'seq': [['plain20', 1], [shape, 0]], 'known': True, 'c2s': ['mid'], 's2c': ['he-1']})
    return cases


def chunked(seq, n):
    for i in range(0, len(seq), n):
        yield seq[i:i + n]


def cost(pairing, case):
    """Rough relative cost of one base case (1 ~ 3 ms), used only to balance work items."""
    if pairing == 'A':
        big = any(s in ('big', 'bigaddr') for s, _ in case['seq'])
        b1 = case['s2c'] == 'bytes1' or case['c2s'] == 'bytes1'
        # a split exactly at the header end makes the client re-scan the first 256 KiB body segment for
        # JSON at every '}' (about a second of CPU for a random 2 MiB blob)
        return (400 if (big and 'he' in case['s2c']) else 15 if big else 1) * len(case['seq']) * (4 if b1 else 1)
    if pairing == 'B':
        if case['shape'] in ('big', 'bigaddr'):
            return 500 if case['cuts'] else 400
        return 6 if case['cuts'] == 'bytes1' else 1
    return 1


def make_items(pairing, cases, bound, budget):
    items, cur, acc = [], [], 0
    for c in cases:
        cur.append(c)
        acc += cost(pairing, c)
        if acc >= budget:
            items.append((pairing, cur, bound))
            cur, acc = [], 0
    if cur:
        items.append((pairing, cur, bound))
    return items


EXECUTORS['A'] = exec_honest


def run(ctx):
    from vf.tcpfab import selftest
    selftest()                      # the fabric obeys DESIGN A.2 before anything is judged with it
    quick = ctx.quick
    a_cases = honest_cases(quick)
    b_cases = hostile_server_cases(quick)
    c_cases = hostile_client_cases(quick)
    bound = 1 if quick else 2
    items = make_items('A', a_cases, 0, 250)
    b_big = [c for c in b_cases if c['shape'] == 'big']
    items += make_items('B', [c for c in b_cases if c['shape'] != 'big'], bound, 60)
    items += make_items('B', b_big, 0 if quick else 1, 400)
    items += make_items('C', c_cases, bound, 40)
    d_cases, e_cases = race_cases(quick), downloader_cases(quick)
    items += make_items('D', d_cases, 1 if quick else 2, 8)   # all interleavings (cost 0) x <= 1 (thorough 2) timer deviations
    items += make_items('E', e_cases, 0, 8)          # all interleavings, the downloader's own timers run by default
    # light items first, simplest first, so that the violation kept per signature is the simplest one; the few
    # heavy (2 MiB) items run in a second wave
    weight = lambda it: sum(cost(it[0], c) for c in it[1])   # noqa
    ctx.pmap(work, [it for it in items if weight(it) < 400])
    ctx.pmap(work, [it for it in items if weight(it) >= 400])
    res = ctx.res
    res.sample({'pairing': 'A', 'case': a_cases[0]})
    res.sample({'pairing': 'A', 'case': a_cases[len(a_cases) // 2]})
    res.sample({'pairing': 'B', 'case': b_cases[0]})
    res.sample({'pairing': 'B', 'case': b_cases[len(b_cases) // 3]})
    res.sample({'pairing': 'C', 'case': c_cases[0]})
    res.sample({'pairing': 'C', 'case': c_cases[-1]})
    res.count('cases_honest', len(a_cases))
    res.count('cases_hostile_server', len(b_cases))
    res.count('cases_hostile_client', len(c_cases))
    res.count('cases_race', len(d_cases))
    res.count('cases_downloader', len(e_cases))
    res.sample({'pairing': 'D', 'case': d_cases[0]})
    res.sample({'pairing': 'E', 'case': e_cases[-1]})
    limit = 8 if quick else 12
    ctx.meta.update(
        rule=('A (real client <-> real server): every subset of the per-response cut-point alphabet (first byte, both '
              'sides of every "}" of the header and of the first "}"s of the body, header end -1/0/+1, body middle, '
              f'end-1; <= {limit} points per blob shape) plus the all-1-byte schedule, for 12 blob shapes x 3 request '
              'sequences (1-3 requests on one connection, shape at every position), every subset of the request cut '
              'alphabet {1, middle, end-1} + 1-byte around whole/1-byte responses'
              + ('' if quick else ' and in full product with the response subsets for single requests')
              + '; 2 MiB blobs ' + ('as singles' if quick else 'with every subset of 8 cuts') + '. '
              'B (real client <-> scripted hostile server): every catalogue entry x every message position k of n '
              f'requests (n <= {2 if quick else 3}) x client knows/does not know the length x every subset of {{header '
              f'end -1/0/+1{"" if quick else ", body middle"}}}{" + {mid} + {he, mid}" if quick else ""} + 1-byte, each with every placement of <= {bound} timer-before-data '
              'deviation(s). C (scripted hostile client <-> real server + second honest client before/after): every '
              f'catalogue entry incl. the request split at every byte offset, with <= {bound} timer deviation(s). '
              'D (one client-side blob requested concurrently from the real server and from a scripted liar, as '
              'BlobDownloader races peers): 12 liar entries x length known/unknown x start order, EVERY interleaving of '
              'the two connections\' client-bound deliveries at the cuts header / half body / rest, each with <= ' + str(bound) + ' timer '
              'deviation (liar timeout 5 s < honest 10 s). E: the same two peers behind the real BlobDownloader.download_blob '
              '(peer queue in both orders), every interleaving of the first connection to each peer. '
              'Non-trivial = every case except the single whole-request/whole-response honest transfer; states = '
              'distinct canonical harness states (case, stream offsets, client parser state, server buffer, clock).'),
        exhaustive=True,
        bounds={'cut_points_per_response': limit, 'requests_per_connection': 3 if quick else 3,
                'hostile_position_max_requests': 2 if quick else 3, 'timer_deviation_bound': bound,
                'blob_sizes': [1, 20, 31, MIB2], 'timeouts': {'connect': CONNECT_TO, 'download': DL_TO,
                                                               'idle': IDLE_TO, 'transfer': XFER_TO}},
        bound_completed=bound,
        assumptions=[
            'TCP is the in-memory fabric of vf.tcpfab (DESIGN A.2): ordered lossless pipes, unbounded buffers '
            '(pause_writing never signalled), <= 256 KiB per data_received as asyncio selector transports do',
            'executor jobs (file reads/writes) run atomically and before any pending network event (C01 owns writer '
            'interleavings); SQLiteStorage is replaced by a recording stub (C18 owns the bookkeeping)',
            'honest x honest: data is never held past a timeout, only re-chunked; timers are choice points only '
            'against scripted peers',
            'hostile peers: "never verified" is enforced literally for wrong hash, corrupted/short/malformed data and '
            'for wrong lengths when the client takes the length from the header; when the client already knows the '
            'length, or the peer only adds excess/unsolicited bytes around genuine content, the enforced reading is '
            '"verified or on disk only if byte-identical to the genuine blob" (tallied as interpretation_only)',
            'race pairings D/E: the blob must end verified and byte-identical whatever the liar does and whenever, unless the '
            'honest connection\'s own timeout was fired by a deviation; only the first connection to each peer is '
            'interleaved, later re-dials are served in canonical order',
            'request size cap: the stronger reading (server never buffers >= MAX_REQUEST_SIZE bytes and closes at once) '
            'is enforced because the unchanged tree satisfies it',
        ],
        expected_witnesses=['header_split_inside_json', 'header_glued_to_body_bytes', 'header_delivered_alone_then_body',
                            'all_one_byte_schedule', 'timeout_fired_before_slow_data',
                            'server_timer_fired_before_slow_client_data', 'liar_finished_while_honest_transfer_in_flight'],
    )


def replay(data):
    import vf.bootstrap  # noqa: F401
    from vf.bootstrap import scratch_dir
    base = scratch_dir('c10')
    try:
        obs, ch = run_case(base, data['pairing'], data['case'], data.get('choices', ()))
        log = '\n'.join(obs.log[-60:])
        for sig, what in obs.viol:
            log += f'\nVIOLATION {json.dumps(sig, sort_keys=True)}: {what}'
        return bool(obs.viol), log
    finally:
        shutil.rmtree(base, ignore_errors=True)
