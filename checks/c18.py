"""C18 - blob bookkeeping matches the disk after any restart.

Explicit-state BFS over operation histories on the real BlobManager + SQLiteStorage (sqlite *file* in a
per-execution scratch directory, real blob directory) under the virtual loop.  A history is a list of
steps; every step is an operation plus a *schedule*: which executor job (file read/write or one DB
transaction) runs at each job boundary and, optionally, the boundary at which the process dies.  After a
process death nothing of the old process survives but the directory; a new loop + storage + manager are
started on it.  The statement's claims are evaluated after every setup() the exploration performs
(restarts inside histories, restarts after crashes, and - for every reached state - the history extended
by `restart` and by `restart, restart`).

A state is identified with the history that reaches it (replayed on fresh real objects); two histories
are merged only if their *live* canonical states are equal (files with sizes, blob/stream/file rows,
completed set, the flags of every blob object the manager holds), so pruning never merges different
futures.

Side families outside the BFS (both tiers): single wrongly named files (side_sweep) and "many unrecorded files
at one startup" (many_unrecorded_sweep): N in MANY_UNRECORDED valid finished blob files without any database
row are present when setup() runs, which drives ensure_completed_blobs_status through its 500-row batching
path (never reached by the handful of blobs of the BFS alphabets); same oracle, restart + second restart.
"""
import os
import shutil
import hashlib

PROPERTY = 'C18'
LEVEL = 'model_checking'
HASHSEEDS = {'quick': 1, 'thorough': 1}

# ------------------------------------------------------------------------------------------------
# fixed alphabet of blob identities

_STREAM_INFO = None
NPLAIN = 3
SEED = 0
PLAIN = PLAIN_HASH = STREAM_KEY = None


def configure(seed):
    """VERIF_SEED only renames the blobs (other contents -> other hashes -> other directory / set orders);
    it never changes which histories are explored."""
    global SEED, PLAIN, PLAIN_HASH, STREAM_KEY, _STREAM_INFO
    SEED = int(seed)
    PLAIN = [b'plain blob %d/%d ' % (i, SEED) + bytes([65 + i]) * (5 + i) for i in range(NPLAIN)]
    PLAIN_HASH = [hashlib.sha384(b).hexdigest() for b in PLAIN]
    STREAM_KEY = bytes((SEED + i) % 256 for i in range(16))
    _STREAM_INFO = None


STREAM_FILE_LEN = 40            # with MAX_BLOB_SIZE scaled to 32: two content blobs + terminator + sd blob
SCALED_MAX_BLOB_SIZE = 32
REAL_MAX_BLOB_SIZE = 2 * 2 ** 20       # lbry.blob.MAX_BLOB_SIZE, which blob_file keeps unscaled here

WRONG_NAMES = [
    'ab' * 47 + 'a',            # 95 hex characters: too short
    'ab' * 48 + 'a',            # 97 hex characters: too long
    'AB' * 48,                  # right length, upper case
    'xy' * 48,                  # right length, not hex
    'not-a-blob.txt',
]
# names the code's own pattern accepts although they are not sha384 hex digests; outside the statement
# ("blob file") - observed and tallied only
EXOTIC_NAMES = [
    'ab' * 47 + 'a,',           # the character class in HEXMATCH contains a comma
    'ab' * 47 + 'a\n',          # '$' matches before a trailing newline
]


def is_blob_name(name):
    """Independent of lbry: 96 lower-case hex digits."""
    return len(name) == 96 and all(c in '0123456789abcdef' for c in name)


class FakeTime:
    """Deterministic replacement for the `time` module inside lbry.blob.blob_file / lbry.stream.descriptor."""

    def __init__(self):
        self.t = 1_600_000_000.0

    def time(self):
        self.t += 1.0
        return self.t


def iv_gen():
    i = 0
    while True:
        i += 1
        yield i.to_bytes(16, 'big')


_PATCHED = False


def patch_lbry():
    """One-time, per process: scale MAX_BLOB_SIZE where the stream writer reads it, use the thread reader
    executor class (as lbry itself does on Windows/Android; the virtual loop never starts a thread)."""
    global _PATCHED
    if _PATCHED:
        return
    import lbry.stream.descriptor as descriptor
    import lbry.blob.blob_file as blob_file
    import lbry.wallet.database as database
    from concurrent.futures.thread import ThreadPoolExecutor
    descriptor.MAX_BLOB_SIZE = SCALED_MAX_BLOB_SIZE
    database.ReaderExecutorClass = ThreadPoolExecutor
    ft = FakeTime()

    class _T:
        time = staticmethod(ft.time)
    blob_file.time = _T
    descriptor.time = _T
    _PATCHED = True


class HarnessError(RuntimeError):
    pass


_LOOP_CLASS = None


def loop_class():
    """VLoop whose corpse stays quiet: coroutines abandoned by a simulated process death are finalised by the
    garbage collector later; their `finally:` blocks may call call_soon() on the closed loop, which must not
    print 'Event loop is closed' noise (nothing of a dead loop ever runs)."""
    global _LOOP_CLASS
    if _LOOP_CLASS is None:
        from vf.vloop import VLoop

        class QuietCorpseLoop(VLoop):
            def _check_closed(self):
                if not self.is_closed():
                    return
                if getattr(self, '_died', False):
                    return
                super()._check_closed()

            def shutdown(self):
                self._died = True
                super().shutdown()
        _LOOP_CLASS = QuietCorpseLoop
    return _LOOP_CLASS


# ------------------------------------------------------------------------------------------------
# the world: one directory, a sequence of processes (loop + storage + manager) living on it

class World:
    def __init__(self, root):
        patch_lbry()
        self.root = root
        self.bd = os.path.join(root, 'blobs')
        self.dl = os.path.join(root, 'dl')
        os.mkdir(self.bd)
        os.mkdir(self.dl)
        self.lk = os.path.join(root, 'elsewhere')      # regular files that symlinks in the blob directory point to
        os.mkdir(self.lk)
        self.src = os.path.join(self.dl, 'src.bin')
        with open(self.src, 'wb') as f:
            f.write(bytes((7 * i + 3) % 251 for i in range(STREAM_FILE_LEN)))
        self.loop = self.st = self.bm = None
        self.log = []                 # observation log (for determinism self-checks and replays)
        self.setups = 0
        self.jobs_run = 0
        self.last_setup = None        # observation taken right after the most recent setup()
        self.save_blobs = True        # configuration of the running process (Config.save_blobs)
        self.boot()

    # -- process life cycle --------------------------------------------------------------------
    def boot(self):
        from lbry.conf import Config
        from lbry.blob.blob_manager import BlobManager
        from lbry.extras.daemon.storage import SQLiteStorage
        self.loop = loop_class()().activate()
        conf = Config(data_dir=self.root, wallet_dir=self.root, download_dir=self.dl, save_blobs=self.save_blobs)
        self.conf = conf

        async def open_db():
            st = SQLiteStorage(conf, os.path.join(self.root, 'lbrynet.sqlite'), loop=self.loop)
            await st.open()
            return st
        self.st = self.loop.run(open_db())
        self.bm = BlobManager(self.loop, self.bd, self.st, conf)
        self._setup('new-process')

    def _setup(self, style, stale_unverified=0):
        """Runs BlobManager.setup() and records what the statement speaks about."""
        rows_before = self.rows()
        files_before = self.files()
        err = None
        try:
            self.loop.run(self.bm.setup())
        except Exception as e:   # noqa - judged by the oracle
            err = f'{type(e).__name__}: {e}'
        self.setups += 1
        self.last_setup = {
            'rows_before': rows_before, 'files_before': files_before, 'error': err,
            'has_stream': bool(self.query("select 1 from stream limit 1")),
            'rows': self.rows(), 'files': self.files(), 'completed': sorted(self.bm.completed_blob_hashes),
            'style': style, 'save_blobs': self.save_blobs, 'stale_unverified': stale_unverified,
            'links': [n for n, _ in files_before if os.path.islink(os.path.join(self.bd, n))],
        }
        self.log.append(('setup', style, self.save_blobs, self.brief(self.last_setup)))

    def _close_blobs(self):
        if self.bm is not None:
            for b in list(self.bm.blobs.values()):
                try:
                    b.close()
                except Exception:   # noqa
                    pass

    def die(self):
        """Process death: nothing pending ever runs.  Every DB job is one committed transaction, so dropping
        the connection at a job boundary leaves exactly what a killed process leaves."""
        self._close_blobs()
        self.loop.jobs.clear()
        try:
            conn = self.st.db.writer_connection
            if conn is not None:
                conn.close()
        except Exception:   # noqa
            pass
        try:
            self.st.db.writer_executor.shutdown(wait=False)
            self.st.db.reader_executor.shutdown(wait=False)
        except Exception:   # noqa
            pass
        self.loop.shutdown()
        self.loop = self.st = self.bm = None

    def clean_stop(self):
        self.bm.stop()
        self.loop.run(self.st.close())
        self.loop.shutdown()
        self.loop = self.st = self.bm = None

    def destroy(self):
        if self.loop is not None:
            self.die()
        shutil.rmtree(self.root, ignore_errors=True)

    # -- observation ---------------------------------------------------------------------------
    def query(self, sql):
        """Read through the storage's own connection, synchronously (no loop involvement)."""
        return self.st.db.writer_connection.execute(sql).fetchall()

    def rows(self):
        return sorted(self.query("select blob_hash, status from blob"))

    def files(self):
        out = []
        for name in sorted(os.listdir(self.bd)):
            p = os.path.join(self.bd, name)
            out.append((name, os.path.getsize(p) if os.path.isfile(p) else -1))
        return out

    def aux_rows(self):
        return (sorted(self.query("select stream_hash, sd_hash from stream")),
                sorted(self.query("select stream_hash, coalesce(blob_hash, ''), position from stream_blob")),
                sorted(self.query("select stream_hash, status from file")))

    @staticmethod
    def brief(obs):
        return {'files': [(short(n), s) for n, s in obs['files']],
                'rows': [(short(r[0]), r[1]) for r in obs['rows']],
                'completed': [short(h) for h in obs['completed']], 'error': obs['error']}

    def canon(self):
        """Live canonical state.  Everything later behaviour can depend on: the directory, the tables the
        anchored code reads, the completed set and the flags of the manager's blob objects."""
        blobs = []
        for h, b in sorted(self.bm.blobs.items()):
            blobs.append((h, type(b).__name__, b.get_is_verified(), b.writing.is_set(), b.length,
                          len(b.writers), len(b.readers)))
        links = tuple(n for n in sorted(os.listdir(self.bd)) if os.path.islink(os.path.join(self.bd, n)))
        return (tuple(self.files()), tuple(self.rows()), self.aux_rows(), tuple(sorted(self.bm.completed_blob_hashes)),
                tuple(blobs), self.save_blobs, links)

    # -- running an operation under a schedule -----------------------------------------------------
    def run_task(self, coro_or_none, choices, crash):
        """Drive the loop to quiescence.  `choices[i]` selects which runnable executor job runs at the i-th
        job boundary (index into the canonical runnable list; 0 beyond the list).  With `crash`, die at the
        boundary after the listed choices instead of running another job.  Returns the trace
        [n_runnable at every boundary met] and whether a crash happened."""
        loop = self.loop
        task = loop.create_task(coro_or_none) if coro_or_none is not None else None
        trace = []
        self.last_labels = []
        i = 0
        while True:
            loop.drain()
            rj = loop.runnable_jobs()
            if not rj:
                break
            trace.append(len(rj))
            if i < len(choices):
                if choices[i] >= len(rj):
                    raise HarnessError(f'schedule choice {choices[i]} out of range {len(rj)} at boundary {i}')
                j = rj[choices[i]]
            elif crash:
                return trace, True, None
            else:
                j = rj[0]
            self.last_labels.append(job_label(j))
            loop.job_run(j)
            self.jobs_run += 1
            i += 1
        if i < len(choices):
            raise HarnessError(f'schedule has {len(choices)} choices, execution met only {i} boundaries')
        outcome = None
        if task is not None:
            if not task.done():
                raise HarnessError('operation neither finished nor waiting for a job')
            if task.exception() is not None:
                outcome = f'{type(task.exception()).__name__}'
        return trace, False, outcome

    # -- operations ------------------------------------------------------------------------------
    def hashes(self):
        return PLAIN_HASH + stream_info()['all']

    def start_op(self, op):
        """Returns (coroutine or None, note).  Synchronous parts of the operation happen here, exactly as they
        would inside the calling coroutine's first step."""
        kind = op[0]
        bm = self.bm
        if kind == 'complete':
            h = self.hashes()[op[1]]
            data = content_of(h)
            try:
                blob = bm.get_blob(h, len(data))
                if blob.get_is_verified() or not blob.is_writeable():
                    return None, 'skipped-have-it'        # what BlobExchangeClientProtocol.download_blob does
                w = blob.get_blob_writer('10.0.0.1', 3333)
                w.write(data)
            except OSError as e:
                return None, f'refused-{type(e).__name__}'
            return None, 'written'
        if kind == 'begin':
            # a download that is under way: the blob object exists, a writer is open, only part of the data arrived
            h = self.hashes()[op[1]]
            data = content_of(h)
            try:
                blob = bm.get_blob(h, len(data))
                if blob.get_is_verified() or not blob.is_writeable():
                    return None, 'skipped-have-it'
                w = blob.get_blob_writer('10.0.0.2', 3333)
                w.write(data[:len(data) // 2])
            except OSError as e:
                return None, f'refused-{type(e).__name__}'
            return None, 'begun'
        if kind == 'publish':
            return self._publish(), 'publish'
        if kind == 'delete':
            return bm.delete_blobs([self.hashes()[op[1]]], delete_from_db=bool(op[2])), 'delete'
        if kind == 'delstream':
            return self._delete_stream(), 'delstream'
        if kind == 'unlink':
            os.remove(os.path.join(self.bd, self.hashes()[op[1]]))
            return None, 'unlinked'
        if kind == 'drop':
            h = self.hashes()[op[1]]
            if op[2] == 'symlink':
                # a link in the blob directory to a regular file elsewhere (blob directory assembled from links)
                with open(os.path.join(self.lk, h), 'wb') as f:
                    f.write(content_of(h))
                os.symlink(os.path.join(self.lk, h), os.path.join(self.bd, h))
                return None, 'dropped'
            with open(os.path.join(self.bd, h), 'wb') as f:
                if op[2] == 'big':
                    f.truncate(REAL_MAX_BLOB_SIZE + 1)     # sparse; larger than any blob can be
                else:
                    f.write(content_of(h)[:len(content_of(h)) if op[2] == 'full' else 0])
            return None, 'dropped'
        if kind == 'symlink':
            # an existing blob file is moved elsewhere and replaced by a link to it, behind the back
            h = self.hashes()[op[1]]
            p = os.path.join(self.bd, h)
            if os.path.islink(p):
                return None, 'already-a-link'
            os.replace(p, os.path.join(self.lk, h))
            os.symlink(os.path.join(self.lk, h), p)
            return None, 'replaced-by-link'
        if kind == 'wrong':
            for n in WRONG_NAMES:
                with open(os.path.join(self.bd, n), 'wb') as f:
                    f.write(b'junk')
            return None, 'wrong-names-added'
        raise HarnessError(f'unknown op {op!r}')

    async def _publish(self):
        """StreamManager.create without the ManagedStream object: the calls it makes on blob manager/storage."""
        from lbry.stream.descriptor import StreamDescriptor
        bm = self.bm
        descriptor = await StreamDescriptor.create_stream(
            self.loop, bm.blob_dir, self.src, key=STREAM_KEY, iv_generator=iv_gen(),
            blob_completed_callback=bm.blob_completed)
        await self.st.store_stream(bm.get_blob(descriptor.sd_hash, is_mine=True), descriptor)
        await self.st.save_published_file(descriptor.stream_hash, os.path.basename(self.src),
                                          os.path.dirname(self.src), 0)

    async def _delete_stream(self):
        """StreamManager.delete: the calls it makes on blob manager/storage."""
        from lbry.stream.descriptor import StreamDescriptor
        from lbry.blob.blob_info import BlobInfo
        info = stream_info()
        blobs = [BlobInfo(n, ln, iv, 0, h, True) for (n, ln, iv, h) in info['blob_infos']]
        descriptor = StreamDescriptor(self.loop, self.bd, 'src.bin', info['key'], 'src.bin', blobs,
                                      info['stream_hash'], info['sd_hash'])
        blob_hashes = [info['sd_hash']] + [b.blob_hash for b in descriptor.blobs[:-1]]
        await self.bm.delete_blobs(blob_hashes, delete_from_db=False)
        await self.st.delete_stream(descriptor)

    def step(self, step):
        """One history step: (op, choices, crash).  op ('restart',) = clean stop + start; ('kill',) = process
        death at quiescence + start.  A crash inside an operation is followed by a start (same configuration)."""
        op, choices, crash = step[0], list(step[1]), bool(step[2])
        if op[0] in ('restart', 'restart-flip'):
            # a new process on the same directory; restart-flip starts it with the other save_blobs setting
            self.clean_stop()
            if op[0] == 'restart-flip':
                self.save_blobs = not self.save_blobs
            self.boot()
            return [], False, op[0]
        if op[0] == 'restart-same':
            # stop() and setup() on the live manager object (same loop, same storage), as upstream's own
            # test_sync_blob_file_manager_on_startup restarts
            stale = sum(1 for b in self.bm.blobs.values() if not b.get_is_verified())
            self.bm.stop()
            self.loop.drain()
            self._setup('same-object', stale)
            return [], False, 'restart-same'
        if op[0] == 'kill':
            self.die()
            self.boot()
            return [], True, 'kill'
        coro, note = self.start_op(op)
        trace, crashed, outcome = self.run_task(coro, choices, crash)
        self.log.append((op, tuple(choices), crashed, note, outcome, tuple(trace)))
        if crashed:
            self.die()
            self.boot()
        return trace, crashed, outcome or note


def job_label(j):
    """('f', name) for a default-executor (file) job, ('d', name of the transaction function) for a job of the
    storage's single writer thread."""
    f = j.func
    if j.executor is None:
        return ('f', getattr(f, '__qualname__', repr(type(f))))
    name = getattr(f, '__qualname__', '?')
    for cell in (getattr(f, '__closure__', None) or ()):
        try:
            v = cell.cell_contents
        except ValueError:
            continue
        if callable(v) and hasattr(v, '__qualname__') and not isinstance(v, type) and 'AIOSQLite' not in v.__qualname__:
            name = v.__qualname__
    if j.args and callable(j.args[0]) and hasattr(j.args[0], '__qualname__'):
        name = j.args[0].__qualname__
    return ('d', name)


def short(h):
    return h[:6] if isinstance(h, str) else h


def stream_info():
    """Hashes of the one stream of the alphabet (deterministic key and IVs), found by publishing it once in a
    throw-away directory through the real code."""
    global _STREAM_INFO
    if _STREAM_INFO is None:
        from vf.bootstrap import scratch_dir
        d = scratch_dir('c18i')
        try:
            wd = os.path.join(d, 'w')
            os.mkdir(wd)
            w = World(wd)
            coro, _ = w.start_op(('publish',))
            w.run_task(coro, [], False)
            sd_hash = w.query("select sd_hash from stream")[0][0]
            stream_hash = w.query("select stream_hash from stream")[0][0]
            key = w.query("select stream_key from stream")[0][0]
            sb = w.query("select position, blob_hash, iv from stream_blob order by position")
            lengths = dict(w.query('select blob_hash, blob_length from blob'))
            infos = [(pos, lengths.get(h, 0), iv, h) for pos, h, iv in sb]
            content = {}
            for pos, h, iv in sb:
                if h:
                    content[h] = open(os.path.join(w.bd, h), 'rb').read()
            content[sd_hash] = open(os.path.join(w.bd, sd_hash), 'rb').read()
            _STREAM_INFO = {'sd_hash': sd_hash, 'stream_hash': stream_hash, 'key': key, 'blob_infos': infos,
                            'content_hashes': [h for _, h, _ in sb if h], 'content': content,
                            'all': [sd_hash] + [h for _, h, _ in sb if h]}
            w.destroy()
        finally:
            shutil.rmtree(d, ignore_errors=True)
    return _STREAM_INFO


configure(0)


def content_of(h):
    if h in PLAIN_HASH:
        return PLAIN[PLAIN_HASH.index(h)]
    return stream_info()['content'][h]


# ------------------------------------------------------------------------------------------------
# oracle: what the statement says about every setup()

def blob_class(h):
    if h in PLAIN_HASH:
        return 'plain'
    info = stream_info()
    if h == info['sd_hash']:
        return 'sd'
    if h in info['content_hashes']:
        return 'content'
    return 'other'


def judge_setup(obs, prev, context):
    """obs: observation of one setup() (World.last_setup).  prev: the observation of the previous setup if
    nothing at all happened in between (then this one is "a further restart with nothing changed"), else
    None.  Returns a list of (signature, what)."""
    out = []
    if obs['error']:
        out.append(({'kind': 'setup-raised', 'error': obs['error'].split(':')[0], **context},
                    f"BlobManager.setup() raised {obs['error']}"))
        return out
    files = {n for n, s in obs['files'] if is_blob_name(n) and s >= 0}
    others = {n for n, s in obs['files'] if not is_blob_name(n)}
    status = {r[0]: r[1] for r in obs['rows']}
    before = {r[0]: r[1] for r in obs['rows_before']}
    completed = set(obs['completed'])
    if [n for n, _ in obs['files']] != [n for n, _ in obs['files_before']]:
        # not forbidden by the statement (the claims below are judged on the directory as setup() left it)
        out.append(({'kind': 'interp:setup_itself_changed_the_blob_directory'}, ''))
    for h in sorted(completed - files):
        out.append(({'kind': 'completed-without-file', 'blob': blob_class(h), 'row_before': before.get(h), **context},
                    f'after setup() {short(h)} is reported completed but has no file in the blob directory'))
    for h in sorted(files):
        if status.get(h) != 'finished':
            out.append(({'kind': 'file-without-finished-row', 'blob': blob_class(h), 'row_before': before.get(h),
                         'row_after': status.get(h), **context},
                        f'after setup() the file {short(h)} is present but its row is {status.get(h)!r}'))
    for h in sorted(status):
        if status[h] == 'finished' and h not in files:
            out.append(({'kind': 'finished-row-without-file', 'blob': blob_class(h), 'row_before': before.get(h),
                         **context},
                        f'after setup() {short(h)} is recorded finished but its file is not there'))
    for h in sorted(before):
        if before[h] == 'finished' and h not in files and status.get(h) != 'pending':
            if status.get(h) is None:
                out.append(({'kind': 'finished-row-dropped-not-downgraded', 'blob': blob_class(h), **context},
                            f'{short(h)} was finished without a file; setup() removed the row instead of '
                            f'downgrading it to pending'))
    for n in sorted(others):
        if n in completed or n in status:
            out.append(({'kind': 'wrong-name-not-ignored', 'name_len': len(n), **context},
                        f'wrongly named file {n[:12]!r}.. (len {len(n)}) is tracked: completed={n in completed} '
                        f'row={status.get(n)}'))
    if prev is not None and not prev['error']:
        if completed != files:
            out.append(({'kind': 'second-restart-completed-differs-from-files',
                         'missing': sorted({blob_class(h) for h in files - completed}),
                         'extra': sorted({blob_class(h) for h in completed - files}), **context},
                        f'a further restart with nothing changed reports {sorted(map(short, completed))}, files '
                        f'present are {sorted(map(short, files))}'))
        pst = {r[0]: r[1] for r in prev['rows']}
        if pst != status:
            diff = sorted(h for h in set(pst) | set(status) if pst.get(h) != status.get(h))
            out.append(({'kind': 'second-restart-changed-rows',
                         'changes': sorted({(blob_class(h), pst.get(h), status.get(h)) for h in diff}), **context},
                        f'a further restart with nothing changed altered rows: '
                        f'{[(short(h), pst.get(h), status.get(h)) for h in diff]}'))
    return out


def step_context(history):
    """The part of a history that goes into a signature: kind of the last real step and how it ended."""
    for st in reversed(history):
        if st[0][0] not in ('restart',):
            how = 'crash' if st[2] else 'ran'
            return {'after': st[0][0], 'how': how}
    return {'after': 'restart-only', 'how': 'ran'}


def setup_context(obs, ctx):
    """Restart style and configuration go into the signature only when they are not the default ones."""
    out = dict(ctx)
    if obs.get('style') == 'same-object':
        out['restart'] = 'same-object'
    if obs.get('save_blobs') is False:
        out['save_blobs'] = False
    return out


# ------------------------------------------------------------------------------------------------
# executing one history

def fresh_world():
    import tempfile
    return World(tempfile.mkdtemp(prefix='w.', dir=_scratch()))


_SCRATCH = None


def _scratch():
    global _SCRATCH
    if _SCRATCH is None or _SCRATCH[0] != os.getpid():
        from vf.bootstrap import scratch_dir
        import atexit
        d = scratch_dir('c18')
        _SCRATCH = (os.getpid(), d)
        atexit.register(_rm_scratch, os.getpid(), d)
    return _SCRATCH[1]


def _rm_scratch(pid, d):
    if os.getpid() == pid:
        shutil.rmtree(d, ignore_errors=True)


def drop_scratch():
    global _SCRATCH
    if _SCRATCH is not None and _SCRATCH[0] == os.getpid():
        shutil.rmtree(_SCRATCH[1], ignore_errors=True)
        _SCRATCH = None


class Execution:
    """Result of playing a history (list of steps) and, optionally, the invariant extension."""
    __slots__ = ('canon', 'last_trace', 'last_crashed', 'last_outcome', 'findings', 'log', 'setups', 'jobs',
                 'facts', 'extended', 'last_labels')


def play(history, extend=True, judge_from=None):
    """Replays `history` on a fresh world; judges every setup() performed by steps with index >= judge_from
    (default: the last step only - earlier ones were judged when the prefix was explored) and, with `extend`,
    the setups of the extension `restart, restart`.  extend may be a callable(canon) -> bool: the extension is
    skipped for a live state that has been judged before (what a restart does is a function of the directory
    and the tables, which are part of the canonical state)."""
    w = fresh_world()
    ex = Execution()
    ex.findings = []
    ex.facts = []
    ex.last_trace, ex.last_crashed, ex.last_outcome = [], False, None
    ex.last_labels = []
    if judge_from is None:
        judge_from = max(0, len(history) - 1)
    try:
        prev_was_setup = True        # a fresh world has just been set up on an empty directory
        prev_obs = w.last_setup
        actual = []                  # the history with the crash flags as they really came out
        for i, st in enumerate(history):
            before_files = {n for n, _ in w.files()}
            n_setups = w.setups
            completed_before = set(w.bm.completed_blob_hashes)
            tr, crashed, outcome = w.step(st)
            ex.last_trace, ex.last_crashed, ex.last_outcome = tr, crashed, outcome
            ex.last_labels = list(getattr(w, 'last_labels', []))
            actual.append((st[0], st[1], crashed))
            did_setup = w.setups > n_setups
            if did_setup:
                # a configuration flip is a change: the 'nothing changed' claim is only judged for same-configuration restarts
                nothing_between = prev_was_setup and st[0][0] in ('restart', 'kill', 'restart-same')
                if i >= judge_from:
                    ctx = step_context(actual)
                    ex.findings += judge_setup(w.last_setup, prev_obs if nothing_between else None,
                                                setup_context(w.last_setup, ctx))
                    ex.facts += setup_facts(w.last_setup, before_files, st, crashed)
                prev_obs = w.last_setup
                prev_was_setup = True
            else:
                prev_was_setup = False
                if i >= judge_from and st[0][0] in ('delete', 'delstream'):
                    live_files = {n for n, _ in w.files()}
                    if (set(w.bm.completed_blob_hashes) & completed_before) - live_files:
                        ex.facts.append('interp:live_completed_hash_without_file_after_api_delete')
        ex.canon = w.canon()
        ex.extended = bool(extend(ex.canon) if callable(extend) else extend)
        if ex.extended:
            ctx = step_context(actual)
            w.step((('restart',), (), False))
            ex.findings += judge_setup(w.last_setup, prev_obs if prev_was_setup else None,
                                        setup_context(w.last_setup, ctx))
            ex.facts += setup_facts(w.last_setup, None, None, False)
            first = w.last_setup
            w.step((('restart',), (), False))
            ex.findings += judge_setup(w.last_setup, first, setup_context(w.last_setup, ctx))
        ex.facts += [sig['kind'] for sig, _ in ex.findings if sig['kind'].startswith('interp:')]
        ex.findings = [(sig, what) for sig, what in ex.findings if not sig['kind'].startswith('interp:')]
        ex.log = list(w.log)
        ex.setups = w.setups
        ex.jobs = w.jobs_run
        return ex
    finally:
        w.destroy()


def setup_facts(obs, before_files, st, crashed):
    """Non-vacuity facts visible in one setup()."""
    facts = []
    before = {r[0]: r[1] for r in obs['rows_before']}
    after = {r[0]: r[1] for r in obs['rows']}
    files = {n for n, s in obs['files_before'] if is_blob_name(n)}
    if crashed and st is not None and before_files is not None:
        new = files - before_files
        if any(before.get(h) != 'finished' for h in new):
            facts.append('crash_between_file_write_and_db_write')
            if st[0][0] == 'publish':
                facts.append('crash_inside_publish_between_file_write_and_db_write')
        gone = {h for h in before_files - files if is_blob_name(h)}
        if any(h in before for h in gone) and st[0][0] in ('delete', 'delstream'):
            facts.append('crash_between_file_removal_and_db_delete')
        if st[0][0] == 'publish' and not obs['rows_before'] == [] and \
                all(before.get(h) == 'finished' for h in stream_info()['all']) and not _has_stream(obs):
            facts.append('crash_after_all_blobs_recorded_before_store_stream')
    if any(before[h] == 'finished' and after.get(h) == 'pending' for h in before):
        facts.append('finished_row_downgraded_to_pending')
    if any(before.get(h) == 'pending' and after.get(h) == 'finished' for h in after):
        facts.append('pending_row_upgraded_to_finished_by_setup')
    if any(h not in before and after.get(h) == 'finished' for h in after):
        facts.append('unrecorded_file_recorded_by_setup')
    if any(not is_blob_name(n) for n, _ in obs['files']):
        facts.append('setup_with_wrongly_named_files_present')
    if any(s == 0 for n, s in obs['files'] if is_blob_name(n)):
        facts.append('setup_with_zero_length_blob_file')
    if any(s > REAL_MAX_BLOB_SIZE for n, s in obs['files'] if is_blob_name(n)):
        facts.append('setup_with_a_blob_file_larger_than_MAX_BLOB_SIZE')
    if obs.get('links'):
        facts.append('setup_with_a_symlinked_blob_file')
        if any(before.get(h) != 'finished' for h in obs['links']):
            facts.append('setup_with_an_unrecorded_symlinked_blob_file')
        if any(before.get(h) == 'finished' for h in obs['links']):
            facts.append('setup_with_a_recorded_blob_file_replaced_by_a_symlink')
    unrecorded = any(before.get(h) != 'finished' for h in files)
    if obs.get('save_blobs') is False:
        facts.append('setup_under_save_blobs_false')
        if unrecorded:
            facts.append('setup_under_save_blobs_false_with_unrecorded_file_present')
    if obs.get('style') == 'same-object':
        facts.append('restart_on_the_same_manager_object')
        if obs.get('stale_unverified'):
            facts.append('same_object_restart_with_unfinished_download_in_flight')
            if unrecorded:
                facts.append('same_object_restart_with_unfinished_download_and_unrecorded_file')
    return facts


def _has_stream(obs):
    return obs.get('has_stream', False)


# ------------------------------------------------------------------------------------------------
# exploration

def hash_indexes(cfg):
    return list(range(cfg['nplain'])) + [NPLAIN, NPLAIN + 1, NPLAIN + 2]


def base_ops(cfg):
    hs = cfg.get('hashes') or hash_indexes(cfg)
    ops = [('complete', i) for i in (hs if cfg.get('complete_stream_blobs') else
                                    [h for h in hs if h < NPLAIN])]
    ops += [('begin', i) for i in cfg.get('begin', ())]
    ops += [('publish',)]
    ops += [('delete', h, f) for h in hs for f in (1, 0)]
    if cfg.get('delstream', True):
        ops += [('delstream',)]
    ops += [('unlink', h) for h in hs]
    ops += [('drop', h, 'full') for h in hs]
    ops += [('drop', h, 'empty') for h in hs if h in cfg['drop_empty']]
    ops += [('drop', h, 'big') for h in cfg.get('drop_big', ())]
    ops += [('drop', h, 'symlink') for h in cfg.get('symlinks', ())]
    ops += [('symlink', h) for h in cfg.get('symlinks', ())]
    if cfg.get('wrong', True):
        ops += [('wrong',)]
    ops += [('restart',)]
    if cfg.get('kill', True):
        ops += [('kill',)]
    if cfg.get('same_object', True):
        ops += [('restart-same',)]
    if cfg.get('modes'):
        ops += [('restart-flip',)]
    return ops


def op_enabled(op, names):
    hs = PLAIN_HASH + stream_info()['all']
    if op[0] in ('unlink', 'symlink'):
        return hs[op[1]] in names
    if op[0] == 'drop':
        return hs[op[1]] not in names
    if op[0] == 'wrong':
        return WRONG_NAMES[0] not in names
    return True


JUDGED = set()       # digests of live states whose restart extension was judged and held (filled by the parent
#                      between levels, inherited by the forked workers)
_LOCAL = set()       # the same, found while expanding the current work item (reset per item, so that what is
#                      executed for an item does not depend on which worker got it)


def _need_extension(canon):
    d = digest16(canon)
    return d not in JUDGED and d not in _LOCAL


def successors(history, names, cfg):
    """Every step enabled after `history`: every operation x every order of its executor jobs x a process
    death at every job boundary.  Yields (step, Execution).

    Complete runs: every order (DFS over the alternatives at every boundary with more than one runnable job).
    Process deaths: at every boundary of every complete run; with cfg['por'] two deaths are the same crash point
    when the same jobs ran before them (same labels in the same per-executor order) - a file job and a DB
    transaction touch disjoint persistent resources, and nothing but the directory survives a death."""
    history = list(history)
    for op in base_ops(cfg):
        if not op_enabled(op, names):
            continue
        if op[0] in ('restart', 'kill', 'restart-same', 'restart-flip'):
            yield (op, (), op[0] == 'kill'), play(history + [(op, (), False)], extend=_need_extension)
            continue
        points = set()
        stack = [()]
        while stack:
            p = stack.pop()
            ex = play(history + [(op, p, False)], extend=_need_extension)
            trace, labels = ex.last_trace, ex.last_labels
            chosen = tuple(p) + (0,) * (len(trace) - len(p))
            yield (op, tuple(p), False), ex
            alts = []
            for i in range(len(trace)):
                if cfg.get('por'):
                    ran = labels[:i]
                    point = (tuple(x for x in ran if x[0] == 'f'), tuple(x for x in ran if x[0] != 'f'))
                else:
                    point = chosen[:i]
                if point not in points:
                    points.add(point)
                    yield (op, chosen[:i], True), play(history + [(op, chosen[:i], True)], extend=_need_extension)
                if i >= len(p):
                    alts.extend(chosen[:i] + (alt,) for alt in range(1, trace[i]))
            stack.extend(reversed(alts))


def digest16(canon):
    return hashlib.blake2b(repr(canon).encode(), digest_size=16).digest()


def expand(item, res):
    import pickle
    out_path, history, names, cfg = item
    history = [(tuple(o), tuple(c), bool(k)) for o, c, k in history]
    out = []
    first = last = None
    _LOCAL.clear()
    for step, ex in successors(history, names, cfg):
        res.count('executions')
        res.count('transitions')
        res.count('evaluations')
        res.count('setups_judged', ex.setups - 1)
        res.count('jobs_run', ex.jobs)
        if not ex.extended:
            res.count('extension_skipped_live_state_already_judged')
        res.setmax('max_job_boundaries_in_one_op', len(ex.last_trace))
        if step[2] and step[0][0] != 'kill':
            res.count('crash_points')
        if any(n > 1 for n in ex.last_trace):
            res.witness('boundary_with_two_runnable_jobs')
        if step[1] and any(c > 0 for c in step[1]):
            res.count('non_default_job_orders')
        for f in ex.facts:
            if f.startswith('interp:'):
                res.tally('interpretation_only:' + f[7:])
            else:
                res.witness(f)
        if ex.last_outcome and ex.last_outcome.startswith('refused'):
            res.tally('op_refused_' + ex.last_outcome)
        elif ex.last_outcome and ex.last_outcome not in ('written', 'publish', 'delete', 'delstream', 'unlinked',
                                                        'dropped', 'wrong-names-added', 'restart', 'kill',
                                                        'skipped-have-it', 'begun', 'restart-same',
                                                        'restart-flip', 'already-a-link', 'replaced-by-link'):
            res.tally(f'op_{step[0][0]}_raised_{ex.last_outcome}')
        full = history + [step]
        if first is None:
            first = (full, ex)
        last = (full, ex)
        if ex.findings:
            for sig, what in ex.findings:
                res.violation(sig, f'{what}  [history: {fmt_history(full)} + restart, restart]',
                              {'history': full, 'seed': SEED})
            determinism_check(full, ex, res)
            continue
        _LOCAL.add(digest16(ex.canon))        # held here (or was judged before): need not be judged again
        res.distinct_add('states', ex.canon)
        if len(ex.log) and step[0][0] not in ('restart',):
            res.distinct_add('nontrivial', ex.canon)
        files = [n for n, _ in ex.canon[0]]
        out.append((step, digest16(ex.canon), files))
    if first is not None:
        determinism_check(first[0], first[1], res)
    if last is not None and last is not first and (len(history) == 0 or cfg.get('name') == 'config'):
        determinism_check(last[0], last[1], res)
    with open(out_path, 'wb') as f:
        pickle.dump(out, f)
    drop_scratch()


def determinism_check(full, ex, res):
    again = play(full, extend=ex.extended)
    res.count('determinism_replays')
    if again.canon != ex.canon or again.log != ex.log or again.findings != ex.findings:
        res.error(f'non-deterministic replay of {fmt_history(full)}')


def fmt_history(h):
    parts = []
    for op, ch, crash in h:
        s = op[0] + ''.join(f' {a}' for a in op[1:])
        if ch:
            s += ' jobs=' + ''.join(map(str, ch))
        if crash and op[0] != 'kill':
            s += ' CRASH@%d' % len(ch)
        parts.append(s)
    return '; '.join(parts) if parts else '(empty)'


def side_sweep(item, res):
    """Single wrongly named files, one at a time, on an otherwise empty and on a populated directory."""
    for populated in (False, True):
        for name in WRONG_NAMES + EXOTIC_NAMES:
            w = fresh_world()
            try:
                if populated:
                    w.step((('complete', 0), (), False))
                with open(os.path.join(w.bd, name), 'wb') as f:
                    f.write(b'junk')
                w.step((('restart',), (), False))
                first = w.last_setup
                w.step((('restart',), (), False))
                res.count('executions')
                res.count('evaluations')
                tracked = name in first['completed'] or name in {r[0] for r in first['rows']} or \
                    name in w.last_setup['completed']
                if name in EXOTIC_NAMES:
                    if tracked:
                        res.tally('interpretation_only:name_accepted_by_HEXMATCH_but_not_96_hex_digits_is_tracked')
                    continue
                for sig, what in judge_setup(first, None, {'after': 'single-wrong-name', 'how': 'ran'}) + \
                        judge_setup(w.last_setup, first, {'after': 'single-wrong-name', 'how': 'ran'}):
                    if sig['kind'].startswith('interp:'):
                        res.tally('interpretation_only:' + sig['kind'][7:])
                        continue
                    res.violation(sig, what + f' [single wrongly named file {name[:10]!r} len {len(name)}]',
                                  {'wrong_name': name, 'populated': populated, 'seed': SEED})
            finally:
                w.destroy()
    drop_scratch()


MANY_UNRECORDED = [499, 500, 501, 502, 1003]      # around one and two full batches of ensure_completed_blobs_status


def many_unrecorded_sweep(n, res):
    """Many unrecorded files at one startup: n valid finished blob files (tiny, named by the sha384 of their
    content) are put into the blob directory behind the manager's back, no database row; then restart and a
    second restart, judged by judge_setup.  Also with one recorded blob present beforehand."""
    def clip(text):
        return text if len(text) <= 400 else text[:400] + '...'
    for populated in (False, True):
        w = fresh_world()
        try:
            if populated:
                w.step((('complete', 0), (), False))
            for i in range(n):
                data = b'bulk blob %d/%d/%d' % (i, n, SEED)
                with open(os.path.join(w.bd, hashlib.sha384(data).hexdigest()), 'wb') as f:
                    f.write(data)
            w.step((('restart',), (), False))
            first = w.last_setup
            w.step((('restart',), (), False))
            res.count('executions')
            res.count('evaluations', 2)
            ctx = {'after': 'many-unrecorded-files', 'how': 'ran'}
            n_before = len([1 for h, s in first['rows_before'] if s == 'finished'])
            n_after = len([1 for h, s in first['rows'] if s == 'finished'])
            if n_after - n_before >= n and n > 500:
                res.tally('setup_recorded_more_than_500_unrecorded_files_at_once')
            seen_kinds = set()
            for sig, what in judge_setup(first, None, ctx) + judge_setup(w.last_setup, first, ctx):
                if sig['kind'].startswith('interp:'):
                    res.tally('interpretation_only:' + sig['kind'][7:])
                    continue
                if sig['kind'] in seen_kinds:
                    continue                       # one report per kind and execution
                seen_kinds.add(sig['kind'])
                res.violation(sig, clip(what) + f' [{n} unrecorded blob files at one startup, populated={populated}]',
                              {'many_unrecorded': n, 'populated': populated, 'seed': SEED})
        finally:
            w.destroy()
    drop_scratch()


def explore(ctx, cfg, seen, t0, budget):
    """Level-synchronous BFS for one alphabet configuration.  Returns (completed_depth, level_stats, exhausted)."""
    import pickle
    import time
    from vf.bootstrap import scratch_dir
    frontier = [([], [])]
    level_dir = scratch_dir('c18lvl')
    completed_depth = 0
    level_stats = []
    try:
        for depth in range(1, cfg['depth'] + 1):
            items = [(os.path.join(level_dir, f'{depth}.{i}.pkl'), h, names, cfg)
                     for i, (h, names) in enumerate(frontier)]
            # safety net only: a level is not started if the measured cost of the previous one says it cannot
            # fit the wall-clock budget (reported as a cap; the bounds are chosen so that this does not happen
            # on an idle 16-core machine)
            if level_stats and level_stats[-1][0] >= 500 and budget:
                per_state = level_stats[-1][2] / max(1, level_stats[-1][0])
                if (time.time() - t0) + per_state * len(items) * 1.1 > budget:
                    ctx.res.count('capped')
                    ctx.res.tally(f"{cfg['name']}_level_{depth}_not_started_wall_budget")
                    break
            t1 = time.time()
            ctx.pmap(expand, items)
            nxt = []
            for it in items:
                if not os.path.exists(it[0]):
                    continue                   # the worker failed; its error is in ctx.res.errors
                with open(it[0], 'rb') as f:
                    succ = pickle.load(f)
                os.remove(it[0])
                for step, dg, files in succ:
                    JUDGED.add(dg)
                    if dg not in seen:
                        seen.add(dg)
                        nxt.append((it[1] + [step], files))
            level_stats.append((len(items), len(nxt), time.time() - t1))
            completed_depth = depth
            if depth == 1 or depth == cfg['depth']:
                # written-out traces: the three shortest and the three longest histories that reached a new state
                for h, _ in (nxt[:3] if depth == 1 else nxt[-3:]):
                    ctx.res.sample({'configuration': cfg['name'], 'history': fmt_history(h) + ' + restart, restart',
                                    'verdict': 'all claims hold after every setup()'}, force=True)
            frontier = nxt
            if not frontier:
                break
    finally:
        shutil.rmtree(level_dir, ignore_errors=True)
    return completed_depth, level_stats, not frontier


def phases(tier):
    """One BFS per alphabet configuration.
    main   : default configuration, one plain blob + the stream, new-process and same-object restarts
    pairs / triples : two / three plain blobs, downloads of the stream's blobs, wrongly named files
    config : save_blobs in {True, False} (restart-flip starts the next process with the other setting), downloads
             left unfinished (`begin`) before a stop, same-object restarts; reduced identities (one plain blob, the
             descriptor and one content blob)"""
    red = [0, NPLAIN, NPLAIN + 1]
    if tier == 'quick':
        return [
            {'name': 'main', 'nplain': 1, 'depth': 4, 'drop_empty': [], 'por': True, 'complete_stream_blobs': False,
             'wrong': False, 'same_object': False, 'kill': False},
            {'name': 'pairs', 'nplain': 2, 'depth': 2, 'drop_empty': [0], 'por': True, 'complete_stream_blobs': True,
             'wrong': True, 'same_object': False, 'kill': False},
            {'name': 'config', 'nplain': 1, 'depth': 3, 'drop_empty': [0], 'por': True, 'complete_stream_blobs': True,
             'wrong': False, 'same_object': True, 'modes': True, 'begin': [0, NPLAIN + 1], 'hashes': red,
             'delstream': False, 'drop_big': [0], 'symlinks': [0, NPLAIN + 1]},
        ]
    return [
        {'name': 'triples', 'nplain': 3, 'depth': 3, 'drop_empty': [0, NPLAIN + 1], 'por': True,
         'complete_stream_blobs': True, 'wrong': True, 'same_object': False},
        {'name': 'pairs', 'nplain': 2, 'depth': 4, 'drop_empty': [0, NPLAIN + 1], 'por': True,
         'complete_stream_blobs': True, 'wrong': True, 'same_object': False},
        {'name': 'config', 'nplain': 1, 'depth': 4, 'drop_empty': [], 'por': True, 'complete_stream_blobs': True,
         'wrong': False, 'same_object': True, 'modes': True, 'begin': [0, NPLAIN + 1], 'hashes': red,
         'delstream': False, 'drop_big': [0, NPLAIN + 1], 'symlinks': [0, NPLAIN + 1]},
        {'name': 'main', 'nplain': 1, 'depth': 6, 'drop_empty': [0], 'por': True, 'complete_stream_blobs': False,
         'wrong': False, 'same_object': True},
    ]


def run(ctx):
    import time
    configure(ctx.seed)
    plan = phases(ctx.tier)
    if os.environ.get('C18_PHASES'):          # development aid: "name:depth,name:depth"
        byname = {c['name']: c for c in plan}
        plan = [dict(byname[a], depth=int(b)) for a, b in
                (x.split(':') for x in os.environ['C18_PHASES'].split(','))]
    stream_info()
    t0 = time.time()
    budget = float(os.environ.get('C18_BUDGET', 0 if ctx.quick else 840))      # 0 = no wall-clock guard
    ex0 = play([], extend=True)
    for sig, what in ex0.findings:
        ctx.res.violation(sig, what + ' [empty history]', {'history': [], 'seed': SEED})
    ctx.res.distinct_add('states', ex0.canon)
    done = []
    all_complete = True
    for cfg in plan:
        seen = {digest16(ex0.canon)}
        depth, stats, exhausted = explore(ctx, cfg, seen, t0, budget)
        done.append({'configuration': cfg['name'], 'plain_blobs': cfg['nplain'], 'depth_bound': cfg['depth'], 'depth_completed': depth,
                     'state_space_exhausted_before_bound': exhausted,
                     'levels': [{'depth': i + 1, 'expanded': a, 'new_states': b, 'wall_s': round(c, 1)}
                                for i, (a, b, c) in enumerate(stats)]})
        ctx.res.setmax(f"depth_completed_{cfg['name']}", depth)
        if depth < cfg['depth'] and not exhausted:
            all_complete = False
    ctx.pmap(side_sweep, [0])
    ctx.pmap(many_unrecorded_sweep, list(MANY_UNRECORDED))
    drop_scratch()
    ctx.meta.update(
        rule=('explicit-state BFS over histories of steps; a step = one operation from {complete blob h via the '
              'writer path, publish the 2-content-blob stream (create_stream with blob_completed callback, '
              'store_stream, save_published_file), delete_blobs([h], delete_from_db in {T,F}) for every blob '
              'identity, the StreamManager.delete call sequence, unlink file h behind the back, drop a correctly '
              'named file h (full / zero length / larger than MAX_BLOB_SIZE / a symlink to a regular file elsewhere) behind the back, replace an existing blob file by a symlink to it, add wrongly named files, clean restart, kill at '
              'quiescence, stop()+setup() on the same manager object, restart with the other save_blobs setting '
              '(config configuration only), a download left unfinished (config configuration only)} x every order '
              'of its executor jobs x a process death at every job boundary (followed by a start). Every transition is executed on fresh real objects; the statement is judged on every '
              'setup() of the last step and on the extension restart, restart (skipped when the same live state '
              'was judged before). States are merged on the live canonical state (directory with sizes, blob/'
              'stream/file rows, completed set, flags of the manager\'s blob objects). distinct_nontrivial = '
              'distinct canonical states reached by a step other than a plain restart. One BFS per alphabet '
              'configuration listed in bounds. Outside the BFS: single wrongly named files, and N unrecorded valid blob '
              'files (N in bounds.many_unrecorded_files_at_one_startup) present at one startup, each followed by '
              'restart, restart and judged by the same oracle.'),
        exhaustive=all_complete,
        bounds={'configurations': [{k: c.get(k) for k in ('name', 'nplain', 'depth', 'drop_empty', 'complete_stream_blobs',
                                                          'wrong', 'same_object', 'modes', 'begin', 'hashes')}
                                   for c in plan],
                'many_unrecorded_files_at_one_startup': list(MANY_UNRECORDED),
                'stream_blobs': 3, 'scaled_MAX_BLOB_SIZE_in_descriptor': SCALED_MAX_BLOB_SIZE,
                'crash_points': 'every executor-job boundary of every job order (partial-order reduced)'},
        bound_completed=done,
        assumptions=[
            'executor job bodies (one file read/write, one sqlite transaction) are atomic; a process death happens '
            'at a job boundary; jobs start only when the ready queue has drained',
            "sqlite's own crash consistency is trusted: a committed transaction survives, dropping the connection "
            'at a job boundary equals a killed process',
            'partial-order reduction of crash points: two deaths after the same jobs (same per-executor order) '
            'are one crash point - file jobs and DB transactions touch disjoint persistent resources and only '
            'the directory survives a death; all complete job orders are still executed',
            'a torn blob file write is represented by the zero-length / full drop-behind-the-back operations '
            '(the statement speaks about file presence, not content)',
            'operations of one history do not overlap (each runs to quiescence or to the crash)',
            'MAX_BLOB_SIZE is scaled to 32 inside lbry.stream.descriptor only (the publisher reads it through '
            'min() only); ReaderExecutorClass is the thread pool class lbry uses on Windows/Android',
            'names that HEXMATCH accepts but that are not 96 hex digits (comma, trailing newline) are outside the '
            'statement: observed in a side sweep and tallied only',
        ],
        expected_witnesses=['crash_between_file_write_and_db_write', 'crash_between_file_removal_and_db_delete',
                            'finished_row_downgraded_to_pending', 'unrecorded_file_recorded_by_setup',
                            'pending_row_upgraded_to_finished_by_setup',
                            'boundary_with_two_runnable_jobs', 'setup_with_wrongly_named_files_present',
                            'crash_inside_publish_between_file_write_and_db_write',
                            'restart_on_the_same_manager_object',
                            'same_object_restart_with_unfinished_download_and_unrecorded_file',
                            'setup_under_save_blobs_false_with_unrecorded_file_present',
                            'setup_with_a_blob_file_larger_than_MAX_BLOB_SIZE',
                            'setup_with_an_unrecorded_symlinked_blob_file',
                            'setup_with_a_recorded_blob_file_replaced_by_a_symlink',
                            'setup_recorded_more_than_500_unrecorded_files_at_once'],
    )


def replay(data):
    lines = []
    if 'wrong_name' in data:
        configure(data.get('seed', 0))
        from vf.core import Result
        res = Result()
        side_sweep(0, res)
        for v in res.violations.values():
            lines.append(v['what'])
        return bool(res.violations), '\n'.join(lines)
    if 'many_unrecorded' in data:
        configure(data.get('seed', 0))
        from vf.core import Result
        res = Result()
        many_unrecorded_sweep(int(data['many_unrecorded']), res)
        for v in res.violations.values():
            lines.append(v['what'])
        return bool(res.violations), '\n'.join(lines)
    configure(data.get('seed', 0))
    history = [(tuple(o), tuple(c), bool(k)) for o, c, k in data['history']]
    ex = play(history, extend=True, judge_from=0)
    lines.append('history: ' + fmt_history(history) + ' + restart, restart')
    for entry in ex.log:
        lines.append('  ' + repr(entry))
    for sig, what in ex.findings:
        lines.append('VIOLATED: ' + what)
    drop_scratch()
    return bool(ex.findings), '\n'.join(lines)
