"""C14 - no double spend: concurrent transaction builds never share an output.

N real `Transaction.create` tasks run concurrently on the virtual loop against one real Ledger/Database
(vf.wallet_h).  Every source of schedule freedom is a numbered choice point - the order in which the
build tasks are started, when each sqlite executor job takes effect (JOB_RUN) and when its completion
reaches the loop (JOB_DONE) relative to the other tasks' progress, when a late build request arrives, when
the server answers a broadcast, and when one build is cancelled (fault) - and vf.explore.dfs_deviation
enumerates all choice sequences (N <= 4) or all with at most d deviations from the default schedule
(N in {6, 12}).  The ready queue is never reordered.

Redundant interleavings are cut by state hashing inside the executions handed to dfs_deviation: beyond the
replayed prefix an execution stops at a choice point whose *full* state (task positions and locals, ready
queue, executor jobs with their payloads, lock queues, is_reserved column, harness variables) was already
reached by an earlier execution of the same case; that earlier execution branches on every alternative
there.  Selected cases are explored a second time without pruning and must give the same states, outcomes
and verdicts (pruning_cross_checks).

Oracle (every state): outputs handed to different builds and not yet given back are pairwise disjoint; each
of them has is_reserved = 1; when no build is selecting or releasing, is_reserved is set for exactly those
outputs.  After every build finished (built / refused / failed / cancelled) and every holder released:
nothing is reserved and get_utxos() returns the initial set.  What a build was handed and what it gives
back is observed at ledger.get_spendable_utxos / ledger.release_outputs (instance attributes that forward
the call unchanged).
"""
import hashlib
import itertools

PROPERTY = 'C14'
LEVEL = 'model_checking'
HASHSEEDS = {'quick': 2, 'thorough': 8}

COIN = 10 ** 8
FEE_IN = 148 * 50      # fee of one input at the default 50 dewies/byte
U1_AMOUNT = FEE_IN + 3000      # covers an empty transaction's fee (500) + the price of a change output (2300), but
#                                what is left (200 more) is below DUST: an output-less build needs a second round
ABANDON_AMOUNT = FEE_IN + 100
DUSTY = 20000          # a small coin (effective amount 12600 at 50 dewies/byte)
ALL_STRATEGIES = ['sqlite', 'prefer_confirmed', 'only_confirmed', 'standard', 'branch_and_bound',
                  'closest_match', 'random_draw']
MAX_STEPS = 20000
STOP_AFTER_VIOLATING = 25      # a case is not explored further once this many of its executions violated
MAX_EXECUTIONS_PER_CASE = 150000   # safety cap (reported as capped; never reached on the unchanged tree)


class StopCase(Exception):
    pass


# ------------------------------------------------------------------------------------------------
# one execution
# ------------------------------------------------------------------------------------------------

class Build:
    __slots__ = ('i', 'pay', 'outcome', 'shape', 'funding', 'pre', 'phase', 'claims', 'selecting', 'releasing', 'task', 'tx', 'inputs',
                 'error', 'cancel_phase', 'net', 'rounds')

    def __init__(self, i, pay, outcome, shape='pay', funding=('a',)):
        self.i, self.pay, self.outcome, self.shape = i, pay, outcome, shape
        self.funding = tuple(funding)     # names of the funding accounts, in the order they are passed
        self.pre = None          # pre-chosen input (an 'abandon' build spends a claim-like output of the wallet)
        self.rounds = 0          # funding rounds: calls of ledger.get_spendable_utxos
        self.phase = 'new'       # new -> building -> held | refused | failed | releasing -> released | cancelled
        self.claims = set()      # txoids get_spendable_utxos handed to this build and it has not given up
        self.selecting = 0       # inside ledger.get_spendable_utxos
        self.releasing = 0       # inside ledger.release_outputs
        self.task = None
        self.tx = None
        self.inputs = None
        self.error = None
        self.cancel_phase = None
        self.net = None

    @property
    def kind(self):
        return (self.pay, self.outcome, self.shape, self.funding)


class Violation(Exception):
    def __init__(self, sig, what):
        super().__init__(what)
        self.sig, self.what = sig, what


class Pruned(Exception):
    pass


def task_position(task):
    """Where a task is suspended: (function, bytecode offset) along its await chain."""
    co = task.get_coro()
    pos = []
    while co is not None:
        fr = getattr(co, 'cr_frame', None) or getattr(co, 'gi_frame', None)
        if fr is None:
            break
        pos.append((fr.f_code.co_name, fr.f_lasti))
        co = getattr(co, 'cr_await', None) or getattr(co, 'gi_yieldfrom', None)
    return tuple(pos)


def describe(v, depth=0):
    """Identity-free description of a value held in a coroutine frame, a job or a future result."""
    if v is None or isinstance(v, (bool, int, str)):
        return v
    if isinstance(v, float):
        return 'float'      # only perf_counter() readings of the lock/db metrics live in these frames
    if isinstance(v, (bytes, bytearray, memoryview)):
        b = bytes(v)
        return b if len(b) <= 40 else ('bytes', len(b), hashlib.blake2b(b, digest_size=8).hexdigest())
    name = type(v).__name__
    if depth > 4:
        return name
    if isinstance(v, (list, tuple)):
        return (name,) + tuple(describe(x, depth + 1) for x in v[:600])
    if isinstance(v, (set, frozenset)):
        return ('set',) + tuple(sorted(repr(describe(x, depth + 1)) for x in v))
    if isinstance(v, dict):
        return ('dict',) + tuple((repr(describe(k, depth + 1)), describe(x, depth + 1)) for k, x in list(v.items())[:600])
    if name == 'OutputEffectiveAmountEstimator':
        return ('est', describe(v.txo, depth + 1))
    if name == 'Output':
        return ('txo', v.id if v.tx_ref is not None else None, v.amount)
    if name == 'Input':
        return ('txi', v.txo_ref.id)
    if name == 'Transaction':
        return ('tx', tuple(i.txo_ref.id for i in v._inputs), tuple(o.amount for o in v._outputs))
    if name in ('function', 'method'):
        fn = getattr(v, '__func__', v)
        cells = tuple(describe(c.cell_contents, depth + 1) for c in (fn.__closure__ or ()) if _cell_ok(c))
        return ('fn', fn.__qualname__, cells, describe(fn.__defaults__, depth + 1))
    return name


def _cell_ok(c):
    try:
        c.cell_contents
        return True
    except ValueError:
        return False


def task_locals(task):
    """Local variables along the await chain of a task (data only; objects collapse to their type)."""
    co = task.get_coro()
    out = []
    while co is not None:
        fr = getattr(co, 'cr_frame', None) or getattr(co, 'gi_frame', None)
        if fr is None:
            break
        out.append(tuple((k, describe(v, 1)) for k, v in sorted(fr.f_locals.items())))
        co = getattr(co, 'cr_await', None) or getattr(co, 'gi_yieldfrom', None)
    return tuple(out)


def execute(case, chooser, visited=None, rolling=None):
    """Run the case once under the chooser's schedule.  -> observation dict.

    visited: set of full-state digests shared by the executions of one exploration.  Beyond the replayed
             prefix, an execution that reaches a choice point whose full state is already in the set stops
             there (every continuation of that state is explored from the execution that saw it first).
    rolling: list that receives the running observation digest after every event (replays)."""
    import asyncio
    from vf.wallet_h import WalletH, Coin, PAYEE_HASH
    from lbry.wallet import Transaction, Output, Input
    from lbry.error import InsufficientFundsError
    from lbry.wallet.rpc.jsonrpc import RPCError

    coins = [Coin(a, 'conf', 'coin', (), k) if isinstance(a, int) else
             Coin(a[0], a[1], 'coin', ('other',) if len(a) > 2 and a[2] == 'b' else (), k)
             for k, a in enumerate(case['coins'])]
    fundings = case.get('funding') or [['a']] * case['n']
    shapes = case.get('shapes') or ['pay'] * case['n']
    pre_coins = {}
    for i, shp in enumerate(shapes):
        if shp == 'abandon':
            # a claim-like output the build spends; after its own fee it brings 100 dewies, less than the base fee
            pre_coins[i] = Coin(ABANDON_AMOUNT, 'conf', 'claim', ('pre',), 2)
            coins.append(pre_coins[i])
    h = WalletH(coins, strategy=case['strategy'], atomic_jobs=False, perm=case.get('perm', 0),
                second_account=any('b' in f for f in fundings), layout=case.get('layout', 'one'))
    log = hashlib.blake2b(digest_size=12)
    violations = []
    events = 0
    witnesses = set()
    states = set()
    try:
        loop, ledger, acct = h.loop, h.ledger, h.account
        initial = h.rows()
        initial_ids = set(initial)
        assert not h.reserved()
        builds = [Build(i, p, o, shp, f) for i, (p, o, shp, f) in
                  enumerate(zip(case['pays'], case['outcomes'], shapes, fundings))]
        accounts = {'a': h.account, 'b': h.account2}
        all_accounts = [a for a in (h.account, h.account2) if a is not None]

        def wallet_utxo_ids():
            return {u.id for a in all_accounts for u in h.run(a.get_utxos())}
        for i, c in pre_coins.items():
            builds[i].pre = c.txo
        initial_utxo_ids = wallet_utxo_ids()
        by_task = {}
        cancel_victim = case.get('cancel')
        late = case.get('late')
        cancelled = [False]

        def flag(sig, what):
            violations.append((sig, what))

        def active_claims():
            return [(b.i, b.claims) for b in builds if b.claims and b.phase in ('building', 'held', 'broadcasting')]

        # observation seam: what each build was handed by the ledger (the call is forwarded unchanged)
        orig_gsu = ledger.get_spendable_utxos

        async def observed_gsu(amount, funding_accounts, *a, **kw):
            b = by_task.get(asyncio.current_task())
            if b is None:
                return await orig_gsu(amount, funding_accounts, *a, **kw)
            b.selecting += 1
            b.rounds += 1
            try:
                spendables = await orig_gsu(amount, funding_accounts, *a, **kw)
            finally:
                b.selecting -= 1
            ids = [s.txo.id for s in spendables]
            for other_i, other in active_claims():
                shared = other & set(ids)
                if shared and other_i != b.i:
                    flag({'kind': 'double-selection', 'holder_phase': builds[other_i].phase,
                          'strategy_is_sqlite': case['strategy'] == 'sqlite'},
                         f'build {b.i} was handed output {sorted(shared)[0]} while build {other_i} '
                         f'({builds[other_i].phase}) still holds it (strategy {case["strategy"]})')
            if len(set(ids)) != len(ids) or set(ids) & b.claims:
                flag({'kind': 'same-output-twice-in-one-build'}, f'build {b.i} was handed an output twice')
            b.claims |= set(ids)
            return spendables
        ledger.get_spendable_utxos = observed_gsu

        # ... and what each build gives back: a claim ends when its holder starts to release it
        orig_release = ledger.release_outputs

        async def observed_release(txos):
            txos = list(txos)
            ids = {t.id for t in txos}
            b = by_task.get(asyncio.current_task())
            # a release may run in a helper task (asyncio.shield): then it belongs to whoever holds these outputs
            owners = [b] if b is not None else [x for x in builds if x.claims & ids]
            for o in owners:
                o.claims -= ids
                o.releasing += 1
            try:
                return await orig_release(txos)
            finally:
                for o in owners:
                    o.releasing -= 1
        ledger.release_outputs = observed_release

        orig_broadcast = h.network.broadcast

        def observed_broadcast(raw_hex):
            fut = orig_broadcast(raw_hex)
            b = by_task.get(asyncio.current_task())
            if b is not None:
                b.net = h.network._n
            return fut
        h.network.broadcast = observed_broadcast

        async def build(b):
            b.phase = 'building'
            funding = [accounts[name] for name in b.funding]
            try:
                if b.shape == 'pay':
                    tx = await Transaction.create([], [Output.pay_pubkey_hash(b.pay, PAYEE_HASH)], funding, funding[0])
                elif b.shape == 'outputless':       # sweep-like build: needs >= 2 funding rounds on a small first coin
                    tx = await Transaction.create([], [], funding, funding[0])
                else:                               # 'abandon': spends a claim-like output, requests no output
                    tx = await Transaction.create([Input.spend(b.pre)], [], funding, funding[0])
            except InsufficientFundsError:
                b.phase, b.claims = 'refused', set()
                return
            except Exception as e:   # noqa - another failure of the build (C03 judges it); here: "failed"
                b.phase, b.claims, b.error = 'failed', set(), type(e).__name__
                return
            b.tx = tx
            b.inputs = [txi.txo_ref.id for txi in tx.inputs]
            if set(b.inputs) - ({b.pre.id} if b.pre is not None else set()) != b.claims:
                flag({'kind': 'inputs-differ-from-selection'},
                     f'build {b.i}: transaction inputs are not the outputs the ledger handed out')
            b.phase = 'held'
            if b.outcome == 'hold':
                return
            if b.outcome == 'release':
                b.phase, b.claims = 'releasing', set()
                await ledger.release_tx(tx)
                b.phase = 'released'
                return
            b.phase = 'broadcasting'
            try:
                await ledger.broadcast_or_release(tx)
            except RPCError:
                b.phase, b.claims = 'released', set()
                return
            b.phase = 'held'

        def start(b):
            b.task = loop.create_task(build(b))
            by_task[b.task] = b

        # ---- start order: a choice among the distinct kinds of builds that are still to be started
        to_start = [b for b in builds if b.i != late]
        order = []
        while to_start:
            kinds = []
            for b in to_start:
                if b.kind not in kinds:
                    kinds.append(b.kind)
            k = chooser.choose(len(kinds), None, ('START-ORDER', len(kinds))) if len(kinds) > 1 else 0
            b = next(x for x in to_start if x.kind == kinds[k])
            to_start.remove(b)
            order.append(b.i)
            start(b)
        log.update(repr(order).encode())

        def all_locks():
            """Every asyncio.Lock reachable from the ledger, its database and the address managers, found by type and not
            by attribute name (a renamed, split or missing lock must not break the harness): [(canonical name, lock)]."""
            out = []
            owners = [('ledger', ledger), ('db', getattr(ledger.db, 'db', None))]
            for oname, owner in owners:
                for attr, val in sorted(getattr(owner, '__dict__', {}).items()):
                    if isinstance(val, asyncio.Lock):
                        out.append((f'{oname}.{attr}', val))
                    elif isinstance(val, dict) and val and all(isinstance(v, asyncio.Lock) for v in val.values()):
                        for k in sorted(val, key=repr):
                            out.append((f'{oname}.{attr}[{k!r}]', val[k]))
            for n, a in enumerate(all_accounts):
                for chain in ('receiving', 'change'):
                    lock = getattr(getattr(a, chain, None), 'address_generator_lock', None)
                    if isinstance(lock, asyncio.Lock):
                        out.append((f'account{n}.{chain}', lock))
            return out

        def canon():
            return (tuple((b.phase, tuple(sorted(b.claims)), b.selecting, b.releasing) for b in builds),
                    tuple(sorted(h.reserved())),
                    tuple((name, lock.locked(), len(lock._waiters or ())) for name, lock in all_locks()
                          if lock.locked() or lock._waiters),
                    tuple(j.state for j in loop.jobs), sum(1 for hd in loop._ready if not hd._cancelled),
                    len(h.network.pending), cancelled[0], sync_state())

        sync_task = [None]

        def sync_state():
            t = sync_task[0]
            return None if case.get('sync') is None else 'pending' if t is None else 'done' if t.done() else 'running'

        async def sync():
            """What wallet sync does when it meets the funding transactions again: parse the raw transaction anew and
            write it with save_transaction_io_batch for every own address (same height / 0 -> n / n -> 0)."""
            mode = case['sync']
            seen = set()
            for c in h.coins:
                ftx = c.txo.tx_ref.tx
                address = c.txo.get_address(ledger)
                if (id(ftx), address) in seen:
                    continue
                seen.add((id(ftx), address))
                height, verified = ftx.height, ftx.is_verified
                if mode == 'confirm' and height <= 0:
                    height, verified = 7, True
                elif mode == 'reorg' and height > 0:
                    height, verified = 0, False
                again = Transaction(ftx.raw, height=height, is_verified=verified)
                await ledger.db.save_transaction_io_batch([again], address, ledger.address_to_hash160(address),
                                                          f'{ftx.id}:{height}:')

        def full_state():
            """Everything the future of the execution depends on, in a form that does not mention object
            identities: task positions and what each task waits for, ready queue in order, executor jobs
            and their owners, lock queues, the is_reserved column, the harness's own variables."""
            locks = all_locks()
            name = {}
            for b in builds:
                if b.task is not None:
                    name[b.task] = ('B', b.i)
            if sync_task[0] is not None:
                name[sync_task[0]] = ('SYNC',)
            tasks = [t for t in asyncio.all_tasks(loop)]
            waits = {}
            for t in tasks:
                if t in name and t._fut_waiter is not None:
                    waits[id(t._fut_waiter)] = name[t]
            helpers = [t for t in tasks if t not in name]
            progress = True
            while progress and helpers:
                progress = False
                for t in list(helpers):
                    owner = None
                    for cb, _ctx in (t._callbacks or ()):
                        me = getattr(cb, '__self__', None)
                        if me in name:
                            owner = name[me]
                        for cell in (getattr(cb, '__closure__', None) or ()):
                            if id(cell.cell_contents) in waits:
                                owner = waits[id(cell.cell_contents)]
                    if owner is not None:
                        name[t] = ('H',) + owner
                        helpers.remove(t)
                        progress = True
                        if t._fut_waiter is not None:
                            waits[id(t._fut_waiter)] = name[t]
            for t in helpers:
                name[t] = ('H?',) + task_position(t)
                if t._fut_waiter is not None:
                    waits[id(t._fut_waiter)] = name[t]

            def fut_desc(w):
                if w is None:
                    return None
                for idx, j in enumerate(loop.jobs):
                    if j.fut is w:
                        return ('job', idx, j.state)
                for lname, lock in locks:
                    ws = list(lock._waiters or ())
                    if w in ws:
                        return (lname, ws.index(w))
                for idx, (n, fut, raw) in enumerate(h.network.pending):
                    if fut is w:
                        return ('net', idx)
                if isinstance(w, asyncio.Task):
                    return ('task', name.get(w), w.done())
                if w.done():
                    if w.cancelled():
                        return ('done', 'cancelled')
                    if w.exception() is not None:
                        return ('done', type(w.exception()).__name__)
                    return ('done', describe(w.result()))
                return ('future',)

            tdesc = sorted(((name[t], task_position(t), fut_desc(t._fut_waiter), bool(t._must_cancel), task_locals(t))
                            for t in tasks), key=repr)
            ready = []
            for hd in loop._ready:
                if hd._cancelled:
                    continue
                cb = hd._callback
                me = getattr(cb, '__self__', None)
                who = name.get(me) if isinstance(me, asyncio.Task) else None
                ready.append((who, getattr(cb, '__qualname__', type(cb).__name__),
                              tuple(fut_desc(a) if isinstance(a, asyncio.Future) else type(a).__name__ for a in hd._args)))
            jobs = tuple((j.state, waits.get(id(j.fut)), j.fut.cancelled(), describe(j.func), describe(j.args),
                          describe(j.result), type(j.exc).__name__) for j in loop.jobs)
            lockq = tuple((lname, lock.locked(), tuple((waits.get(id(w)), w.done()) for w in (lock._waiters or ())))
                          for lname, lock in locks)
            hv = tuple((b.phase, tuple(sorted(b.claims)), b.selecting, b.releasing, b.net, b.cancel_phase, b.task is not None)
                       for b in builds)
            net = tuple((n, fut.done()) for n, fut, raw in h.network.pending)
            return (tuple(tdesc), tuple(ready), jobs, lockq, hv, net, tuple(sorted(h.reserved())), cancelled[0],
                    h.address_count(), sync_state(),
                    repr(h.conn.execute("SELECT txid, height, is_verified FROM tx ORDER BY txid").fetchall())
                    if case.get('sync') else None)

        def check_state():
            reserved = h.reserved()
            act = active_claims()
            for (i, ci), (j, cj) in itertools.combinations(act, 2):
                if ci & cj:
                    flag({'kind': 'held-inputs-overlap'},
                         f'builds {i} and {j} both hold output {sorted(ci & cj)[0]} (strategy {case["strategy"]})')
            union = set()
            for _, c in act:
                union |= c
            if union - reserved:
                flag({'kind': 'held-output-not-reserved', 'strategy_is_sqlite': case['strategy'] == 'sqlite'},
                     f'output {sorted(union - reserved)[0]} is held by a build but is_reserved = 0: other builds may '
                     f'select it (strategy {case["strategy"]})')
            in_flux = any(b.selecting or b.releasing or (b.phase in ('releasing', 'cancelled') and not b.task.done())
                          for b in builds)
            if not in_flux and not cancelled[0] and reserved != union:
                flag({'kind': 'reserved-set-differs-from-held', 'extra': bool(reserved - union)},
                     f'no build is selecting or releasing, yet is_reserved ({len(reserved)} rows) != held inputs '
                     f'({len(union)})')
            if any(lock._waiters for lname, lock in all_locks() if 'reserv' in lname):
                witnesses.add('build_waiting_on_reservation_lock')
            if sync_task[0] is not None and not sync_task[0].done() and act:
                witnesses.add('sync_rewrote_the_table_while_builds_held_outputs')
            if sum(1 for b in builds if b.phase == 'held') >= 2:
                witnesses.add('two_builds_holding_at_once')
            return reserved

        # ---- the schedule
        steps = 0
        while True:
            steps += 1
            if steps > MAX_STEPS:
                raise RuntimeError('C14 harness: step horizon reached')
            check_state()
            st = canon()
            states.add(hashlib.blake2b(repr(st).encode(), digest_size=8).digest())
            log.update(repr(st).encode())
            enabled = []
            if loop._ready:
                enabled.append(('STEP', None))
            for j in loop.finishable_jobs():
                enabled.append(('JOB_DONE', j))
            for j in loop.runnable_jobs():
                enabled.append(('JOB_RUN', j))
            if late is not None and builds[late].task is None:
                enabled.append(('START', late))
            if case.get('sync') is not None and sync_task[0] is None:
                enabled.append(('SYNC', case['sync']))
            for (n, fut, raw) in h.network.pending:
                enabled.append(('NET', n))
            if loop.next_timer() is not None:
                enabled.append(('TIMER', None))
            real = len(enabled)
            if cancel_victim is not None and not cancelled[0]:
                v = builds[cancel_victim]
                # only while lbry code owns the build (inside Transaction.create or broadcast_or_release)
                if v.task is not None and not v.task.done() and v.phase in ('building', 'broadcasting'):
                    enabled.append(('CANCEL', cancel_victim))
            if real == 0:
                break
            labels = tuple((k, (x.n if k.startswith('JOB') else x)) for k, x in enabled)
            if len(enabled) > 1:
                if visited is not None and len(chooser.trace) >= len(chooser.prefix):
                    key = hashlib.blake2b(repr((full_state(), chooser.cost() if case['bound'] is not None else 0)).encode(),
                                          digest_size=10).digest()
                    if key in visited:
                        raise Pruned()
                    visited.add(key)
                c = chooser.choose(len(enabled), None, labels)
            else:
                c = 0
            kind, x = enabled[c]
            log.update(repr((labels, c)).encode())
            events += 1
            if rolling is not None:
                rolling.append(log.hexdigest())
            if kind == 'STEP':
                loop.step()
            elif kind == 'JOB_RUN':
                if c > 0 and enabled[0][0] == 'STEP':
                    witnesses.add('job_ran_while_other_tasks_were_ready')
                loop.job_run(x)
            elif kind == 'JOB_DONE':
                if c > 0 and enabled[0][0] == 'STEP':
                    witnesses.add('job_completion_injected_early')
                loop.job_done(x)
            elif kind == 'SYNC':
                sync_task[0] = loop.create_task(sync())
            elif kind == 'START':
                start(builds[x])
                if any(b.phase in ('building', 'held', 'broadcasting') for b in builds if b.i != x):
                    witnesses.add('late_build_arrived_mid_flight')
            elif kind == 'NET':
                ok = False
                for b in builds:
                    if b.net == x and b.phase == 'broadcasting':
                        ok = b.outcome == 'bcast_ok'
                        if not ok:
                            b.phase, b.claims = 'releasing', set()
                h.network.answer(x, ok)
            elif kind == 'TIMER':
                loop.fire_timer()
            elif kind == 'CANCEL':
                v = builds[x]
                waiter = getattr(v.task, '_fut_waiter', None)
                # 'releasing': the build is already failing and lbry's own handler is inside ledger.release_outputs
                v.cancel_phase = ('selecting' if v.selecting else 'releasing' if v.releasing else
                                  'selected' if v.claims and v.phase == 'building' else v.phase) + \
                    ('+job-ran' if any(j.fut is waiter and j.state == 'ran' for j in loop.jobs) else '')
                if v.cancel_phase.endswith('+job-ran'):
                    witnesses.add('cancel_between_job_run_and_done')
                cancelled[0] = True
                v.phase, v.claims = 'cancelled', set()
                v.task.cancel()

        # ---- everything finished: holders release, then every output must be available again
        for b in builds:
            if b.task is None or not b.task.done():
                raise RuntimeError(f'C14 harness: quiescent but build {b.i} not finished ({b.phase}) - deadlock')
            if not b.task.cancelled() and b.task.exception() is not None:
                raise b.task.exception()
        if sync_task[0] is not None and sync_task[0].exception() is not None:
            raise sync_task[0].exception()
        summary = tuple((b.phase, len(b.inputs or ())) for b in builds)
        for b in builds:
            if b.phase == 'held':
                h.run(ledger.release_tx(b.tx))
                b.phase, b.claims = 'released', set()
        left = h.reserved()
        if left:
            cause = 'cancelled-build' if cancelled[0] else 'none'
            flag({'kind': 'reserved-after-all-finished', 'cause': cause,
                  'cancelled_while': builds[cancel_victim].cancel_phase if cancelled[0] else None,
                  'strategy_is_sqlite': case['strategy'] == 'sqlite'},
                 f'{len(left)} output(s) still reserved after every build finished and every holder released '
                 f'(cause: {cause}' + (f', build cancelled while {builds[cancel_victim].cancel_phase}' if cancelled[0] else '')
                 + f', strategy {case["strategy"]})')
        if not left and wallet_utxo_ids() != initial_utxo_ids:
            flag({'kind': 'utxo-set-changed'}, 'get_utxos() no longer returns the initial set')
        loop_exc = [str(c.get('exception') or c.get('message'))[:160] for c in loop.exc_contexts]
        if any(b.phase == 'refused' for b in builds):
            witnesses.add('a_build_was_refused')
        if any(b.rounds >= 2 for b in builds):
            witnesses.add('build_needed_two_funding_rounds')
        if len({b.funding for b in builds}) > 1 and any(b.phase == 'refused' for b in builds):
            witnesses.add('builds_with_different_funding_lists_competed')
        if any(b.rounds >= 2 and b.phase == 'refused' for b in builds):
            witnesses.add('build_failed_in_a_later_round_after_reserving')
        if any(initial[k]['height'] <= 0 for b in builds for k in (b.inputs or ())):
            witnesses.add('unconfirmed_output_selected')
        log.update(repr(summary).encode())
        return {'violations': violations, 'summary': summary, 'order': order, 'digest': log.hexdigest(),
                'events': events, 'states': states, 'witnesses': witnesses, 'loop_exc': loop_exc,
                'failed': sorted({b.error for b in builds if b.error}),
                'built': sum(1 for b in builds if b.inputs is not None), 'pruned': False}
    except Pruned:
        return {'violations': violations, 'summary': None, 'order': order, 'digest': log.hexdigest(),
                'events': events, 'states': states, 'witnesses': witnesses, 'loop_exc': [], 'failed': [],
                'built': None, 'pruned': True}
    finally:
        h.close()


# ------------------------------------------------------------------------------------------------
# cases
# ------------------------------------------------------------------------------------------------

def utxo_sets(n):
    """(name, coins, pay): amounts are chosen so that the builds compete for the same coins."""
    half = COIN // 2
    return [
        ('n-1_equal', [COIN] * (n - 1), half),
        ('n_equal', [COIN] * n, half),
        ('n+1_equal', [COIN] * (n + 1), half),
        ('big+dust', [10 * COIN] + [DUSTY] * n, half),
        ('pairwise', [COIN] * (n + 1), COIN + half),      # every build needs two coins
    ]


def state_sets(n):
    """UTXO sets with confirmation states (verified@5 / unverified@0 / unverified@-1)."""
    half = COIN // 2
    return [
        ('mixed-states', [[COIN, ('conf', 'mem0', 'memneg')[k % 3]] for k in range(n + 1)], half),
        ('conf-small+unconf-plenty', [[DUSTY, 'conf']] * n + [[COIN, 'mem0']] * n, half),
        ('all-unconf', [[COIN, ('mem0', 'memneg')[k % 2]] for k in range(n)], half),
    ]


def multi_round_sets(n, shape):
    """Build 0 is output-less / an abandon (needs a second funding round on the small coin U1), the others are
    ordinary payments; with n-1 big coins the multi-round build runs dry when the payments are served first or
    in between, with n it can finish."""
    half = COIN // 2
    shapes = [shape] + ['pay'] * (n - 1)
    return [
        ('U1+n-1_coins', [U1_AMOUNT] + [COIN] * (n - 1), half, shapes),
        ('U1+n_coins', [U1_AMOUNT] + [COIN] * n, half, shapes),
    ]


FUNDINGS = [['a'], ['b'], ['a', 'b'], ['b', 'a']]


def two_account_sets(n):
    """Two accounts of one wallet both hold coins ([amount, state, owner])."""
    half = COIN // 2
    return [
        ('one-each_need-both', [[COIN, 'conf', 'a'], [COIN, 'conf', 'b']], COIN + half),
        ('a-only', [[COIN, 'conf', 'a']] * n, half),
        ('two-each', [[COIN, 'conf', 'a'], [COIN, 'conf', 'b']] * 2, half),
    ]


def outcome_vectors(n, tier):
    base = ['hold', 'release', 'bcast_fail']
    if n == 2:
        vs = [list(v) for v in itertools.combinations_with_replacement(base, 2)] + [['bcast_ok', 'release']]
    elif n == 3:
        vs = [['hold'] * 3, ['release'] * 3, ['bcast_fail'] * 3, ['hold', 'release', 'bcast_fail'],
              ['release', 'release', 'bcast_fail']]
        if tier == 'thorough':
            vs += [['hold', 'hold', 'release'], ['bcast_fail', 'bcast_fail', 'hold'], ['bcast_ok', 'bcast_fail', 'release']]
    elif n == 4:
        vs = [['release'] * 4, ['hold', 'release', 'bcast_fail', 'release']]
        if tier == 'thorough':
            vs += [['hold'] * 4, ['bcast_fail'] * 4]
    else:
        vs = [['release'] * n, (['hold', 'release', 'bcast_fail'] * n)[:n]]
    return vs


def gen_cases(tier):
    quick = tier == 'quick'
    cases = []

    def add(n, sets, strategies, ovs, cancel=None, late=None, bound=None, cross_check=False, source=None, sync=None,
            funding=None, layout=None):
        for entry in (source or utxo_sets(n)):
            name, coins, pay = entry[:3]
            if sets is not None and name not in sets:
                continue
            for st in strategies:
                for ov in ovs:
                    c = {'n': n, 'set': name, 'coins': coins, 'pays': [pay] * n, 'strategy': st,
                         'outcomes': list(ov), 'cancel': cancel, 'late': late, 'bound': bound,
                         'cross_check': cross_check}
                    if len(entry) > 3:
                        c['shapes'] = entry[3]
                    if layout is not None:
                        c['layout'] = layout
                    if sync is not None:
                        c['sync'] = sync
                    if funding is not None:
                        c['funding'] = [list(f) for f in funding]
                    cases.append(c)

    two = ['sqlite', 'prefer_confirmed']
    three = ['sqlite', 'prefer_confirmed', 'random_draw']
    four = ['sqlite', 'prefer_confirmed', 'standard', 'random_draw']
    ov2, ov3 = outcome_vectors(2, tier), outcome_vectors(3, tier)
    mixed3 = ['hold', 'release', 'bcast_fail']
    mixed4 = ['hold', 'release', 'bcast_fail', 'release']
    if quick:
        # ---- N = 2: everything, including cancellation combined with a late arrival
        add(2, None, three, ov2)
        add(2, ['n-1_equal', 'n_equal', 'pairwise'], two, ov2[:4], late=1)
        add(2, ['n-1_equal', 'n_equal'], two, [['hold', 'hold'], ['hold', 'release'], ['release', 'bcast_fail']], cancel=0)
        add(2, ['n-1_equal'], two, [['hold', 'hold'], ['release', 'bcast_fail']], cancel=0, late=1)
        # ---- N = 3
        add(3, None, two, [['hold'] * 3, ['release'] * 3])
        add(3, ['n-1_equal', 'pairwise'], two, [['bcast_fail'] * 3])
        add(3, ['n-1_equal', 'pairwise'], two, [mixed3])
        add(3, ['n-1_equal', 'pairwise'], two, [mixed3], late=2)
        add(3, ['n-1_equal'], two, [['release'] * 3], late=2)
        add(3, ['n_equal'], ['sqlite'], [['hold'] * 3], cancel=0)
        add(3, ['n-1_equal'], ['prefer_confirmed'], [['hold'] * 3], cancel=0)
        # ---- N = 4
        add(4, None, three, [['release'] * 4])
        add(4, ['n-1_equal'], two, [['hold', 'hold', 'release', 'release']])
        # ---- N = 6, 12: at most one deviation from the default schedule
        add(6, ['n-1_equal', 'pairwise', 'big+dust'], two, [['release'] * 6], bound=1)
        add(6, ['n-1_equal', 'pairwise'], two, [(mixed3 * 2)], bound=1)
        add(6, ['n-1_equal'], two, [(mixed3 * 2)], cancel=0, bound=1)
        add(12, ['n-1_equal', 'pairwise', 'big+dust'], two, [['release'] * 12], bound=1)
        add(12, ['big+dust'], two, [(mixed3 * 4)], bound=1)
    else:
        add(2, None, ALL_STRATEGIES, ov2)
        add(2, None, three, ov2, late=1)
        add(2, ['n-1_equal', 'n_equal', 'pairwise'], two, ov2[:5], cancel=0)
        add(2, ['n-1_equal', 'n_equal', 'pairwise'], two, [['hold', 'hold'], ['release', 'bcast_fail']], cancel=0, late=1)
        add(3, None, two, ov3[:6])
        add(3, None, ['random_draw'], [mixed3, ['release'] * 3])
        add(3, None, two, [mixed3, ['release'] * 3, ['hold'] * 3], late=2)
        add(3, ['n-1_equal', 'pairwise'], two, [['hold', 'release', 'release']], cancel=0)
        add(3, ['n-1_equal', 'pairwise'], two, [['hold'] * 3, ['release'] * 3], cancel=0)
        add(3, ['n-1_equal'], two, [['release'] * 3], cancel=0, late=2)
        add(4, None, four, [['release'] * 4, ['hold'] * 4])
        add(4, ['n-1_equal'], two, [mixed4])
        add(4, ['n-1_equal', 'pairwise'], two, [['release'] * 4], late=3)
        add(4, ['n-1_equal'], two, [['release'] * 4], cancel=0)
        add(6, ['n-1_equal', 'pairwise', 'big+dust'], two, [['release'] * 6], bound=2)
        add(6, ['n-1_equal', 'pairwise'], two, [mixed3 * 2], bound=2)
        add(6, ['n-1_equal', 'pairwise'], two, [mixed3 * 2], cancel=0, bound=1)
        add(12, ['n-1_equal', 'pairwise', 'big+dust'], two, [['release'] * 12], bound=2)
        add(12, ['n-1_equal'], ['prefer_confirmed'], [mixed3 * 4], bound=1)
        add(12, ['big+dust'], two, [mixed3 * 4], bound=1)
    # ---- confirmation states in the UTXO set (the sqlite chooser falls back on unverified outputs), every strategy
    add(2, None, ALL_STRATEGIES, [['hold', 'hold'], ['hold', 'release']], source=state_sets(2))
    add(3, None, two if quick else four, [['hold'] * 3] if quick else [['hold'] * 3, ['release'] * 3], source=state_sets(3))
    if not quick:
        add(2, None, two, [['hold', 'hold']], late=1, source=state_sets(2))
        add(2, None, two, [['hold', 'hold']], cancel=0, source=state_sets(2))
    # ---- builds that need >= 2 funding rounds (output-less / pre-chosen input) competing with ordinary payments
    for shape in ('outputless', 'abandon'):
        add(2, None, ALL_STRATEGIES, [['release', 'release'], ['hold', 'hold']], source=multi_round_sets(2, shape))
        add(3, None, two, [['release'] * 3], source=multi_round_sets(3, shape))
        add(2, ['U1+n-1_coins'], two, [['release', 'release']], late=1, source=multi_round_sets(2, shape))
        if not quick:
            add(2, None, two, [['hold', 'release'], ['release', 'bcast_fail']], source=multi_round_sets(2, shape))
            add(2, ['U1+n-1_coins'], two, [['release', 'release']], cancel=0, source=multi_round_sets(2, shape))
            add(3, None, two, [['hold', 'release', 'release']], late=2, source=multi_round_sets(3, shape))
            add(4, ['U1+n-1_coins'], two, [['release'] * 4], source=multi_round_sets(4, shape))
    # ---- funding layout: the same coins spread over funding transactions in different ways; each build needs >= 3 coins
    for layout in ('one', 'per-coin', 'interleaved', 'pairs'):
        src = [('1-4-2-10-10', [COIN, 4 * COIN, 2 * COIN, 10 * COIN, 10 * COIN], 4 * COIN + COIN // 2),
               ('1-1-4-2-6', [COIN, COIN, 4 * COIN, 2 * COIN, 6 * COIN], 2 * COIN + COIN // 2)]
        add(2, None, ['sqlite', 'prefer_confirmed', 'standard'] if quick else ALL_STRATEGIES,
            [['release', 'release']] if quick else [['release', 'release'], ['hold', 'hold'], ['release', 'bcast_fail']],
            source=src, layout=layout)
    # ---- wallet sync re-saves the funding transactions while builds run / hold (any writer of the txo table must
    #      preserve reservations): the sync task starts at any iteration boundary, its database calls interleave
    for mode in ('same', 'confirm', 'reorg'):
        add(2, ['n_equal'], two, [['hold', 'hold'], ['hold', 'release']], sync=mode)
        if not quick:
            add(2, ['n-1_equal', 'pairwise'], two, [['hold', 'hold'], ['release', 'bcast_fail']], sync=mode)
            add(3, ['n_equal'], two, [['hold', 'release', 'release']], sync=mode)
    add(2, ['mixed-states', 'all-unconf'], two, [['hold', 'hold']], sync='confirm', source=state_sets(2))
    add(2, ['mixed-states'], two, [['hold', 'hold']], sync='same', source=state_sets(2))
    add(3, ['n_equal'], ['prefer_confirmed'] if quick else two, [['hold'] * 3], sync='same')
    if not quick:
        add(2, ['n_equal'], two, [['hold', 'hold']], sync='same', late=1)
        add(2, ['n_equal'], two, [['hold', 'hold']], sync='confirm', cancel=0)
    # ---- two funding accounts: builds name them as [a], [b], [a,b], [b,a]; overlapping or re-ordered lists compete for
    #      the same outputs
    pairs = list(itertools.combinations_with_replacement(range(4), 2))
    hot = [(2, 3), (0, 2), (0, 3), (2, 2)]          # [a,b]/[b,a], [a]/[a,b], [a]/[b,a], [a,b]/[a,b]
    for i, j in pairs:
        sts = ALL_STRATEGIES if (i, j) in hot else (two if quick else four)
        add(2, None if (i, j) in hot or not quick else ['one-each_need-both', 'two-each'], sts, [['hold', 'hold']],
            source=two_account_sets(2), funding=[FUNDINGS[i], FUNDINGS[j]])
    add(3, ['one-each_need-both', 'a-only'], two, [['hold'] * 3], source=two_account_sets(3),
        funding=[['a'], ['a', 'b'], ['b', 'a']])
    add(3, ['two-each'], two, [['hold', 'release', 'release']], source=two_account_sets(3),
        funding=[['a', 'b'], ['b', 'a'], ['b']])
    if not quick:
        add(2, None, two, [['release', 'bcast_fail'], ['hold', 'release']], source=two_account_sets(2),
            funding=[['a', 'b'], ['b', 'a']])
        add(2, ['one-each_need-both', 'a-only'], two, [['hold', 'hold']], late=1, source=two_account_sets(2),
            funding=[['a'], ['b', 'a']])
    # ---- the same exploration without state pruning must agree (validation of the pruning)
    add(2, ['n_equal', 'pairwise'] if quick else None, two, [['hold', 'release']], cross_check=True)
    if not quick:
        add(2, ['n_equal'], two, [['bcast_fail', 'bcast_fail']], cross_check=True)
    add(2, ['n-1_equal'], two, [['release', 'bcast_fail']], late=1, cross_check=True)
    if quick:
        add(2, ['n-1_equal'], ['prefer_confirmed'], [['hold', 'hold']], cancel=0, cross_check=True)
    else:
        add(2, ['n_equal'], two, [['hold', 'release']], cancel=0, cross_check=True)
    if not quick:
        add(3, ['n-1_equal'], two, [['hold', 'hold', 'release']], cross_check=True)
    return cases


# ------------------------------------------------------------------------------------------------
# exploration of one case
# ------------------------------------------------------------------------------------------------

def explore(case, prune, stop_early=True):
    """All choice sequences of the case (within its deviation bound).  -> dict of what was seen."""
    from vf.explore import dfs_deviation
    visited = set() if prune else None
    seen = {'executions': 0, 'pruned': 0, 'events': 0, 'states': set(), 'witnesses': {}, 'outcomes': set(),
            'violations': {}, 'records': [], 'viol_records': [], 'failed': {}, 'built': {}, 'max_points': 0, 'loop_exc': 0}

    def run(ch):
        return execute(case, ch, visited=visited)

    def on_result(ch, obs):
        seen['executions'] += 1
        seen['events'] += obs['events']
        seen['states'] |= obs['states']
        for w in obs['witnesses']:
            seen['witnesses'][w] = seen['witnesses'].get(w, 0) + 1
        seen['max_points'] = max(seen['max_points'], len(ch.trace))
        rec = (list(ch.choices), obs['digest'], obs['events'])
        if obs['pruned']:
            seen['pruned'] += 1
        else:
            seen['outcomes'].add(obs['summary'])
            for name in obs['failed']:
                seen['failed'][name] = seen['failed'].get(name, 0) + 1
            seen['built'][obs['built']] = seen['built'].get(obs['built'], 0) + 1
            seen['loop_exc'] += len(obs['loop_exc'])
            if len(seen['records']) < 1:
                seen['records'].append(rec)
            seen['last'] = rec
        for sig, what in obs['violations']:
            from vf.core import sig_key
            k = sig_key(sig)
            if k not in seen['violations']:
                seen['violations'][k] = (sig, what, list(ch.choices), 0)
                seen['viol_records'].append(rec)
            sg, wh, chs, n = seen['violations'][k]
            seen['violations'][k] = (sg, wh, chs, n + 1)
        if obs['violations']:
            seen['violating'] += 1
            if stop_early and seen['violating'] >= STOP_AFTER_VIOLATING:
                raise StopCase()

    seen['violating'] = 0
    seen['stopped'] = False
    try:
        out = dfs_deviation(run, bound=case['bound'], on_result=on_result, max_executions=MAX_EXECUTIONS_PER_CASE)
        seen['capped'] = out['capped']
    except StopCase:
        seen['capped'] = False
        seen['stopped'] = True
    return seen


def explore_case(case, res, cross_check=False):
    from vf.explore import Chooser
    seen = explore(case, prune=True)
    res.count('executions', seen['executions'])
    res.count('executions_cut_at_a_visited_state', seen['pruned'])
    res.count('transitions', seen['events'])
    res.distinct['states'] |= seen['states']
    for w, n in seen['witnesses'].items():
        res.witness(w, n)
    res.setmax('max_choice_points', seen['max_points'])
    res.setmax('max_schedules_per_case', seen['executions'])
    for name, n in seen['failed'].items():
        res.tally(f'build_failed_with_{name}_(not_judged_by_C14)', n)
    for k, n in seen['built'].items():
        res.tally('builds_succeeded_%d_of_%d' % (k, case['n']), n)
    if seen['loop_exc']:
        res.tally('loop_exception_contexts', seen['loop_exc'])
    if seen['capped']:
        res.count('capped')
    if seen['stopped']:
        res.count('cases_not_explored_further_after_%d_violating_executions' % STOP_AFTER_VIOLATING)
    for k, (sig, what, choices, n) in seen['violations'].items():
        for _ in range(n):
            res.violation(sig, what, {'case': case, 'choices': choices})
    res.distinct_add('nontrivial', (case['n'], case['set'], case['strategy'], tuple(case['outcomes']), case['cancel'],
                                    case['late'], tuple(case.get('shapes') or ()), case.get('sync'), case.get('layout'),
                                    repr(case.get('funding'))))
    res.count('evaluations')
    res.distinct_add('distinct_outcomes', (case['n'], case['set'], case['strategy'], tuple(sorted(seen['outcomes']))))
    # determinism self-check: first, last and violating choice sequences are replayed twice without the
    # explorer and without pruning; the running observation digest must agree at the recorded event count
    done = set()
    for choices, digest, events in seen['records'] + ([seen['last']] if 'last' in seen else []) + seen['viol_records'][:3]:
        if tuple(choices) in done:
            continue
        done.add(tuple(choices))
        for _ in range(2):
            rolling = []
            obs = execute(case, Chooser(choices), rolling=rolling)
            res.count('determinism_replays')
            got = rolling[events - 1] if 0 < events <= len(rolling) else obs['digest']
            if events == len(rolling):
                got = obs['digest'] if digest == obs['digest'] else got
            if got != digest and obs['digest'] != digest:
                res.error(f'non-deterministic replay: case {case!r:.300} choices {choices}')
    if cross_check and not seen['stopped']:
        # the same case without state pruning must reach the same states, outcomes and verdicts
        full = explore(case, prune=False, stop_early=False)
        res.count('pruning_cross_checks')
        res.count('executions', full['executions'])
        res.count('transitions', full['events'])
        if (full['states'] != seen['states'] or full['outcomes'] != seen['outcomes'] or
                set(full['violations']) != set(seen['violations'])):
            res.error(f'state pruning changed the result of case {case!r:.300}: states {len(full["states"])} vs '
                      f'{len(seen["states"])}, outcomes {len(full["outcomes"])} vs {len(seen["outcomes"])}, violations '
                      f'{sorted(full["violations"])} vs {sorted(seen["violations"])}')
        res.setmax('max_schedules_per_case_without_pruning', full['executions'])


def work(item, res):
    import time
    t0 = time.process_time()
    for case in item:
        explore_case(case, res, cross_check=case.get('cross_check', False))
    dt = time.process_time() - t0
    res.setmax('max_pool_item_cpu_s', round(dt, 1))
    res.count('cpu_seconds', int(round(dt)))


def run(ctx):
    cases = gen_cases(ctx.tier)
    # rotate the scripted shuffle with the seed (an RNG stream, never a choice of cases)
    for c in cases:
        c['perm'] = ctx.seed
    def weight(c):
        """Rough cost estimate (cpu-seconds) used only to order and group the pool items."""
        w = {2: 0.3, 3: 0.5, 4: 0.8, 6: 1.5, 12: 6.0}[c['n']]
        kinds = len(set(c['outcomes']))
        w *= {1: 1, 2: 6, 3: 12}.get(kinds, 12)
        if c['outcomes'].count('bcast_fail') >= 2:
            w *= 3
        if c['cancel'] is not None:
            w *= 25 if c['n'] <= 4 else 3
        if c['late'] is not None:
            w *= 8
        if c['bound'] == 2:
            w *= 6
        if c['cross_check']:
            w *= 8
        return w
    cases.sort(key=weight, reverse=True)
    items, cur, cur_w = [], [], 0
    for c in cases:
        w = weight(c)
        if w >= 4:
            items.append([c])
            continue
        cur.append(c)
        cur_w += w
        if cur_w >= 4:
            items.append(cur)
            cur, cur_w = [], 0
    if cur:
        items.append(cur)
    ctx.pmap(work, items)
    ctx.res.sample({'case': cases[-1], 'choices': [], 'note': 'default schedule of the simplest case'})
    ctx.meta.update(
        rule=('[also: a wallet-sync task re-saving the funding transactions (same height / confirm / reorg) started at any '
              'boundary; two accounts holding coins with funding_accounts in {[a],[b],[a,b],[b,a]} per build] '
              'cases = N concurrent builds x UTXO set {N-1, N, N+1 equal coins; one big + dust; coins that only pairwise '
              'cover; mixed confirmation states; confirmed-too-small + unconfirmed-plenty; all unconfirmed; small coin U1 + '
              'N-1 / N coins with build 0 output-less or an abandon (>= 2 funding rounds) against ordinary payments} x strategy x outcome vector over {hold, release_tx, broadcast_or_release with failing/accepting '
              'server} x {no fault, cancel build 0 at any boundary} x {all start together, last build arrives at any '
              'boundary}; per case every choice sequence over {start order of distinct builds, STEP, JOB_RUN, JOB_DONE, '
              'START, NET, CANCEL} (N<=4), or all with <= d deviations (N in {6,12}).  states = distinct canonical '
              'harness states (per-build phase and claims, is_reserved set, lock holders/waiters, job states).'),
        exhaustive=True,
        bounds={'N_exhaustive': [2, 3, 4], 'N_bounded': {'6': 1 if ctx.quick else 2, '12': '1' if ctx.quick else '2 (1 with mixed outcomes)'},
                'strategies': 3 if ctx.quick else 7, 'hashseed': ctx.hashseed, 'cases': len(cases)},
        bound_completed='all interleavings for N<=4; deviation bound %d for N in {6,12}' % (1 if ctx.quick else 2),
        assumptions=['executor job bodies (one sqlite transaction each) take effect atomically at an iteration boundary '
                     '(JOB_RUN) and their completion reaches the loop at a later boundary (JOB_DONE)',
                     'the fault CANCEL(build) is injected only while lbry code owns the build (inside Transaction.create or '
                     'ledger.broadcast_or_release), at any iteration boundary, at most once per execution',
                     'state-hash pruning merges executions whose full harness state is equal (validated by the '
                     'pruning_cross_checks cases, explored with and without pruning)',
                     'a case is not explored further after 25 violating executions (never on a silent tree)',
                     'a cancelled asyncio future drops the result of a job that already ran; a job that has not started '
                     'when its future is cancelled never runs (both happen with a real ThreadPoolExecutor)',
                     'a build that ends with CancelledError or any exception counts as failed',
                     'identical builds (same amount and outcome) are interchangeable in the start order',
                     'how many builds succeed is tallied, not judged'],
        expected_witnesses=['build_waiting_on_reservation_lock', 'two_builds_holding_at_once',
                            'job_completion_injected_early', 'late_build_arrived_mid_flight',
                            'cancel_between_job_run_and_done', 'build_needed_two_funding_rounds',
                            'build_failed_in_a_later_round_after_reserving', 'unconfirmed_output_selected',
                            'sync_rewrote_the_table_while_builds_held_outputs', 'builds_with_different_funding_lists_competed'],
    )


def replay(data):
    from vf.explore import Chooser
    case, choices = data['case'], data['choices']
    ch = Chooser(choices)
    obs = execute(case, ch)
    lines = [f"case: N={case['n']} coins={case['coins']} pay={case['pays'][0]} shapes={case.get('shapes')} funding={case.get('funding')} sync={case.get('sync')} layout={case.get('layout')} strategy={case['strategy']} "
             f"outcomes={case['outcomes']} cancel={case['cancel']} late={case['late']}",
             f"choices: {choices}", f"start order: {obs['order']}", f"final: {obs['summary']}"]
    for t in ch.trace:
        lines.append(f'  choice {t[3]} of {t[2]}')
    for sig, what in obs['violations']:
        lines.append('VIOLATION ' + what)
    return bool(obs['violations']), '\n'.join(lines)
