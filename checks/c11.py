"""C11 - the DHT routing table stays a well-formed Kademlia tree; closest-K is exact.

Explicit-state breadth-first search over operation histories, executed on the real
TreeRoutingTable / KBucket / PeerManager under the virtual loop (loop time is virtual, the liveness probe
is a coroutine whose outcome is part of the operation).  Three parts:

  S  scaled K in {2, 3} (constants.K patched, KBucket replaced by a subclass that reads the capacity at
     run time), level-synchronous BFS with canonical-state hashing; the frontier of every level is
     expanded in worker processes (ctx.pmap), canonical forms are deduplicated in the parent.
  Q  for every distinct table configuration reached by S: get_peer for every alphabet id and
     find_close_peers(key, count, sender) against the brute-force reference (refs/routing_ref.py).
  R  real K = 8: a default fill history (5 prefix classes, 32 adds) and every history that differs from it
     in <= d edits (d = 1 quick, 2 thorough), the full oracle after every operation.

A state is the history that reaches it, replayed on fresh real objects.  The canonical form is
(bucket ranges, bucket contents in order, per-address liveness record ages relative to now), ages above
CHECK_REFRESH_INTERVAL collapsed (no branch of the code distinguishes them).
"""
import os
import asyncio
import hashlib
import pickle
import shutil
import collections

PROPERTY = 'C11'
LEVEL = 'model_checking'
HASHSEEDS = {'quick': 1, 'thorough': 1}

BITS = 384
FULL = 2 ** BITS
PORT = 4444
T0 = 1_000_000.0          # virtual start time; a real loop clock is never 0.0 (0.0 is falsy in the code)
MID = 2 ** 382 + 2 ** 381  # midpoint of the bucket [2^382, 2^383)

# contact distances from the own id: prefix lengths 0,1,2,382,383 and the exact bucket boundaries
DISTS = [2 ** 383, 2 ** 383 + 1, 2 ** 384 - 1, 2 ** 382, MID - 1, MID, 2 ** 383 - 1, 2 ** 381, 1, 2]

OWN_IDS = ['00' * 48, 'ff' * 48, hashlib.sha384(b'C11').hexdigest()]


def i2b(n):
    return n.to_bytes(BITS // 8, 'big')


def b2i(b):
    return int.from_bytes(b, 'big')


def contacts_for(own_hex):
    """The contact alphabet for one own id: [(node_id_hex, address, port)]."""
    o = int(own_hex, 16)
    cs = [(i2b(o ^ d).hex(), f'1.2.3.{i + 1}', PORT) for i, d in enumerate(DISTS)]
    cs.append((i2b(o ^ (2 ** 383 + 5)).hex(), '1.2.3.1', PORT))   # 10: new id at contact 0's address
    cs.append((cs[0][0], '1.2.9.9', PORT))                         # 11: contact 0's id at a new address
    cs.append((cs[1][0], '1.2.3.4', PORT))                         # 12: contact 1's id at contact 3's address
    return cs


def addresses_of(contacts):
    out = []
    for _, a, p in contacts:
        if (a, p) not in out:
            out.append((a, p))
    return out


def ops_for(contacts, env=True):
    """The operation alphabet, simplest first.  ('add', i, outcome) outcome in a(live) t(imeout) e(rror);
    ('rm', i); ('rep', a) report_last_replied; ('fail', a) report_failure; ('clk', seconds)."""
    n = len(contacts)
    ops = [('add', i, 'a') for i in range(n)]
    ops += [('rm', i) for i in range(n)]
    ops += [('add', i, 't') for i in range(n)]
    ops += [('add', i, 'e') for i in range(n)]
    if env:
        na = len(addresses_of(contacts))
        ops += [('rep', a) for a in range(na)]
        ops += [('fail', a) for a in range(na)]
        ops += [('clk', 61), ('clk', 721)]
    return ops


# ------------------------------------------------------------------------------------------------
# installing the scale (no wrapper is put around any routing-table method: add_peer / _join_buckets recurse
# once per split / per joined bucket, up to 2 x 383 frames for contacts that differ only in their lowest bits,
# and an extra frame per level would push the real code over the interpreter's recursion limit)

_INST = {}


def install(K):
    from lbry.dht import constants
    from lbry.dht.protocol import routing_table as rt
    constants.K = K
    if _INST:
        return
    base = rt.KBucket

    class ScaledKBucket(base):
        def __init__(self, peer_manager, range_min, range_max, node_id, capacity=None):
            super().__init__(peer_manager, range_min, range_max, node_id,
                             constants.K if capacity is None else capacity)
    rt.KBucket = ScaledKBucket
    _INST['done'] = True


_PEER_CACHE = {}


def peers_for(contacts):
    key = tuple(contacts)
    ps = _PEER_CACHE.get(key)
    if ps is None:
        from lbry.dht.peer import KademliaPeer
        ps = [KademliaPeer(a, bytes.fromhex(n), p, None) for n, a, p in contacts]
        _PEER_CACHE[key] = ps
    return ps


Rec = collections.namedtuple('Rec', 'op before after snap result exc probed before_snap')


class Exec:
    """One execution: fresh loop, PeerManager and TreeRoutingTable; operations applied one at a time."""

    def __init__(self, K, own_hex, contacts):
        from vf.vloop import VLoop
        from lbry.dht.peer import PeerManager
        from lbry.dht.protocol import routing_table as rt
        install(K)
        self.K = K
        self.own = bytes.fromhex(own_hex)
        self.contacts = contacts
        self.peers = peers_for(contacts)
        self.index = {p: i for i, p in enumerate(self.peers)}
        self.addrs = addresses_of(contacts)
        self.loop = VLoop().activate()
        self.loop._vtime = T0
        self.pm = PeerManager(self.loop)
        self.table = rt.TreeRoutingTable(self.loop, self.pm, self.own)
        # mirror of the liveness records, kept by the harness from the history alone
        self.replied = {}
        self.failures = {}
        self.nops = 0

    def close(self):
        self.loop.shutdown()

    # -- observation ---------------------------------------------------------------------------
    def snapshot(self):
        return [(b.range_min, b.range_max, list(b.peers)) for b in self.table.buckets]

    @staticmethod
    def members_of(snap):
        return [p for _, _, ps in snap for p in ps]

    def table_canon(self, snap=None):
        snap = self.snapshot() if snap is None else snap
        ix = self.index
        return tuple((lo, hi, tuple(ix[p] for p in ps)) for lo, hi, ps in snap)

    def pm_canon(self):
        now = self.loop.time()
        out = []
        for a in self.addrs:
            r = self.replied.get(a)
            f = self.failures.get(a)
            if r is None and f is None:
                out.append(None)
                continue
            ar = None if r is None else now - r
            af = None if f is None else now - f[1]
            order = None if (ar is None or af is None) else (ar > af) - (ar < af)
            out.append((None if ar is None else min(ar, 721.0), None if af is None else min(af, 721.0),
                        bool(f and f[0] is not None), order))
        return tuple(out)

    def digests(self, snap=None):
        tc = self.table_canon(snap)
        td = hashlib.blake2b(repr(tc).encode(), digest_size=12).digest()
        fd = hashlib.blake2b(repr((tc, self.pm_canon())).encode(), digest_size=16).digest()
        return fd, td

    # -- operations ----------------------------------------------------------------------------
    def apply(self, op):
        from vf.vloop import Deadlock, Horizon
        from lbry.dht.error import RemoteException
        before_snap = self.snapshot()
        before = self.members_of(before_snap)
        kind = op[0]
        result, exc, probed = None, None, []
        self.nops += 1
        try:
            if kind == 'add':
                outcome = op[2]

                async def probe(peer):
                    probed.append(peer)
                    await asyncio.sleep(0)
                    if outcome == 't':
                        raise asyncio.TimeoutError()
                    if outcome == 'e':
                        raise RemoteException('remote error')
                result = self.loop.run(self.table.add_peer(self.peers[op[1]], probe), max_steps=100000)
            elif kind == 'rm':
                self.table.remove_peer(self.peers[op[1]])
            elif kind == 'rep':
                a = self.addrs[op[1]]
                self.pm.report_last_replied(*a)
                self.replied[a] = self.loop.time()
            elif kind == 'fail':
                a = self.addrs[op[1]]
                self.pm.report_failure(*a)
                prev = self.failures.get(a)
                self.failures[a] = (prev[1] if prev else None, self.loop.time())
            elif kind == 'clk':
                self.loop.advance(op[1])
            else:
                raise AssertionError(f'unknown op {op!r}')
        except (Deadlock, Horizon, AssertionError) as e:
            if isinstance(e, AssertionError) and kind != 'add' and kind != 'rm':
                raise
            if isinstance(e, (Deadlock, Horizon)):
                raise
            exc = e      # an assert inside lbry code is an exception of the operation
        except RecursionError as e:
            exc = e
        except Exception as e:   # noqa - judged by the property ("no exception from any operation")
            exc = e
        snap = self.snapshot()
        return Rec(op, before, self.members_of(snap), snap, result, exc, probed, before_snap)


# ------------------------------------------------------------------------------------------------
# oracle

def _small(n, lim=8):
    return n if -lim <= n <= lim else ('big+' if n > 0 else 'big-')


def structural(snap, own, K):
    """cover exactly once, placement, capacity, id and address uniqueness -> [(signature, what)]"""
    from refs import routing_ref as ref
    out = []
    ranges = [(lo, hi) for lo, hi, _ in snap]
    d = ref.cover_defect(ranges, BITS)
    if d is not None:
        out.append(({'kind': 'cover', 'defect': d[0], 'size': _small(d[1])},
                    f'buckets do not cover the distance space exactly once: {d[0]} of {_small(d[1], 10 ** 6)} '
                    f'after bucket {d[2]} of {len(ranges)}'))
    o = b2i(own)
    ids, ads = [], []
    for bi, (lo, hi, ps) in enumerate(snap):
        if len(ps) > K:
            out.append(({'kind': 'capacity', 'excess': len(ps) - K},
                        f'bucket {bi} holds {len(ps)} contacts, K = {K}'))
        for p in ps:
            dist = b2i(p.node_id) ^ o
            if not lo <= dist < hi:
                side = 'below' if dist < lo else 'above'
                off = (lo - dist) if dist < lo else (dist - hi + 1)
                out.append(({'kind': 'placement', 'side': side, 'off': _small(off)},
                            f'contact at distance {hex(dist)[:14]}.. sits in bucket {bi} '
                            f'[{hex(lo)[:12]}.., {hex(hi)[:12]}..) ({side} by {_small(off, 10 ** 6)})'))
            ids.append(p.node_id)
            ads.append((p.address, p.udp_port))
    if len(ids) != len(set(ids)):
        out.append(({'kind': 'dup-id'}, 'a node id appears twice in the table'))
    if len(ads) != len(set(ads)):
        out.append(({'kind': 'dup-address'}, 'an (address, port) appears twice in the table'))
    return out


def judge(ex, rec, tally):
    """Oracle for one transition -> [(signature, what)]; tally(name) records interpretation-only facts."""
    from refs import routing_ref as ref
    op = rec.op
    kind = op[0]
    if rec.exc is not None:
        return [({'kind': 'exception', 'op': kind, 'type': type(rec.exc).__name__},
                 f'{kind} raised {type(rec.exc).__name__}: {str(rec.exc)[:80]}')]
    out = structural(rec.snap, ex.own, ex.K)
    if out:
        return out
    before, after = rec.before, rec.after
    bset, aset = set(before), set(after)
    if kind == 'add':
        new = ex.peers[op[1]]
        outcome = op[2]
        r = rec.result
        naddr = (new.address, new.udp_port)
        same_addr = [p for p in before if (p.address, p.udp_port) == naddr and p.node_id != new.node_id]
        same_id = [p for p in before if p.node_id == new.node_id]
        known = [p for p in before if p not in same_addr]
        lost = [p for p in known if p not in aset and p.node_id != new.node_id]
        shape = ('update' if same_id else 'new-id') + ('-same-addr' if same_addr else '-new-addr')
        # eviction: a contact that answers pings is never displaced by a newcomer at a different address
        if lost:
            if outcome == 'a':
                if not same_id:
                    out.append(({'kind': 'eviction', 'newcomer': shape,
                                 'probed': any(p in rec.probed for p in lost)},
                                f'add({shape}, every probe answered) displaced {len(lost)} live contact(s) '
                                f'at other addresses'))
                else:
                    tally('interpretation_only:update_displaced_live_contact')
            elif any(p not in rec.probed for p in lost):
                tally('interpretation_only:displaced_without_probe')
        # admission: closer than the K-th closest known contact (or fewer than K known) => admitted
        kth = ref.kth_closest_distance(ex.own, [p.node_id for p in known], ex.K)
        dnew = ref.xor_distance(ex.own, new.node_id)
        must = kth is None or dnew < kth
        if must and not (r is True and new in aset):
            if not same_id:
                out.append(({'kind': 'admission', 'newcomer': shape, 'probe': outcome,
                             'case': 'fewer-than-K-known' if kth is None else 'closer-than-kth',
                             'returned': repr(r), 'member_after': new in aset},
                            f'add({shape}) of a contact that must be admitted returned {r!r}, '
                            f'member afterwards: {new in aset}'))
            else:
                tally('interpretation_only:update_not_admitted')
        # return value consistent with membership
        if r is True and new not in aset:
            out.append(({'kind': 'return-value', 'returned': 'True', 'member_after': False, 'newcomer': shape},
                        'add returned True but the contact is not in the table'))
        elif r is False and new in aset and new not in bset:
            out.append(({'kind': 'return-value', 'returned': 'False', 'member_after': True, 'newcomer': shape},
                        'add returned False but the contact was inserted'))
        elif r is not True and r is not False:
            tally('interpretation_only:add_returned_non_bool')
        extra = [p for p in after if p not in bset and p != new]
        if extra:
            out.append(({'kind': 'spurious-member', 'op': 'add'}, 'add inserted a contact other than its argument'))
    elif kind == 'rm':
        gone = ex.peers[op[1]]
        if gone in aset:
            out.append(({'kind': 'remove', 'defect': 'still-member'}, 'removed contact is still in the table'))
        if any(p not in aset for p in before if p != gone):
            out.append(({'kind': 'remove', 'defect': 'lost-other'}, 'remove dropped another contact'))
        if any(p not in bset for p in after):
            out.append(({'kind': 'remove', 'defect': 'gained'}, 'remove inserted a contact'))
    else:
        if before != after:
            out.append(({'kind': 'env-changed-table', 'op': kind}, f'{kind} changed table membership'))
    return out


def witnesses(ex, rec, w):
    """non-vacuity facts of one transition; w(name)"""
    # splits and joins are read off the bucket boundaries (a boundary that appears = a split survived the
    # operation; an interior bucket whose both boundaries vanish while a new boundary appears inside it = a
    # join where both neighbours absorbed it)
    b0 = {lo for lo, _, _ in rec.before_snap}
    b1 = {lo for lo, _, _ in rec.snap}
    if b1 - b0:
        w('split')
    if b0 - b1:
        w('join')
        for lo, hi, _ in rec.before_snap[1:-1]:
            if lo not in b1 and hi not in b1 and any(lo < x < hi for x in b1 - b0):
                w('join_both_neighbours')
                break
    op = rec.op
    if op[0] == 'add' and rec.exc is None:
        new = ex.peers[op[1]]
        aset = set(rec.after)
        if rec.probed:
            if op[2] == 'a':
                w('ping_alive_newcomer_refused')
            elif any(p not in aset for p in rec.probed) and new in aset:
                w('ping_eviction' if op[2] == 't' else 'ping_eviction_remote_error')
        elif rec.result is False:
            w('refused_without_probe_recent_reply')
        if new in rec.before:
            w('re_add')
        elif any(p.node_id == new.node_id for p in rec.before):
            w('same_id_new_address_update')
        if any((p.address, p.udp_port) == (new.address, new.udp_port) and p.node_id != new.node_id
               for p in rec.before):
            w('same_address_purge')
        if len(rec.probed) > 1:
            w('multiple_probes_in_one_add')
    elif op[0] == 'rm' and rec.exc is None and ex.peers[op[1]] in rec.before:
        w('remove_member')


def query_keys(ex):
    keys = []
    for n, _, _ in ex.contacts:
        x = int(n, 16)
        for k in (x - 1, x, x + 1):
            kb = i2b(k % FULL)
            if kb not in keys:
                keys.append(kb)
    for kb in (ex.own, i2b(0), i2b(FULL - 1)):
        if kb not in keys:
            keys.append(kb)
    return keys


def state_oracle(ex, count_eval):
    """get_peer membership and closest-K exactness on the current state -> [(signature, what)]"""
    from refs import routing_ref as ref
    out = []
    K = ex.K
    table = ex.table
    members = ex.members_of(ex.snapshot())
    by_id = {p.node_id: p for p in members}
    # get_peer finds exactly the members
    probe_ids = []
    for n, _, _ in ex.contacts:
        b = bytes.fromhex(n)
        if b not in probe_ids:
            probe_ids.append(b)
    probe_ids.append(ex.own)
    for nid in probe_ids:
        count_eval()
        try:
            got = table.get_peer(nid)
        except Exception as e:   # noqa
            out.append(({'kind': 'exception', 'op': 'get_peer', 'type': type(e).__name__},
                        f'get_peer raised {type(e).__name__}: {str(e)[:80]}'))
            continue
        exp = by_id.get(nid)
        if got != exp or (got is not None and got.node_id != nid):
            out.append(({'kind': 'get-peer', 'expected_member': exp is not None, 'got_none': got is None},
                        f'get_peer({nid.hex()[:10]}..) returned {got}, member: {exp}'))
    # closest-K
    ids = [p.node_id for p in members]
    non_members = [b for b in probe_ids if b not in by_id and b != ex.own]
    senders = [(None, 'none')] + [(i, 'member') for i in ids] + [(b, 'non-member') for b in non_members[:1]]
    counts = [(None, 'None'), (1, '1'), (K, 'K'), (K + 1, 'K+1')]
    keys = query_keys(ex)
    for sender, sclass in senders:
        pool = [i for i in ids if i != ex.own and i != sender]
        for key in keys:
            full = ref.closest(pool, key, len(pool))
            for cnt, cclass in counts:
                count_eval()
                exp = full[:cnt or K]
                try:
                    res = table.find_close_peers(key, cnt, sender) if sender is not None or cnt is not None \
                        else table.find_close_peers(key)
                    got = [p.node_id for p in res]
                except Exception as e:   # noqa
                    out.append(({'kind': 'exception', 'op': 'find_close_peers', 'type': type(e).__name__},
                                f'find_close_peers raised {type(e).__name__}: {str(e)[:80]}'))
                    continue
                if got == exp and all(by_id.get(p.node_id) == p for p in res):
                    continue
                if got == exp:
                    defect = 'stale-object'
                elif sender is not None and sender in got:
                    defect = 'sender-included'
                elif ex.own in got:
                    defect = 'self-included'
                elif sorted(got) == sorted(exp):
                    defect = 'order'
                elif len(got) != len(exp):
                    defect = 'length'
                else:
                    defect = 'not-nearest'
                out.append(({'kind': 'closest', 'defect': defect, 'count': cclass, 'sender': sclass},
                            f'find_close_peers(key={key.hex()[:10]}.., count={cnt}, sender={sclass}) returned '
                            f'{[g.hex()[:8] for g in got]}, nearest are {[g.hex()[:8] for g in exp]}'))
    return out


# ------------------------------------------------------------------------------------------------
# configurations

def cfg_contacts(cfg):
    return cfg.get('contacts') or contacts_for(cfg['own'])


def cfg_ops(cfg):
    if 'ops' in cfg:
        return [tuple(o) for o in cfg['ops']]
    return ops_for(cfg_contacts(cfg), env=cfg.get('env', True))


def enabled(cfg, ex, op):
    """Alphabet restriction (a stated bound, not an oracle): liveness reports are issued only for addresses
    of current table members (every other report commutes with the operations before the contact's next add,
    see DESIGN note in run())."""
    if cfg.get('reports') == 'members' and op[0] in ('rep', 'fail'):
        a = ex.addrs[op[1]]
        return any((p.address, p.udp_port) == a for b in ex.table.buckets for p in b.peers)
    return True


def replay_history(cfg, hist_ops):
    ex = Exec(cfg['K'], cfg['own'], cfg_contacts(cfg))
    for op in hist_ops:
        rec = ex.apply(op)
        if rec.exc is not None:
            ex.close()
            raise RuntimeError(f'prefix replay diverged: {op} raised {rec.exc!r}')
    return ex


def replay_data(cfg, hist_ops, part):
    return {'part': part, 'K': cfg['K'], 'own': cfg['own'], 'contacts': [list(c) for c in cfg_contacts(cfg)],
            'ops': [list(o) for o in hist_ops]}


# ------------------------------------------------------------------------------------------------
# workers

def w_expand(item, res):
    """Expand a chunk of frontier histories: every enabled operation applied to every history."""
    cfg, hists, outpath = item
    ops = cfg_ops(cfg)
    succ, viols = [], []
    for hi, h in enumerate(hists):
        hops = [ops[i] for i in h]
        base = replay_history(cfg, hops)
        src_fd, _ = base.digests()
        en = [oi for oi, op in enumerate(ops) if enabled(cfg, base, op)]
        base.close()
        for oi in en:
            op = ops[oi]
            ex = replay_history(cfg, hops)
            rec = ex.apply(op)
            res.count('transitions')
            res.count('executions')
            res.count('op_invocations', len(hops) + 1)
            bad = judge(ex, rec, res.tally)
            witnesses(ex, rec, res.witness)
            if bad:
                for sig, what in bad:
                    viols.append((len(h) + 1, h + (oi,), sig, what))
            else:
                fd, td = ex.digests(rec.snap)
                if fd == src_fd:
                    res.count('self_loops')
                else:
                    succ.append((hi, oi, fd, td))
                res.setmax('buckets', len(rec.snap))
                res.setmax('contacts_in_table', len(rec.after))
            ex.close()
    with open(outpath, 'wb') as f:
        pickle.dump((succ, viols), f, protocol=4)


def w_query(item, res):
    """State oracle (get_peer, closest-K) on one witness history per distinct table configuration."""
    cfg, hists, outpath = item
    ops = cfg_ops(cfg)
    viols = []

    def ce():
        res.count('evaluations')
    for h in hists:
        hops = [ops[i] for i in h]
        ex = replay_history(cfg, hops)
        res.count('executions')
        res.count('query_states')
        for sig, what in state_oracle(ex, ce):
            viols.append((len(h), h, sig, what))
        ex.close()
    with open(outpath, 'wb') as f:
        pickle.dump(([], viols), f, protocol=4)


def w_item(item, res):
    kind = item[0]
    if kind == 'X':
        w_expand(item[1:], res)
    elif kind == 'Q':
        w_query(item[1:], res)
    elif kind == 'R':
        w_real(item[1:], res)
    else:
        raise AssertionError(kind)


# ------------------------------------------------------------------------------------------------
# part R: real K = 8, bounded-deviation histories

R_CLASSES = [(0, 10), (1, 10), (2, 10), (3, 1), (4, 1)]   # (prefix length, contacts)


def real_contacts(own_hex):
    """5 prefix classes: 3 x 10 contacts over the bucket boundaries, 2 singleton classes (a bucket that one
    removal empties so that both neighbours absorb it); plus 3 same-address/new-id and 3 same-id/new-address
    newcomers."""
    o = int(own_hex, 16)
    cs = []
    for c, n in R_CLASSES:
        base = 2 ** (383 - c)
        offs = [0, 1, base - 1, base // 2, base // 2 - 1, base // 4, 3 * (base // 4), 3 * (base // 4) - 1, 2,
                base // 2 + 1][:n]
        for j, off in enumerate(offs):
            cs.append((i2b(o ^ (base + off)).hex(), f'2.{c}.0.{j + 1}', PORT))
    first = {c: sum(n for _, n in R_CLASSES[:k]) for k, (c, _) in enumerate(R_CLASSES)}
    for c in (0, 1, 2):
        base = 2 ** (383 - c)
        cs.append((i2b(o ^ (base + 77)).hex(), f'2.{c}.0.1', PORT))          # new id at first contact's address
    for c in (0, 1, 2):
        cs.append((cs[first[c]][0], f'2.{c}.9.9', PORT))                      # first contact's id, new address
    return cs


def real_default(contacts):
    """default fill order: round robin over the three big classes, the two singletons after round 3"""
    order = []
    idx = {}
    k = 0
    for c, n in R_CLASSES:
        idx[c] = list(range(k, k + n))
        k += n
    for j in range(10):
        for c in (0, 1, 2):
            order.append(('add', idx[c][j], 'a'))
        if j == 3:
            order.append(('add', idx[3][0], 'a'))
            order.append(('add', idx[4][0], 'a'))
    return order, idx


def real_edits(contacts, default, idx, thorough):
    """single edits of the default history: (position, kind, op).  kind: 'sub' replace op at position,
    'del' delete it, 'ins' insert before position (position == len(default): append)."""
    edits = []
    n = len(default)
    nreal = sum(k for _, k in R_CLASSES)
    addrs = addresses_of(contacts)
    for pos in range(n + 1):
        if pos < n:
            op = default[pos]
            edits.append((pos, 'sub', ('add', op[1], 't')))
            if thorough:
                edits.append((pos, 'sub', ('add', op[1], 'e')))
            edits.append((pos, 'del', None))
        added = [o[1] for o in default[:pos]]
        ins = []
        for c in (0, 1, 2, 3, 4):
            mine = [i for i in added if i in idx[c]]
            if mine:
                ins.append(('rm', mine[0]))
                if mine[-1] != mine[0]:
                    ins.append(('rm', mine[-1]))
                a = addrs.index((contacts[mine[0]][1], contacts[mine[0]][2]))
                ins.append(('rep', a))
                ins.append(('fail', a))
        ins += [('clk', 61), ('clk', 721)]
        for i in range(nreal, len(contacts)):
            ins.append(('add', i, 'a'))
            if thorough:
                ins.append(('add', i, 't'))
        for o in ins:
            edits.append((pos, 'ins', o))
    return edits


def apply_edits(default, edits):
    """edits sorted by position; at most one edit per position class is combined"""
    out = []
    by_pos = collections.defaultdict(list)
    for e in edits:
        by_pos[e[0]].append(e)
    for pos in range(len(default) + 1):
        cur = default[pos] if pos < len(default) else None
        for _, kind, op in by_pos.get(pos, ()):
            if kind == 'ins':
                out.append(op)
        subs = [e for e in by_pos.get(pos, ()) if e[1] in ('sub', 'del')]
        if subs:
            kind, op = subs[-1][1], subs[-1][2]
            cur = op if kind == 'sub' else None
        if cur is not None:
            out.append(cur)
    return out


def run_real_history(cfg, hist_ops, res, query_every_step=False):
    """full oracle after every operation -> list of (step, sig, what)"""
    ex = Exec(cfg['K'], cfg['own'], cfg_contacts(cfg))
    viols = []

    def ce():
        res.count('evaluations')
    for step, op in enumerate(hist_ops):
        rec = ex.apply(op)
        res.count('transitions')
        res.count('op_invocations')
        bad = judge(ex, rec, res.tally)
        witnesses(ex, rec, lambda n: res.witness('k8_' + n))
        if not bad and (query_every_step or step == len(hist_ops) - 1):
            bad = state_oracle(ex, ce)
            res.count('query_states')
        if bad:
            viols = [(step + 1, sig, what) for sig, what in bad]
            break
        res.setmax('k8_buckets', len(rec.snap))
        res.setmax('k8_contacts_in_table', len(rec.after))
    res.count('executions')
    ex.close()
    return viols


def w_real(item, res):
    cfg, edit_sets, outpath = item
    contacts = cfg_contacts(cfg)
    default, idx = real_default(contacts)
    viols = []
    for es in edit_sets:
        hist = apply_edits(default, es)
        bad = run_real_history(cfg, hist, res, query_every_step=len(es) <= 1)
        res.distinct_add('k8_histories', (cfg['own'], tuple(hist)))
        for step, sig, what in bad:
            viols.append((step, tuple(hist[:step]), sig, what))
    with open(outpath, 'wb') as f:
        pickle.dump(([], viols), f, protocol=4)


# ------------------------------------------------------------------------------------------------
# parent

def _chunks(seq, n):
    for i in range(0, len(seq), n):
        yield seq[i:i + n]


def scaled_configs(ctx):
    """(K, own id, depth, alphabet).  Two alphabets: 'full' = every operation of the design; 'table' = add /
    re-add / remove with the three probe outcomes only (no liveness reports, no clock) explored deeper."""
    q = ctx.quick
    cfgs = []
    for K in (2, 3):
        for oi, own in enumerate(OWN_IDS):
            main = oi == 2          # the sha384 own id carries the deepest bound (ids != distances there)
            if q:
                d_full, d_table = (4 if main else 3), (4 if main else 4)
            else:
                d_full = (5 if main else 4)
                d_table = (6 if K == 2 else 5) if main else 5
            cfgs.append({'name': f'K{K}-own{oi}-full', 'K': K, 'own': own, 'env': True, 'reports': 'members',
                         'depth': d_full})
            cfgs.append({'name': f'K{K}-own{oi}-table', 'K': K, 'own': own, 'env': False, 'depth': d_table})
    return cfgs


def run(ctx):
    from vf.bootstrap import scratch_dir
    from refs import routing_ref as ref
    ref.selftest()
    scratch = scratch_dir('c11')
    try:
        _run(ctx, scratch)
    finally:
        shutil.rmtree(scratch, ignore_errors=True)


def _run(ctx, scratch):
    res = ctx.res
    cfgs = scaled_configs(ctx)
    chunk = 24 if ctx.quick else 48
    state = {}
    for ci, cfg in enumerate(cfgs):
        ex = Exec(cfg['K'], cfg['own'], cfg_contacts(cfg))
        fd, td = ex.digests()
        ex.close()
        state[ci] = {'seen': {fd}, 'tables': {td}, 'frontier': [()], 'newtables': [()], 'levels': [1],
                     'first': (), 'last': ()}
    all_viols = []       # (length, cfg index, history, sig, what, part)
    counter = [0]

    def outpath():
        counter[0] += 1
        return os.path.join(scratch, f'o{counter[0]}.pkl')

    maxdepth = max(c['depth'] for c in cfgs)
    # part R items ride along with the first BFS round
    real_items, real_meta = real_items_for(ctx, outpath)
    for level in range(maxdepth + 1):
        items = []
        for ci, cfg in enumerate(cfgs):
            st = state[ci]
            if level < cfg['depth'] and st['frontier']:
                for part in _chunks(st['frontier'], chunk):
                    items.append(('X', cfg, part, outpath(), ci))
            if st['newtables']:
                for part in _chunks(st['newtables'], 8):
                    items.append(('Q', cfg, part, outpath(), ci))
                st['newtables'] = []
        if level == 0:
            items += real_items
        if not items:
            break
        ctx.pmap(w_item_wrapped, [it[:4] for it in items])
        new_frontier = {ci: [] for ci in state}
        for it in items:
            kind, cfg, part, path, ci = it
            with open(path, 'rb') as f:
                succ, viols = pickle.load(f)
            os.remove(path)
            for ln, h, sig, what in viols:
                all_viols.append((ln, ci if kind != 'R' else len(cfgs) + ci, h, sig, what, kind, cfg))
            if kind != 'X':
                continue
            st = state[ci]
            for hi, oi, fd, td in succ:
                if fd in st['seen']:
                    continue
                st['seen'].add(fd)
                nh = part[hi] + (oi,)
                new_frontier[ci].append(nh)
                if td not in st['tables']:
                    st['tables'].add(td)
                    st['newtables'].append(nh)
        for ci, st in state.items():
            if level < cfgs[ci]['depth']:
                st['frontier'] = new_frontier[ci]
                st['levels'].append(len(new_frontier[ci]))
                if new_frontier[ci]:
                    st['last'] = new_frontier[ci][-1]
                    if not st['first']:
                        st['first'] = new_frontier[ci][0]
            else:
                st['frontier'] = []

    # ---- bookkeeping -----------------------------------------------------------------------------
    total_states = 0
    per_cfg = {}
    for ci, cfg in enumerate(cfgs):
        st = state[ci]
        total_states += len(st['seen'])
        per_cfg[cfg['name']] = {'depth': cfg['depth'], 'states': len(st['seen']), 'tables': len(st['tables']),
                                'states_per_level': st['levels']}
        for td in st['tables']:
            res.distinct_add('nontrivial', (cfg['name'], td))
    res.count('states', total_states)

    # violations: simplest first, so that the kept representative of every signature is the shortest
    all_viols.sort(key=lambda v: (v[0], v[1], repr(v[2])))
    reported = set()
    for ln, ci, h, sig, what, kind, cfg in all_viols:
        hops = history_ops(cfg, h, kind)
        res.violation(sig, f'[{cfg["name"]}] after {len(hops)} op(s) {fmt_ops(hops)}: {what}',
                      replay_data(cfg, hops, kind))
        reported.add(repr(sig))

    # determinism self-check: first, last and every violating history (first of each signature) twice
    todo = []
    for ci, cfg in enumerate(cfgs):
        st = state[ci]
        for h in (st['first'], st['last']):
            todo.append((cfg, history_ops(cfg, h, 'X')))
    seen_sig = set()
    for ln, ci, h, sig, what, kind, cfg in all_viols:
        if repr(sig) not in seen_sig:
            seen_sig.add(repr(sig))
            todo.append((cfg, history_ops(cfg, h, kind)))
    for cfg, hops in todo[:64]:
        a = observe(cfg, hops)
        b = observe(cfg, hops)
        res.count('determinism_replays', 2)
        if a != b:
            res.error(f'determinism self-check failed for {cfg["name"]} {hops}')

    # samples: 3 shortest + 3 longest traces
    main = max(range(len(cfgs)), key=lambda i: len(state[i]['seen']))
    for cfg, hops in todo[:3]:
        res.sample({'config': cfg['name'], 'history': fmt_ops(hops), 'observation': observe(cfg, hops)[-1]})
    for ci in sorted(state, key=lambda i: -cfgs[i]['depth'])[:3]:
        if state[ci]['last']:
            hops = history_ops(cfgs[ci], state[ci]['last'], 'X')
            res.sample({'config': cfgs[ci]['name'], 'history': fmt_ops(hops),
                        'observation': observe(cfgs[ci], hops)[-1]}, force=True)

    bounds = {'scaled': {c['name']: c['depth'] for c in cfgs}, 'real_K8': real_meta}
    ctx.meta.update(
        rule=('S: every history of length <= depth over the operation alphabet (13 contacts x add with probe '
              'outcome alive/timeout/remote-error, remove, report_last_replied / report_failure per address of a '
              'current member, clock +61 s / +721 s), deduplicated on the canonical state (bucket ranges, ordered '
              'bucket contents, liveness-record ages); two alphabets per (K, own id): full and table-only '
              '(deeper). Q: every distinct table configuration reached x (every alphabet id, +-1) keys x counts '
              '{None,1,K,K+1} x senders {none, every member, one non-member}. R: K=8 default fill (32 adds over 5 '
              'prefix classes) and every history within d single-operation edits of it. Non-trivial/distinct = '
              'distinct table configurations (bucket ranges + ordered contents) per configuration.'),
        exhaustive=True,
        bounds=bounds,
        bound_completed={'per_config': per_cfg, 'real_K8': real_meta},
        assumptions=[
            'routing-table operations are sequential (KademliaProtocol serialises them under _split_lock); '
            'the probe is a coroutine that suspends once and then answers alive / TimeoutError / RemoteException '
            'for whichever contact is pinged',
            'liveness reports are issued only for addresses that currently have a table member (reports about '
            'non-members commute with every operation up to the next add of that contact)',
            'virtual clock starts at 1e6 s (a real monotonic clock is never 0.0); time passes only through the '
            'clock operations (+61 s crosses the 60 s "recently replied" window, +721 s crosses '
            'CHECK_REFRESH_INTERVAL = 720 s)',
            'K scaled to 2 and 3 (the code reads K only through len()/slice comparisons); real K = 8 is covered '
            'by bounded-deviation histories only',
            'interpretation: a same-id add from a new address is a contact update, not a newcomer; a newcomer '
            'may displace the contact that holds its own address; find_close_peers(count=n) is held to the n '
            'nearest (count=None: K)',
            'ordinary (non-bootstrap) node: is_bootstrap_node=False',
        ],
        expected_witnesses=['split', 'join', 'join_both_neighbours', 'ping_eviction', 'ping_eviction_remote_error',
                            'ping_alive_newcomer_refused', 'refused_without_probe_recent_reply', 're_add',
                            'same_id_new_address_update', 'same_address_purge', 'remove_member',
                            'k8_split', 'k8_join', 'k8_join_both_neighbours', 'k8_ping_eviction'],
    )


def w_item_wrapped(item, res):
    w_item(item, res)


def real_items_for(ctx, outpath):
    thorough = not ctx.quick
    items = []
    meta = {'K': 8, 'default_history_ops': None, 'max_edits': 2 if thorough else 1, 'histories': 0,
            'own_ids': 3 if ctx.quick else 3}
    for oi, own in enumerate(OWN_IDS):
        contacts = real_contacts(own)
        cfg = {'name': f'K8-own{oi}', 'K': 8, 'own': own, 'contacts': contacts}
        default, idx = real_default(contacts)
        meta['default_history_ops'] = len(default)
        edits = real_edits(contacts, default, idx, thorough)
        sets = [()] + [(e,) for e in edits]
        if thorough and oi == 2:
            for i, e1 in enumerate(edits):
                for e2 in edits[i + 1:]:
                    if e1[0] == e2[0] and e1[1] != 'ins' and e2[1] != 'ins':
                        continue     # two replacements of the same operation = one replacement
                    sets.append((e1, e2))
        meta['histories'] += len(sets)
        meta.setdefault('single_edits', len(edits))
        for part in _chunks(sets, 400 if thorough else 60):
            items.append(('R', cfg, part, outpath(), oi))
    return items, meta


def history_ops(cfg, h, kind):
    if kind == 'R':
        return [tuple(o) for o in h]
    ops = cfg_ops(cfg)
    return [ops[i] for i in h]


def fmt_ops(hops):
    out = []
    for o in hops:
        if o[0] == 'add':
            out.append(f'add(c{o[1]},{ {"a": "alive", "t": "timeout", "e": "error"}[o[2]] })')
        elif o[0] == 'rm':
            out.append(f'rm(c{o[1]})')
        elif o[0] == 'clk':
            out.append(f'clk(+{o[1]})')
        else:
            out.append(f'{o[0]}(addr{o[1]})')
    return ' '.join(out)


def observe(cfg, hops):
    """observation log of one history (for the determinism self-check, samples and replays)"""
    ex = Exec(cfg['K'], cfg['own'], cfg_contacts(cfg))
    log = []
    for op in hops:
        rec = ex.apply(op)
        log.append(f'{fmt_ops([op])} -> result={rec.result!r} exc={type(rec.exc).__name__ if rec.exc else None} '
                   f'probed={[ex.index[p] for p in rec.probed]} '
                   f'buckets={[(hex(lo)[:9], hex(hi)[:9], [ex.index[p] for p in ps]) for lo, hi, ps in rec.snap]}')
        if rec.exc is not None:
            break
    ex.close()
    return log or ['(empty history)']


def replay(data):
    from vf.core import Result
    cfg = {'name': 'replay', 'K': int(data['K']), 'own': data['own'],
           'contacts': [tuple(c) for c in data['contacts']]}
    hops = [tuple(o) for o in data['ops']]
    res = Result()
    ex = Exec(cfg['K'], cfg['own'], cfg_contacts(cfg))
    log = [f"K={cfg['K']} own={cfg['own'][:12]}.. contacts: distance from own id / address"]
    o = int(cfg['own'], 16)
    for i, (n, a, p) in enumerate(cfg['contacts']):
        log.append(f'  c{i}: d={hex(int(n, 16) ^ o)} @ {a}:{p}')
    bad = []
    for step, op in enumerate(hops):
        rec = ex.apply(op)
        log.append(f'{step + 1}. ' + fmt_ops([op]) + f' -> result={rec.result!r} '
                   f'exc={rec.exc!r} probed={[ex.index[p] for p in rec.probed]}')
        for lo, hi, ps in rec.snap:
            log.append(f'      [{hex(lo)}, {hex(hi)}) {[ex.index[p] for p in ps]}')
        bad = judge(ex, rec, res.tally)
        if not bad:
            bad = state_oracle(ex, lambda: None)
        if bad:
            break
    ex.close()
    for sig, what in bad:
        log.append(f'VIOLATED: {what}   signature={sig}')
    return bool(bad), '\n'.join(log)
