"""C11 - the DHT routing table stays a well-formed Kademlia tree; closest-K is exact.

Explicit-state breadth-first search over operation histories, executed on the real
TreeRoutingTable / KBucket / PeerManager under the virtual loop (loop time is virtual, the liveness probe
is a coroutine whose outcome is part of the operation).  Four parts:

  S  scaled K in {2, 3} (constants.K patched, KBucket replaced by a subclass that reads the capacity at
     run time), level-synchronous BFS with canonical-state hashing; the frontier of every level is
     expanded in worker processes (ctx.pmap), canonical forms are deduplicated in the parent.
  Q  for every distinct table configuration reached by S: get_peer for every alphabet id and
     find_close_peers(key, count, sender) against the brute-force reference (refs/routing_ref.py).
  R  real K = 8: a default fill history (5 prefix classes, 32 adds), every history within d single-operation
     edits of it (d = 1 quick, 2 thorough) and the scaled counterexamples lifted to K = 8; the full oracle
     after every operation.
  P  second operation at the probe suspension point (K = 2): add_peer(newcomer) is held inside probe(to_replace)
     (the probe awaits a Future the harness owns); one complete second operation runs meanwhile (add of every
     alphabet contact incl. new ids at the newcomer's address and the newcomer itself, probe alive / timeout;
     remove of every member, incl. the probed contact), then the probe answers alive / timeout / remote error
     and the final table is judged by the structural invariant.  Kinds the unchanged tree violates in this
     family (P_OBSERVE_ONLY) are tallied, not reported.

A state is the history that reaches it: every frontier history is replayed from scratch on fresh real objects
(and must reproduce the canonical digest under which it was discovered); its successors are computed on deep
copies of those real objects (replaying contacts that differ only in their lowest bits costs ~400 splits per
replay).  The canonical form is (bucket ranges, bucket contents in order, per-address liveness-record ages
relative to now), ages above CHECK_REFRESH_INTERVAL collapsed (no branch of the code distinguishes them).
Every reported violation is re-confirmed by a from-scratch execution of its history.
"""
import os
import copy
import asyncio
import hashlib
import pickle
import shutil
import collections

PROPERTY = 'C11'
LEVEL = 'model_checking'
HASHSEEDS = {'quick': 1, 'thorough': 1}

BITS = 384
FULL = 2 ** BITS
PORT = 4444
T0 = 1_000_000.0          # virtual start time; a real loop clock is never 0.0 (0.0 is falsy in the code)
MID = 2 ** 382 + 2 ** 381  # midpoint of the bucket [2^382, 2^383)

# contact distances from the own id: prefix lengths 0,1,2,382,383 and the exact bucket boundaries
DISTS = [2 ** 383, 2 ** 383 + 1, 2 ** 384 - 1, 2 ** 382, MID - 1, MID, 2 ** 383 - 1, 2 ** 381, 1, 2]

OWN_IDS = ['00' * 48, 'ff' * 48, hashlib.sha384(b'C11').hexdigest()]


def i2b(n):
    return n.to_bytes(BITS // 8, 'big')


def b2i(b):
    return int.from_bytes(b, 'big')


def contacts_for(own_hex):
    """The contact alphabet for one own id: [(node_id_hex, address, port)]."""
    o = int(own_hex, 16)
    cs = [(i2b(o ^ d).hex(), f'1.2.3.{i + 1}', PORT) for i, d in enumerate(DISTS)]
    cs[9] = (cs[9][0], cs[8][1], PORT + 1)                         # 9: contact 8's IP, another port
    cs.append((i2b(o ^ (2 ** 383 + 5)).hex(), '1.2.3.1', PORT))   # 10: new id at contact 0's address
    cs.append((cs[0][0], '1.2.9.9', PORT))                         # 11: contact 0's id at a new address
    cs.append((cs[1][0], '1.2.3.4', PORT))                         # 12: contact 1's id at contact 3's address
    return cs


def addresses_of(contacts):
    out = []
    for _, a, p in contacts:
        if (a, p) not in out:
            out.append((a, p))
    return out


def ops_for(contacts, env=True):
    """The operation alphabet, simplest first.  ('add', i, outcome) outcome in a(live) t(imeout) e(rror);
    ('rm', i); ('rep', a) report_last_replied; ('fail', a) report_failure; ('repall',) report_last_replied for
    every current member (a refresh round that everybody answered); ('clk', seconds)."""
    n = len(contacts)
    ops = [('add', i, 'a') for i in range(n)]
    ops += [('rm', i) for i in range(n)]
    ops += [('add', i, 't') for i in range(n)]
    ops += [('add', i, 'e') for i in range(n)]
    if env:
        na = len(addresses_of(contacts))
        ops += [('rep', a) for a in range(na)]
        ops += [('fail', a) for a in range(na)]
        ops += [('repall',), ('clk', 61), ('clk', 721)]
    return ops


# ------------------------------------------------------------------------------------------------
# installing the scale (no wrapper is put around any routing-table method: add_peer / _join_buckets recurse
# once per split / per joined bucket, up to 2 x 383 frames for contacts that differ only in their lowest bits,
# and an extra frame per level would push the real code over the interpreter's recursion limit)

_INST = {}
EVENTS = collections.Counter()


def install(K):
    from lbry.dht import constants
    from lbry.dht.protocol import routing_table as rt
    constants.K = K
    if _INST:
        return
    base = rt.KBucket

    class ScaledKBucket(base):
        def __init__(self, peer_manager, range_min, range_max, node_id, capacity=None):
            super().__init__(peer_manager, range_min, range_max, node_id,
                             constants.K if capacity is None else capacity)
    rt.KBucket = ScaledKBucket
    _INST['done'] = True
    _watch(rt.TreeRoutingTable)


def _watch(T):
    """Count split / join events for the coverage witnesses with sys.monitoring (PY_START on the two code
    objects): the callback runs and returns before the function body starts, so it never adds a frame to the
    recursion of the code under test and cannot change its behaviour."""
    import sys
    mon = getattr(sys, 'monitoring', None)
    split = getattr(getattr(T, '_split_bucket', None), '__code__', None)
    join = getattr(getattr(T, '_join_buckets', None), '__code__', None)
    if mon is None or split is None or join is None:
        return
    tool = 4
    try:
        mon.use_tool_id(tool, 'c11-witness')
    except ValueError:
        return

    def on_start(code, offset):
        try:
            if code is split:
                EVENTS['split'] += 1
            elif code is join:
                bs = sys._getframe(1).f_locals['self'].buckets
                n = len(bs)
                if n > 1:
                    for i, b in enumerate(bs):
                        if len(b.peers) == 0:
                            EVENTS['join'] += 1
                            if 0 < i < n - 1:
                                EVENTS['join_both_neighbours'] += 1
                            break
        except Exception:   # noqa - a witness counter must never disturb the execution
            pass
    mon.register_callback(tool, mon.events.PY_START, on_start)
    mon.set_local_events(tool, split, mon.events.PY_START)
    mon.set_local_events(tool, join, mon.events.PY_START)


_PEER_CACHE = {}


def peers_for(contacts):
    key = tuple(contacts)
    ps = _PEER_CACHE.get(key)
    if ps is None:
        from lbry.dht.peer import KademliaPeer
        ps = [KademliaPeer(a, bytes.fromhex(n), p, None) for n, a, p in contacts]
        _PEER_CACHE[key] = ps
    return ps


Rec = collections.namedtuple('Rec', 'op before after snap result exc probed events')


class Exec:
    """One execution: fresh loop, PeerManager and TreeRoutingTable; operations applied one at a time."""

    def __init__(self, K, own_hex, contacts):
        from vf.vloop import VLoop
        from lbry.dht.peer import PeerManager
        from lbry.dht.protocol import routing_table as rt
        install(K)
        self.K = K
        self.own = bytes.fromhex(own_hex)
        self.contacts = contacts
        self.peers = peers_for(contacts)
        self.index = {p: i for i, p in enumerate(self.peers)}
        self.addrs = addresses_of(contacts)
        self.loop = VLoop().activate()
        self.vtime = T0
        self.loop._vtime = T0
        self.pm = PeerManager(self.loop)
        self.table = rt.TreeRoutingTable(self.loop, self.pm, self.own)
        # mirror of the liveness records, kept by the harness from the history alone
        self.replied = {}
        self.failures = {}
        self.forked = False

    def close(self):
        if not self.forked:
            self.loop.shutdown()

    def fork(self):
        """Deep copy of the real objects (table, buckets, peer manager); the loop and the immutable contact
        objects are shared.  Forks of one base must be used one after the other (they share the loop)."""
        memo = {id(self.loop): self.loop}
        for p in self.peers:
            memo[id(p)] = p
        f = object.__new__(Exec)
        f.__dict__.update(self.__dict__)
        f.table, f.pm = copy.deepcopy((self.table, self.pm), memo)
        f.replied = dict(self.replied)
        f.failures = dict(self.failures)
        f.forked = True
        return f

    # -- observation ---------------------------------------------------------------------------
    def snapshot(self):
        return [(b.range_min, b.range_max, list(b.peers)) for b in self.table.buckets]

    @staticmethod
    def members_of(snap):
        return [p for _, _, ps in snap for p in ps]

    def table_canon(self, snap=None):
        snap = self.snapshot() if snap is None else snap
        ix = self.index
        return tuple((lo, hi, tuple(ix[p] for p in ps)) for lo, hi, ps in snap)

    def pm_canon(self):
        now = self.vtime
        out = []
        for a in self.addrs:
            r = self.replied.get(a)
            f = self.failures.get(a)
            if r is None and f is None:
                out.append(None)
                continue
            ar = None if r is None else now - r
            af = None if f is None else now - f[1]
            order = None if (ar is None or af is None) else (ar > af) - (ar < af)
            out.append((None if ar is None else min(ar, 721.0), None if af is None else min(af, 721.0),
                        bool(f and f[0] is not None), order))
        return tuple(out)

    def digests(self, snap=None):
        """-> (digest of the full canonical state, digest of the table configuration = bucket ranges and
        bucket member sets, which is all the query oracle can depend on)"""
        tc = self.table_canon(snap)
        qc = tuple((lo, hi, tuple(sorted(ix))) for lo, hi, ix in tc)
        td = hashlib.blake2b(repr(qc).encode(), digest_size=12).digest()
        fd = hashlib.blake2b(repr((tc, self.pm_canon())).encode(), digest_size=16).digest()
        return fd, td

    # -- operations ----------------------------------------------------------------------------
    def apply(self, op):
        from vf.vloop import Deadlock, Horizon
        from lbry.dht.error import RemoteException
        kind = op[0]
        if kind not in ('add', 'rm', 'rep', 'fail', 'repall', 'clk'):
            raise ValueError(f'unknown op {op!r}')
        loop = self.loop
        loop._vtime = self.vtime
        before = self.members_of(self.snapshot())
        EVENTS.clear()
        result, exc, probed = None, None, []
        try:
            if kind == 'add':
                outcome = op[2]

                async def probe(peer):
                    probed.append(peer)
                    await asyncio.sleep(0)
                    if outcome == 't':
                        raise asyncio.TimeoutError()
                    if outcome == 'e':
                        raise RemoteException('remote error')
                result = loop.run(self.table.add_peer(self.peers[op[1]], probe), max_steps=100000)
            elif kind == 'rm':
                self.table.remove_peer(self.peers[op[1]])
            elif kind == 'rep':
                a = self.addrs[op[1]]
                self.pm.report_last_replied(*a)
                self.replied[a] = loop.time()
            elif kind == 'fail':
                a = self.addrs[op[1]]
                self.pm.report_failure(*a)
                prev = self.failures.get(a)
                self.failures[a] = (prev[1] if prev else None, loop.time())
            elif kind == 'repall':
                for p in before:
                    self.pm.report_last_replied(p.address, p.udp_port)
                    self.replied[(p.address, p.udp_port)] = loop.time()
            else:
                loop.advance(op[1])
        except (Deadlock, Horizon):
            raise                # the harness, not the property
        except Exception as e:   # noqa - judged by the property ("no exception from any operation")
            exc = e
            loop._ready.clear()
        self.vtime = loop._vtime
        snap = self.snapshot()
        return Rec(op, before, self.members_of(snap), snap, result, exc, probed, dict(EVENTS))


# ------------------------------------------------------------------------------------------------
# oracle

def _small(n, lim=8):
    return n if -lim <= n <= lim else ('big+' if n > 0 else 'big-')


def structural(snap, own, K):
    """cover exactly once, placement, capacity, id and address uniqueness -> [(signature, what)]"""
    from refs import routing_ref as ref
    out = []
    ranges = [(lo, hi) for lo, hi, _ in snap]
    d = ref.cover_defect(ranges, BITS)
    if d is not None:
        out.append(({'kind': 'cover', 'defect': d[0], 'size': _small(d[1])},
                    f'buckets do not cover the distance space exactly once: {d[0]} of {_small(d[1], 10 ** 6)} '
                    f'after bucket {d[2]} of {len(ranges)}'))
    o = b2i(own)
    ids, ads = [], []
    for bi, (lo, hi, ps) in enumerate(snap):
        if len(ps) > K:
            out.append(({'kind': 'capacity', 'excess': len(ps) - K},
                        f'bucket {bi} holds {len(ps)} contacts, K = {K}'))
        for p in ps:
            dist = b2i(p.node_id) ^ o
            if not lo <= dist < hi:
                side = 'below' if dist < lo else 'above'
                off = (lo - dist) if dist < lo else (dist - hi + 1)
                out.append(({'kind': 'placement', 'side': side, 'off': _small(off)},
                            f'contact at distance {hex(dist)[:14]}.. sits in bucket {bi} '
                            f'[{hex(lo)[:12]}.., {hex(hi)[:12]}..) ({side} by {_small(off, 10 ** 6)})'))
            ids.append(p.node_id)
            ads.append((p.address, p.udp_port))
    if len(ids) != len(set(ids)):
        out.append(({'kind': 'dup-id'}, 'a node id appears twice in the table'))
    if len(ads) != len(set(ads)):
        out.append(({'kind': 'dup-address'}, 'an (address, port) appears twice in the table'))
    return out


def judge(ex, rec, tally):
    """Oracle for one transition -> [(signature, what)]; tally(name) records interpretation-only facts."""
    from refs import routing_ref as ref
    op = rec.op
    kind = op[0]
    if rec.exc is not None:
        return [({'kind': 'exception', 'op': kind, 'type': type(rec.exc).__name__},
                 f'{kind} raised {type(rec.exc).__name__}: {str(rec.exc)[:80]}')]
    out = structural(rec.snap, ex.own, ex.K)
    if out:
        return out
    before, after = rec.before, rec.after
    bset, aset = set(before), set(after)
    if kind == 'add':
        new = ex.peers[op[1]]
        outcome = op[2]
        r = rec.result
        naddr = (new.address, new.udp_port)
        same_addr = [p for p in before if (p.address, p.udp_port) == naddr and p.node_id != new.node_id]
        same_id = [p for p in before if p.node_id == new.node_id]
        known = [p for p in before if p not in same_addr]
        lost = [p for p in known if p not in aset and p.node_id != new.node_id]
        shape = ('update' if same_id else 'new-id') + ('-same-addr' if same_addr else '-new-addr')
        # eviction: a contact that answers pings is never displaced by a newcomer at a different address
        if lost:
            if outcome == 'a':
                if not same_id:
                    out.append(({'kind': 'eviction', 'newcomer': shape,
                                 'probed': any(p in rec.probed for p in lost)},
                                f'add({shape}, every probe answered) displaced {len(lost)} live contact(s) '
                                f'at other addresses'))
                else:
                    tally('interpretation_only:update_displaced_live_contact')
            elif any(p not in rec.probed for p in lost):
                # The op's outcome says "every probe that is made fails"; a contact that was never probed
                # received no ping at all, so the environment in which it is alive and only the probed
                # contacts are dead is indistinguishable to the code and lies inside the quantifier (every
                # outcome of the liveness probe): a live contact was displaced without being asked.
                if not same_id:
                    out.append(({'kind': 'eviction', 'newcomer': shape, 'probed': False, 'unprobed_victim': True},
                                f'add({shape}) displaced {sum(1 for p in lost if p not in rec.probed)} contact(s) at '
                                f'other addresses that were never pinged (only the pinged contact failed)'))
                else:
                    tally('interpretation_only:update_displaced_unprobed_contact')
        # admission: closer than the K-th closest known contact (or fewer than K known) => admitted
        kth = ref.kth_closest_distance(ex.own, [p.node_id for p in known], ex.K)
        dnew = ref.xor_distance(ex.own, new.node_id)
        must = kth is None or dnew < kth
        if must and not (r is True and new in aset):
            if not same_id:
                out.append(({'kind': 'admission', 'newcomer': shape, 'probe': outcome,
                             'case': 'fewer-than-K-known' if kth is None else 'closer-than-kth',
                             'returned': repr(r), 'member_after': new in aset},
                            f'add({shape}) of a contact that must be admitted returned {r!r}, '
                            f'member afterwards: {new in aset}'))
            else:
                tally('interpretation_only:update_not_admitted')
        # return value consistent with membership
        if r is True and new not in aset:
            out.append(({'kind': 'return-value', 'returned': 'True', 'member_after': False, 'newcomer': shape},
                        'add returned True but the contact is not in the table'))
        elif r is False and new in aset and new not in bset:
            out.append(({'kind': 'return-value', 'returned': 'False', 'member_after': True, 'newcomer': shape},
                        'add returned False but the contact was inserted'))
        elif r is not True and r is not False:
            tally('interpretation_only:add_returned_non_bool')
        extra = [p for p in after if p not in bset and p != new]
        if extra:
            out.append(({'kind': 'spurious-member', 'op': 'add'}, 'add inserted a contact other than its argument'))
    elif kind == 'rm':
        gone = ex.peers[op[1]]
        if gone in aset:
            out.append(({'kind': 'remove', 'defect': 'still-member'}, 'removed contact is still in the table'))
        if any(p not in aset for p in before if p != gone):
            out.append(({'kind': 'remove', 'defect': 'lost-other'}, 'remove dropped another contact'))
        if any(p not in bset for p in after):
            out.append(({'kind': 'remove', 'defect': 'gained'}, 'remove inserted a contact'))
    else:
        if before != after:
            out.append(({'kind': 'env-changed-table', 'op': kind}, f'{kind} changed table membership'))
    return out


def witnesses(ex, rec, w):
    """non-vacuity facts of one transition; w(name)"""
    ev = rec.events
    for name in ('split', 'join', 'join_both_neighbours'):
        if ev.get(name):
            w(name)
    if ev.get('split', 0) >= 100:
        w('split_chain_100_deep')
    op = rec.op
    if op[0] == 'add' and rec.exc is None:
        new = ex.peers[op[1]]
        aset = set(rec.after)
        if rec.probed:
            if op[2] == 'a':
                w('ping_alive_newcomer_refused')
            elif any(p not in aset for p in rec.probed) and new in aset:
                w('ping_eviction' if op[2] == 't' else 'ping_eviction_remote_error')
        elif rec.result is False:
            w('refused_without_probe_recent_reply')
        if new in rec.before:
            w('re_add')
        elif any(p.node_id == new.node_id for p in rec.before):
            w('same_id_new_address_update')
        if any((p.address, p.udp_port) == (new.address, new.udp_port) and p.node_id != new.node_id
               for p in rec.before):
            w('same_address_purge')
        if len(rec.probed) > 1:
            w('multiple_probes_in_one_add')
    elif op[0] == 'rm' and rec.exc is None and ex.peers[op[1]] in rec.before:
        w('remove_member')


_KEYS_CACHE = {}


def query_keys(ex):
    ck = (ex.own, tuple(ex.contacts))
    keys = _KEYS_CACHE.get(ck)
    if keys is None:
        keys = []
        for n, _, _ in ex.contacts:
            x = int(n, 16)
            for k in (x - 1, x, x + 1):
                kb = i2b(k % FULL)
                if kb not in keys:
                    keys.append(kb)
        for kb in (ex.own, i2b(0), i2b(FULL - 1)):
            if kb not in keys:
                keys.append(kb)
        _KEYS_CACHE[ck] = keys
    return keys


def state_oracle(ex, count_eval, all_senders=True):
    """get_peer membership and closest-K exactness on the current state -> [(signature, what)]"""
    from refs import routing_ref as ref
    out = []
    K = ex.K
    table = ex.table
    members = ex.members_of(ex.snapshot())
    by_id = {p.node_id: p for p in members}
    # get_peer finds exactly the members
    probe_ids = []
    for n, _, _ in ex.contacts:
        b = bytes.fromhex(n)
        if b not in probe_ids:
            probe_ids.append(b)
    probe_ids.append(ex.own)
    name = {}
    for i, (n, _, _) in enumerate(ex.contacts):
        name.setdefault(bytes.fromhex(n), f'id(c{i})')
    name[ex.own] = 'own-id'

    def nm(b):
        return name.get(b, b.hex()[:10] + '..')
    for nid in probe_ids:
        count_eval()
        try:
            got = table.get_peer(nid)
        except Exception as e:   # noqa
            out.append(({'kind': 'exception', 'op': 'get_peer', 'type': type(e).__name__},
                        f'get_peer raised {type(e).__name__}: {str(e)[:80]}'))
            continue
        exp = by_id.get(nid)
        if got != exp or (got is not None and got.node_id != nid):
            out.append(({'kind': 'get-peer', 'expected_member': exp is not None, 'got_none': got is None},
                        f'get_peer({nm(nid)}) returned {got}, member: {exp}'))
    # closest-K
    ids = [p.node_id for p in members]
    non_members = [b for b in probe_ids if b not in by_id and b != ex.own]
    msend = ids if all_senders else ids[:1] + ids[-1:]
    senders = [(None, 'none')] + [(i, 'member') for i in msend] + [(b, 'non-member') for b in non_members[:1]]
    counts = [(None, 'None'), (1, '1'), (K, 'K'), (K + 1, 'K+1')]
    keys = query_keys(ex)
    for sender, sclass in senders:
        pool = [i for i in ids if i != ex.own and i != sender]
        for key in keys:
            full = ref.closest(pool, key, len(pool))
            for cnt, cclass in counts:
                count_eval()
                exp = full[:cnt or K]
                try:
                    res = table.find_close_peers(key, cnt, sender) if sender is not None or cnt is not None \
                        else table.find_close_peers(key)
                    got = [p.node_id for p in res]
                except Exception as e:   # noqa
                    out.append(({'kind': 'exception', 'op': 'find_close_peers', 'type': type(e).__name__},
                                f'find_close_peers raised {type(e).__name__}: {str(e)[:80]}'))
                    continue
                if got == exp and all(by_id.get(p.node_id) == p for p in res):
                    continue
                if got == exp:
                    defect = 'stale-object'
                elif sender is not None and sender in got:
                    defect = 'sender-included'
                elif ex.own in got:
                    defect = 'self-included'
                elif sorted(got) == sorted(exp):
                    defect = 'order'
                elif len(got) != len(exp):
                    defect = 'length'
                else:
                    defect = 'not-nearest'
                sig = {'kind': 'closest', 'defect': defect}
                if defect == 'length':
                    sig['count'] = cclass
                    sig['returned'] = 'more' if len(got) > len(exp) else 'fewer'
                out.append((sig,
                            f'find_close_peers(key={key.hex()[:6]}..{key.hex()[-4:]}, count={cnt}, '
                            f'sender={sclass if sender is None else nm(sender)}) returned '
                            f'{[nm(g) for g in got]}, nearest are {[nm(g) for g in exp]}'))
    return out


# ------------------------------------------------------------------------------------------------
# configurations, histories

_CFG_CACHE = {}


def cfg_contacts(cfg):
    c = cfg.get('contacts')
    if c is not None:
        return [tuple(x) for x in c]
    key = ('c', cfg['own'], cfg.get('real', False))
    if key not in _CFG_CACHE:
        _CFG_CACHE[key] = real_contacts(cfg['own']) if cfg.get('real') else contacts_for(cfg['own'])
    return _CFG_CACHE[key]


def cfg_ops(cfg):
    subset = tuple(cfg['subset']) if cfg.get('subset') else None
    key = ('o', cfg['own'], cfg.get('env', True), subset)
    if key not in _CFG_CACHE:
        contacts = cfg_contacts(cfg)
        ops = ops_for(contacts, env=cfg.get('env', True))
        if subset is not None:
            # a sub-alphabet: only the listed contacts and the reports about their addresses
            addrs = addresses_of(contacts)
            mine = {addrs.index((contacts[i][1], contacts[i][2])) for i in subset}
            ops = [o for o in ops if (o[0] in ('add', 'rm') and o[1] in subset)
                   or (o[0] in ('rep', 'fail') and o[1] in mine) or o[0] in ('repall', 'clk')]
        _CFG_CACHE[key] = ops
    return _CFG_CACHE[key]


def enabled(cfg, ex, op):
    """Alphabet restriction (a stated bound, not an oracle): liveness reports are issued only for addresses
    of current table members."""
    if cfg.get('reports') == 'members' and op[0] in ('rep', 'fail'):
        a = ex.addrs[op[1]]
        return any((p.address, p.udp_port) == a for b in ex.table.buckets for p in b.peers)
    return True


def replay_history(cfg, hist_ops):
    """fresh objects, the history applied; an exception inside a prefix is a harness error (violating states
    are never expanded)"""
    ex = Exec(cfg['K'], cfg['own'], cfg_contacts(cfg))
    for op in hist_ops:
        rec = ex.apply(op)
        if rec.exc is not None:
            ex.close()
            raise RuntimeError(f'prefix replay diverged: {op} raised {rec.exc!r}')
    return ex


def first_violations(cfg, hist_ops, res=None, queries='every', all_senders=True, wprefix=''):
    """Execute one history from scratch with the full oracle after every operation.
    -> (step, [(sig, what)]) of the first failing step, or (None, [])."""
    ex = Exec(cfg['K'], cfg['own'], cfg_contacts(cfg))
    try:
        for step, op in enumerate(hist_ops):
            rec = ex.apply(op)
            if res is not None:
                res.count('transitions')
                witnesses(ex, rec, lambda n: res.witness(wprefix + n))
            bad = judge(ex, rec, res.tally if res is not None else (lambda n: None))
            if not bad and (queries == 'every' or (queries == 'last' and step == len(hist_ops) - 1)):
                bad = state_oracle(ex, (lambda: res.count('evaluations')) if res is not None else (lambda: None),
                                   all_senders)
                if res is not None:
                    res.count('query_states')
            if bad:
                return step + 1, bad
            if res is not None and wprefix:
                res.setmax(wprefix + 'buckets', len(rec.snap))
                res.setmax(wprefix + 'contacts_in_table', len(rec.after))
        return None, []
    finally:
        ex.close()


def replay_data(cfg, hist_ops, part):
    return {'part': part, 'K': cfg['K'], 'own': cfg['own'], 'contacts': [list(c) for c in cfg_contacts(cfg)],
            'ops': [list(o) for o in hist_ops]}


def fmt_ops(hops):
    out = []
    for o in hops:
        if o[0] == 'add':
            out.append('add(c%d,%s)' % (o[1], {'a': 'alive', 't': 'timeout', 'e': 'error'}[o[2]]))
        elif o[0] == 'rm':
            out.append(f'rm(c{o[1]})')
        elif o[0] == 'clk':
            out.append(f'clk(+{o[1]})')
        elif o[0] == 'repall':
            out.append('repall()')
        else:
            out.append(f'{o[0]}(addr{o[1]})')
    return ' '.join(out)


def observe(cfg, hops):
    """observation log of one history (for the determinism self-check, samples and replays)"""
    ex = Exec(cfg['K'], cfg['own'], cfg_contacts(cfg))
    log = []
    for op in hops:
        rec = ex.apply(op)
        log.append(f'{fmt_ops([op])} -> result={rec.result!r} exc={type(rec.exc).__name__ if rec.exc else None} '
                   f'probed={[ex.index[p] for p in rec.probed]} '
                   f'buckets={[(hex(lo)[:9], hex(hi)[:9], [ex.index[p] for p in ps]) for lo, hi, ps in rec.snap]} '
                   f'digest={ex.digests(rec.snap)[0].hex()}')
        if rec.exc is not None:
            break
    ex.close()
    return log or ['(empty history)']


# ------------------------------------------------------------------------------------------------
# workers (part S and Q)

def w_expand(item, res):
    """Expand a chunk of frontier histories: every enabled operation applied to every history."""
    cfg, hists, outpath = item
    ops = cfg_ops(cfg)
    succ, viols = [], []
    for hi, (h, expect_fd) in enumerate(hists):
        hops = [ops[i] for i in h]
        base = replay_history(cfg, hops)
        res.count('scratch_replays')
        res.count('op_invocations', len(hops))
        src_fd, _ = base.digests()
        if expect_fd is not None and src_fd != expect_fd:
            res.error(f'{cfg["name"]}: history {fmt_ops(hops)} replayed from scratch reaches a different canonical '
                      f'state than the deep copy it was discovered on')
        for oi, op in enumerate(ops):
            if not enabled(cfg, base, op):
                continue
            ex = base.fork()
            rec = ex.apply(op)
            res.count('transitions')
            res.count('executions')
            res.count('op_invocations')
            bad = judge(ex, rec, res.tally)
            witnesses(ex, rec, res.witness)
            if bad:
                for sig, what in bad:
                    viols.append((len(h) + 1, h + (oi,), sig, what))
            else:
                fd, td = ex.digests(rec.snap)
                if fd == src_fd:
                    res.count('self_loops')
                else:
                    succ.append((hi, oi, fd, td))
                res.setmax('buckets', len(rec.snap))
                res.setmax('contacts_in_table', len(rec.after))
        base.close()
    with open(outpath, 'wb') as f:
        pickle.dump((succ, viols), f, protocol=4)


def w_query(item, res):
    """State oracle (get_peer, closest-K) on one witness history per distinct table configuration."""
    cfg, hists, outpath = item
    ops = cfg_ops(cfg)
    viols = []
    for h in hists:
        hops = [ops[i] for i in h]
        ex = replay_history(cfg, hops)
        res.count('scratch_replays')
        res.count('query_states')
        for sig, what in state_oracle(ex, lambda: res.count('evaluations')):
            viols.append((len(h), h, sig, what))
        ex.close()
    with open(outpath, 'wb') as f:
        pickle.dump(([], viols), f, protocol=4)


def w_item(item, res):
    import time
    kind = item[0]
    t0 = time.perf_counter()
    if kind == 'X':
        w_expand(item[1:], res)
    elif kind == 'Q':
        w_query(item[1:], res)
    elif kind == 'R':
        w_real(item[1:], res)
    else:
        raise AssertionError(kind)
    dt = time.perf_counter() - t0
    res.count(f'worker_ms_{kind}', int(dt * 1000))
    res.setmax(f'worker_item_max_s_{kind}', round(dt, 2))


# ------------------------------------------------------------------------------------------------
# part R: real K = 8, bounded-deviation histories

# (prefix length, contacts in the alphabet).  Classes 0, 2, 3 are filled with 10 contacts each; class 1 contributes
# ONE contact to the default history (a lone contact in a bucket between two populated neighbours: removing it makes
# both neighbours absorb the bucket) and its boundary contacts (midpoint, midpoint-1, ...) as newcomers; class 4 is a
# single contact next to the own id.
R_CLASSES = [(0, 10), (1, 5), (2, 10), (3, 10), (4, 1)]
R_BIG = (0, 2, 3)


def real_contacts(own_hex):
    """5 prefix classes with contacts on and around the bucket boundaries, plus 3 same-address/new-id and 3
    same-id/new-address newcomers (one per big class)."""
    o = int(own_hex, 16)
    cs = []
    for c, n in R_CLASSES:
        base = 2 ** (383 - c)
        offs = [0, 1, base - 1, base // 2, base // 2 - 1, base // 4, 3 * (base // 4), 3 * (base // 4) - 1, 2,
                base // 2 + 1][:n]
        for j, off in enumerate(offs):
            cs.append((i2b(o ^ (base + off)).hex(), f'2.{c}.0.{j + 1}', PORT))
    first = {c: sum(n for _, n in R_CLASSES[:k]) for k, (c, _) in enumerate(R_CLASSES)}
    for c in R_BIG:
        base = 2 ** (383 - c)
        cs.append((i2b(o ^ (base + 77)).hex(), f'2.{c}.0.1', PORT))          # new id at first contact's address
    for c in R_BIG:
        cs.append((cs[first[c]][0], f'2.{c}.9.9', PORT))                      # first contact's id, new address
    return cs


def real_classes():
    idx, k = {}, 0
    for c, n in R_CLASSES:
        idx[c] = list(range(k, k + n))
        k += n
    return idx, k


def real_default():
    """default fill order: round robin over the three big classes; the lone class-1 contact and the class-4
    contact after round 4"""
    idx, _ = real_classes()
    order = []
    for j in range(10):
        for c in R_BIG:
            order.append(('add', idx[c][j], 'a'))
        if j == 3:
            order.append(('add', idx[1][0], 'a'))
            order.append(('add', idx[4][0], 'a'))
    return order


def real_lifted():
    """the scaled counterexamples lifted to K = 8 (F5: a bucket between two populated neighbours is emptied;
    then the contact at distance midpoint-1 is added and looked up)"""
    idx, _ = real_classes()
    f5 = [('add', i, 'a') for i in idx[0][:8]] + [('add', i, 'a') for i in idx[2][:8]]
    f5 += [('add', idx[1][0], 'a'), ('rm', idx[1][0]), ('add', idx[1][4], 'a'), ('add', idx[1][3], 'a')]
    return [('lifted-F5', f5)]


def real_edits(contacts, default, thorough):
    """single edits of the default history: (position, kind, op).  kind: 'sub' replace the op at position,
    'del' delete it, 'ins' insert before position (position == len(default): append)."""
    idx, nreal = real_classes()
    edits = []
    n = len(default)
    addrs = addresses_of(contacts)
    for pos in range(n + 1):
        if pos < n:
            op = default[pos]
            edits.append((pos, 'sub', ('add', op[1], 't')))
            if thorough:
                edits.append((pos, 'sub', ('add', op[1], 'e')))
            edits.append((pos, 'del', None))
        added = [o[1] for o in default[:pos]]
        ins = []
        for c in (0, 1, 2, 3, 4):
            mine = [i for i in added if i in idx[c]]
            if mine:
                ins.append(('rm', mine[0]))
                if mine[-1] != mine[0]:
                    ins.append(('rm', mine[-1]))
                a = addrs.index((contacts[mine[0]][1], contacts[mine[0]][2]))
                ins.append(('rep', a))
                ins.append(('fail', a))
        ins += [('repall',), ('clk', 61), ('clk', 721)]
        ins += [('add', idx[1][3], 'a'), ('add', idx[1][4], 'a')]      # class 1: midpoint, midpoint-1
        for i in range(nreal, len(contacts)):
            ins.append(('add', i, 'a'))
            if thorough:
                ins.append(('add', i, 't'))
        for o in ins:
            edits.append((pos, 'ins', o))
    return edits


def ops_at(default, pos, edits):
    """operations emitted for one position of the default history under the edits that sit at that position
    (insertions in the order given, then the possibly replaced / deleted default operation)"""
    out = []
    cur = default[pos] if pos < len(default) else None
    for p, kind, op in edits:
        if p != pos:
            continue
        if kind == 'ins':
            out.append(tuple(op))
        elif kind == 'sub':
            cur = tuple(op)
        else:
            cur = None
    if cur is not None:
        out.append(cur)
    return out


def apply_edits(default, edits, start=0):
    """the default history (from position `start`) with a set of edits applied"""
    out = []
    for pos in range(start, len(default) + 1):
        out += ops_at(default, pos, edits)
    return out


_QMEMO = set()


def real_steps(cfg, ex, ops, res, queries):
    """apply ops to ex with the full transition oracle after every operation; closest-K / get_peer queries after
    every operation (queries='every') or on the final state, once per distinct final table configuration and
    work item (queries='last').  -> (number of ops applied, [(sig, what)])"""
    for step, op in enumerate(ops):
        rec = ex.apply(op)
        res.count('transitions')
        res.count('op_invocations')
        witnesses(ex, rec, lambda n: res.witness('k8_' + n))
        bad = judge(ex, rec, res.tally)
        if not bad and (queries == 'every' or (queries == 'last' and step == len(ops) - 1)):
            key = (cfg['own'], ex.digests(rec.snap)[1])
            if queries == 'every' or key not in _QMEMO:
                _QMEMO.add(key)
                res.count('query_states')
                bad = state_oracle(ex, lambda: res.count('evaluations'), all_senders=False)
        if bad:
            return step + 1, bad
        res.setmax('k8_buckets', len(rec.snap))
        res.setmax('k8_contacts_in_table', len(rec.after))
    return len(ops), []


def run_real(cfg, hist, res, queries):
    """one K=8 history from scratch -> [(history prefix, sig, what)]"""
    ex = Exec(cfg['K'], cfg['own'], cfg_contacts(cfg))
    try:
        n, bad = real_steps(cfg, ex, hist, res, queries)
    finally:
        ex.close()
    res.count('executions')
    res.count('k8_histories')
    return [(tuple(hist[:n]), sig, what) for sig, what in bad]


def pair_partners(edits, i):
    """second edits combined with edits[i]: every later edit, and for two insertions at the same position both
    orders and the same insertion twice; two replacements of one operation are one replacement"""
    e1 = edits[i]
    out = collections.defaultdict(list)
    for j, e2 in enumerate(edits):
        if e2[0] < e1[0]:
            continue
        if e2[0] == e1[0]:
            both_ins = e1[1] == 'ins' and e2[1] == 'ins'
            if not both_ins and (j <= i or (e1[1] != 'ins' and e2[1] != 'ins')):
                continue
        elif j <= i:
            continue
        out[e2[0]].append(e2)
    return out


def run_real_pairs(cfg, default, edits, i, res):
    """every history with the two edits (edits[i], e2): the history with edits[i] alone is executed once from
    scratch; before each position >= its own the execution is forked (deep copy) for every partner edit at that
    position and the remainder is run on the fork"""
    e1 = edits[i]
    partners = pair_partners(edits, i)
    ex = Exec(cfg['K'], cfg['own'], cfg_contacts(cfg))
    done = []
    out = []
    try:
        for pos in range(len(default) + 1):
            if pos >= e1[0]:
                for e2 in partners.get(pos, ()):
                    es = (e1, e2) if pos == e1[0] else (e2,)
                    rem = apply_edits(default, es, start=pos)
                    f = ex.fork()
                    n, bad = real_steps(cfg, f, rem, res, 'last')
                    res.count('executions')
                    res.count('k8_histories')
                    for sig, what in bad:
                        out.append((tuple(done + rem[:n]), sig, what))
            here = ops_at(default, pos, (e1,))
            n, bad = real_steps(cfg, ex, here, res, 'none')
            done += here[:n]
            if bad:
                break        # reported by the single-edit run of edits[i]
    finally:
        ex.close()
    return out


def w_real(item, res):
    cfg, work, outpath = item
    default = real_default()
    edits = None
    viols = []
    _QMEMO.clear()       # per item, not per worker: the counters must not depend on how items land on workers
    for w in work:
        if w[0] == 'edits':
            found = run_real(cfg, apply_edits(default, w[1]), res, 'every' if len(w[1]) == 0 else 'last')
        elif w[0] == 'lifted':
            found = run_real(cfg, [tuple(o) for o in w[1]], res, 'every')
        else:
            if edits is None:
                edits = real_edits(cfg_contacts(cfg), default, True)
            found = run_real_pairs(cfg, default, edits, w[1], res)
        for h, sig, what in found:
            viols.append((len(h), h, sig, what))
    with open(outpath, 'wb') as f:
        pickle.dump(([], viols), f, protocol=4)


def real_items_for(ctx, outpath):
    thorough = not ctx.quick
    items = []
    meta = {'K': 8, 'max_edits': 2 if thorough else 1, 'histories': 0, 'own_ids_single_edits': 3,
            'own_ids_double_edits': 1 if thorough else 0}
    default = real_default()
    meta['default_history_ops'] = len(default)
    for oi, own in enumerate(OWN_IDS):
        cfg = {'name': f'K8-own{oi}', 'K': 8, 'own': own, 'real': True}
        edits = real_edits(cfg_contacts(cfg), default, thorough)
        meta['single_edits'] = len(edits)
        work = [('edits', ())] + [('lifted', h) for _, h in real_lifted()] + [('edits', (e,)) for e in edits]
        meta['histories'] += len(work)
        for part in _chunks(work, 40):
            items.append(('R', cfg, part, outpath(), oi))
        if thorough and oi == 2:
            for i in range(len(edits)):
                meta['histories'] += sum(len(v) for v in pair_partners(edits, i).values())
                items.append(('R', cfg, [('pairs', i)], outpath(), oi))
    return items, meta


# ------------------------------------------------------------------------------------------------
# parent

def _chunks(seq, n):
    for i in range(0, len(seq), n):
        yield seq[i:i + n]


def scaled_configs(ctx):
    """(K, own id, depth, alphabet).  Two alphabets per (K, own id): 'full' = every operation of the design;
    'table' = add / re-add / remove with the three probe outcomes only (no liveness reports, no clock),
    explored deeper."""
    q = ctx.quick
    cfgs = []
    for K in (2, 3):
        for oi, own in enumerate(OWN_IDS):
            main = oi == 2          # the sha384 own id carries the deepest bound (ids != distances there)
            if q:
                d_full, d_table = (4 if main else 3), (4 if (main or K == 2) else 3)
            else:
                d_full = ((6 if K == 2 else 5) if main else 4)
                d_table = ((7 if K == 2 else 6) if main else 5)
            cfgs.append({'name': f'K{K}-own{oi}-full', 'K': K, 'own': own, 'env': True, 'reports': 'members',
                         'depth': d_full, 'group': (K, oi)})
            cfgs.append({'name': f'K{K}-own{oi}-table', 'K': K, 'own': own, 'env': False, 'depth': d_table,
                         'group': (K, oi)})
            if main:
                # 'evict': the contacts of the far half (a bucket that is never split once full) plus one
                # contact of the near half, with every liveness report and clock operation, explored deeper -
                # the eviction policy needs K+1 adds and several reports before it shows
                subset = [0, 1, 2, 3] if K == 2 else [0, 1, 2, 10, 3]
                d_evict = 6 if q else (8 if K == 2 else 7)
                cfgs.append({'name': f'K{K}-own{oi}-evict', 'K': K, 'own': own, 'env': True, 'reports': 'members',
                             'subset': subset, 'depth': d_evict, 'group': (K, oi)})
    return cfgs

# ------------------------------------------------------------------------------------------------
# part P: a second operation at the probe suspension point of add_peer

# kinds the unchanged tree is known to violate inside this family: tallied as observations, never reported
P_OBSERVE_ONLY = ('exception',)   # stale bucket_index after a join during the probe -> IndexError (unchanged tree)
P_SETUPS = [
    [('add', 0, 'a'), ('add', 1, 'a'), ('add', 3, 'a')],                     # [c3] [c0 c1]: far bucket full
    [('add', 0, 'a'), ('add', 1, 'a'), ('add', 3, 'a'), ('add', 7, 'a')],   # near half holds two contacts
    [('add', 3, 'a'), ('add', 4, 'a'), ('add', 0, 'a'), ('add', 7, 'a')],   # a full middle bucket
]


def probe_window_contacts(own_hex):
    """the S alphabet plus new node ids at the addresses of the possible newcomers c2 / c5 / c6 (one in the
    far half, one in the near half each) so that a colliding newcomer can arrive during the probe"""
    o = int(own_hex, 16)
    cs = contacts_for(own_hex)
    for i in (2, 5, 6):
        cs.append((i2b(o ^ (2 ** 383 + 9 + i)).hex(), cs[i][1], cs[i][2]))
        cs.append((i2b(o ^ (2 ** 380 + 9 + i)).hex(), cs[i][1], cs[i][2]))
    return cs


def run_probe_window(K, own_hex, contacts, setup, newcomer, second, outcome):
    """One execution: setup ops one after the other; add_peer(newcomer) with a probe the harness holds open;
    `second` (a complete operation, None = none) while the probe is pending; the probe answers `outcome`
    (a / t / e); the first add_peer runs to completion.
    -> (status, [(sig, what)], log) status in 'judged' / 'no-suspend'"""
    from lbry.dht.error import RemoteException
    ex = Exec(K, own_hex, contacts)
    log = []
    try:
        for op in setup:
            rec = ex.apply(op)
            if rec.exc is not None:
                # a changed tree may break the set-up itself: not this family's business (parts S/R/D judge
                # sequential histories) - never an assert, an exit 2 would hide their VIOLATION line
                log.append(f'part P setup not runnable: {op} raised {rec.exc!r}')
                return 'not-runnable', [], log
        log.append(f'after setup {fmt_ops(setup)}: {ex.table_canon()}')
        loop = ex.loop
        loop._vtime = ex.vtime
        gate = loop.create_future()
        probed = []

        async def held_probe(peer):
            probed.append(peer)
            await gate

        first = loop.create_task(ex.table.add_peer(ex.peers[newcomer], held_probe))
        loop.drain()
        if first.done() or not probed:
            if not first.done():
                first.cancel()
                loop.drain()
            elif first.exception() is not None:
                log.append(f'part P: un-suspended add raised {first.exception()!r}')
                return 'not-runnable', [], log
            return 'no-suspend', [], log
        log.append(f'add(c{newcomer}) suspended in probe(c{ex.index[probed[0]]})')
        bad = []
        if second is not None:
            rec = ex.apply(second)
            log.append(f'  during the probe: {fmt_ops([second])} -> {rec.result!r} {ex.table_canon(rec.snap)}')
            if rec.exc is not None:
                bad.append(({'kind': 'exception', 'where': 'second', 'type': type(rec.exc).__name__},
                            f'{fmt_ops([second])} during the probe raised {rec.exc!r}'))
            if first.done():
                raise RuntimeError('part P: the suspended add_peer finished before its probe was answered')
        loop._vtime = ex.vtime
        if outcome == 'a':
            gate.set_result(True)
        elif outcome == 't':
            gate.set_exception(asyncio.TimeoutError())
        else:
            gate.set_exception(RemoteException('remote error'))
        result = None
        try:
            result = loop.run(first, max_steps=100000)
        except Exception as e:    # noqa - judged
            loop._ready.clear()
            bad.append(({'kind': 'exception', 'where': 'first', 'type': type(e).__name__},
                        f'the suspended add_peer raised {e!r} after its probe was answered'))
        snap = ex.snapshot()
        log.append(f'probe answered {outcome}: add(c{newcomer}) -> {result!r} {ex.table_canon(snap)}')
        bad += structural(snap, ex.own, K)
        return 'judged', bad, log
    finally:
        ex.close()


def probe_window_family(res):
    """every (own id, setup, newcomer that suspends in a probe, second operation, probe outcome) at K = 2"""
    K = 2
    for own in OWN_IDS[:2]:
        contacts = probe_window_contacts(own)
        n = len(contacts)
        for si, setup in enumerate(P_SETUPS):
            members = {o[1] for o in setup}
            for newcomer in range(n):
                if newcomer in members:
                    continue
                status, _, _ = run_probe_window(K, own, contacts, setup, newcomer, None, 'a')
                res.count('traces')
                if status != 'judged':
                    res.tally('probe_window_newcomer_not_suspended' if status == 'no-suspend'
                              else 'probe_window_scenario_not_runnable')
                    continue
                seconds = [None] + [('add', i, oc) for oc in 'at' for i in range(n)] + \
                          [('rm', i) for i in sorted(members)]
                for second in seconds:
                    for outcome in 'ate':
                        status, bad, _ = run_probe_window(K, own, contacts, setup, newcomer, second, outcome)
                        res.count('traces')
                        res.count('probe_window_executions')
                        res.count('transitions', len(setup) + 2)
                        if status == 'not-runnable':
                            res.tally('probe_window_scenario_not_runnable')
                            continue
                        if status != 'judged':
                            res.error(f'part P: add(c{newcomer}) after setup {si} suspended once but not again')
                            continue
                        res.witness('probe_window_second_op')
                        for sig, what in bad:
                            if sig['kind'] in P_OBSERVE_ONLY:
                                res.tally('probe_window_observed_' + sig['kind'])
                                continue
                            sig = dict(sig, family='probe-window')
                            hist = (f'{fmt_ops(setup)} ; add(c{newcomer}) suspended in its probe ; '
                                    f'{fmt_ops([second]) if second else "-"} ; probe answered '
                                    f'{ {"a": "alive", "t": "timeout", "e": "error"}[outcome]}')
                            res.violation(sig, f'[K{K}-own{OWN_IDS.index(own)}-probe-window] {hist}: {what}',
                                          {'part': 'P', 'K': K, 'own': own, 'contacts': [list(c) for c in contacts],
                                           'setup': [list(o) for o in setup], 'newcomer': newcomer,
                                           'second': list(second) if second else None, 'outcome': outcome})


def replay_probe_window(data):
    second = tuple(data['second']) if data.get('second') else None
    status, bad, log = run_probe_window(int(data['K']), data['own'], [tuple(c) for c in data['contacts']],
                                        [tuple(o) for o in data['setup']], int(data['newcomer']), second,
                                        data['outcome'])
    bad = [(s, w) for s, w in bad if s['kind'] not in P_OBSERVE_ONLY]
    for sig, what in bad:
        log.append(f'VIOLATED in the final table: {what}   signature={sig}')
    return bool(bad), '\n'.join(log)


def run(ctx):
    from vf.bootstrap import scratch_dir
    from refs import routing_ref as ref
    ref.selftest()
    scratch = scratch_dir('c11')
    try:
        _run(ctx, scratch)
    finally:
        shutil.rmtree(scratch, ignore_errors=True)


def history_ops(cfg, h, kind):
    if kind == 'R':
        return [tuple(o) for o in h]
    ops = cfg_ops(cfg)
    return [ops[i] for i in h]


def _needs_queries(sig):
    return sig.get('kind') in ('closest', 'get-peer') or sig.get('op') in ('get_peer', 'find_close_peers')


def minimise(cfg, hops, sig):
    """greedy drop-one-operation pass: keep a shorter history while it still yields the same signature"""
    hops = list(hops)
    budget = 400
    i = len(hops) - 1
    q = 'last' if _needs_queries(sig) else 'none'     # a query violation is a verdict about the final state only
    while i >= 0 and budget > 0 and len(hops) > 1:
        cand = hops[:i] + hops[i + 1:]
        budget -= 1
        step, bad = first_violations(cfg, cand, queries=q, all_senders=cfg['K'] < 8)
        if step is not None and any(s == sig for s, _ in bad):
            hops = cand[:step]
            i = min(i, len(hops)) - 1
        else:
            i -= 1
    return hops


def _run(ctx, scratch):
    res = ctx.res
    cfgs = scaled_configs(ctx)
    chunk = 16 if ctx.quick else 40
    state = {}
    gtables = collections.defaultdict(set)     # (K, own id) -> table configurations already given to part Q
    import time
    t_p = time.process_time()
    probe_window_family(res)
    t_p = round(time.process_time() - t_p, 2)
    for ci, cfg in enumerate(cfgs):
        ex = Exec(cfg['K'], cfg['own'], cfg_contacts(cfg))
        fd, td = ex.digests()
        ex.close()
        state[ci] = {'seen': {fd}, 'frontier': [((), fd)], 'newtables': [], 'levels': [1],
                     'first': None, 'last': None}
        if td not in gtables[cfg['group']]:
            gtables[cfg['group']].add(td)
            state[ci]['newtables'].append(())
    all_viols = []       # (length, order, history, sig, what, kind, cfg)
    counter = [0]

    def outpath():
        counter[0] += 1
        return os.path.join(scratch, f'o{counter[0]}.pkl')

    maxdepth = max(c['depth'] for c in cfgs)
    real_items, real_meta = real_items_for(ctx, outpath)
    for level in range(maxdepth + 1):
        items = []
        for ci, cfg in enumerate(cfgs):
            st = state[ci]
            if level < cfg['depth'] and st['frontier']:
                for part in _chunks(st['frontier'], chunk):
                    items.append(('X', cfg, part, outpath(), ci))
            if st['newtables']:
                for part in _chunks(st['newtables'], 6):
                    items.append(('Q', cfg, part, outpath(), ci))
                st['newtables'] = []
        if level == 0:
            items += real_items      # part R rides along with the first (tiny) BFS round
        if not items:
            break
        # longest items first for load balance; results are read back in the original (canonical) order
        order = sorted(range(len(items)), key=lambda i: (items[i][0] != 'R', items[i][0] != 'X'))
        ctx.pmap(w_item, [items[i][:4] for i in order])
        new_frontier = {ci: [] for ci in state}
        for kind, cfg, part, path, ci in items:
            with open(path, 'rb') as f:
                succ, viols = pickle.load(f)
            os.remove(path)
            for ln, h, sig, what in viols:
                all_viols.append((ln, ci + (1000 if kind == 'R' else 0), h, sig, what, kind, cfg))
            if kind != 'X':
                continue
            st = state[ci]
            for hi, oi, fd, td in succ:
                if fd in st['seen']:
                    continue
                st['seen'].add(fd)
                nh = part[hi][0] + (oi,)
                new_frontier[ci].append((nh, fd))
                if td not in gtables[cfg['group']]:
                    gtables[cfg['group']].add(td)
                    st['newtables'].append(nh)
        for ci, st in state.items():
            if level < cfgs[ci]['depth']:
                st['frontier'] = new_frontier[ci]
                st['levels'].append(len(new_frontier[ci]))
                if new_frontier[ci]:
                    st['last'] = new_frontier[ci][-1][0]
                    if st['first'] is None:
                        st['first'] = new_frontier[ci][0][0]
            else:
                st['frontier'] = []

    # ---- bookkeeping -----------------------------------------------------------------------------
    per_cfg = {}
    groups = collections.defaultdict(set)
    for ci, cfg in enumerate(cfgs):
        st = state[ci]
        groups[cfg['group']] |= st['seen']
        per_cfg[cfg['name']] = {'depth': cfg['depth'], 'states': len(st['seen']),
                                'new_states_per_level': st['levels']}
    for g, tds in gtables.items():
        per_cfg[f'K{g[0]}-own{g[1]}'] = {'distinct_states_all_alphabets': len(groups[g]),
                                         'table_configurations_queried': len(tds)}
        for td in tds:
            res.distinct_add('nontrivial', (g, td))
    res.count('states', sum(len(s) for s in groups.values()))

    # violations: simplest first, so that the kept representative of every signature is the shortest;
    # the representative is re-confirmed from scratch and minimised (drop-one-operation)
    all_viols.sort(key=lambda v: (v[0], v[1], v[2]))
    confirmed = {}
    for ln, _, h, sig, what, kind, cfg in all_viols:
        hops = history_ops(cfg, h, kind)
        key = repr(sorted(sig.items()))
        if key not in confirmed:
            step, bad = first_violations(cfg, hops, queries='last' if _needs_queries(sig) else 'none',
                                         all_senders=cfg['K'] < 8)
            res.count('determinism_replays')
            if step is None or not any(s == sig for s, _ in bad):
                res.error(f'violation {sig} of {cfg["name"]} after {fmt_ops(hops)} did not reproduce from scratch '
                          f'(got step {step}: {[s for s, _ in bad]})')
                confirmed[key] = hops
            else:
                confirmed[key] = minimise(cfg, hops[:step], sig) if len(hops) > 6 else hops[:step]
            hops = confirmed[key]
        res.violation(sig, f'[{cfg["name"]}] after {len(hops)} op(s) {fmt_ops(hops)}: {what}',
                      replay_data(cfg, hops, kind))

    # determinism self-check: first and last discovered history of every configuration, twice, from scratch
    todo = []
    for ci, cfg in enumerate(cfgs):
        st = state[ci]
        for h in (st['first'], st['last']):
            if h is not None:
                todo.append((cfg, history_ops(cfg, h, 'X')))
    k8 = {'name': 'K8-own2', 'K': 8, 'own': OWN_IDS[2], 'real': True}
    todo.append((k8, real_default()))
    for cfg, hops in todo:
        a = observe(cfg, hops)
        b = observe(cfg, hops)
        res.count('determinism_replays', 2)
        if a != b:
            res.error(f'determinism self-check failed for {cfg["name"]} {fmt_ops(hops)}')

    # samples: 3 shortest + 3 longest traces
    short = [t for t in todo if len(t[1]) == 1][:3]
    longest = sorted(todo[:-1], key=lambda t: -len(t[1]))[:3]
    for cfg, hops in short + longest:
        res.sample({'config': cfg['name'], 'history': fmt_ops(hops), 'final': observe(cfg, hops)[-1]}, force=True)

    ctx.meta.update(
        rule=('S: every history of length <= depth over the operation alphabet (13 contacts: 10 boundary '
              'distances incl. midpoint-1 (two of them on one IP with different ports), one new id at a known '
              'address, one known id at a new address, one known id at another contact\'s address; add with '
              'probe outcome alive / timeout / remote error (re-add = add of a member), remove, '
              'report_last_replied / report_failure per address of a current member, report_last_replied for all '
              'members at once, clock +61 s / +721 s), deduplicated on the canonical state (bucket ranges, ordered '
              'bucket contents, liveness-record ages); up to three alphabets per (K, own id): full, table-only (no '
              'reports / clock; deeper) and evict (far-half contacts + one near contact with all reports and '
              'clock; deepest); states = distinct canonical states per (K, own id), union over its alphabets. '
              'Q: every distinct table configuration reached x (every alphabet id, +-1, own id, 0, 2^384-1) keys '
              'x counts {None,1,K,K+1} x senders {none, every member, one non-member}, and get_peer for every '
              'alphabet id. R: K=8 default fill (32 adds over 5 prefix classes) and every history within d '
              'single-operation edits (substitute probe outcome, delete, insert remove / report / clock / '
              'colliding newcomer) of it, plus the scaled counterexamples lifted to K=8. '
              'Non-trivial/distinct = distinct table configurations (bucket ranges + bucket member sets) per (K, '
              'own id). traces = one per transition (prefix shared through deep copies of the real objects); '
              'scratch_replays counts the from-scratch replays.'),
        exhaustive=True,
        bounds={'scaled_depth': {c['name']: c['depth'] for c in cfgs}, 'real_K8': real_meta,
                'probe_window': {'K': 2, 'own_ids': 2, 'setups': len(P_SETUPS), 'second_ops': 1,
                                 'probe_outcomes': 3, 'observe_only_kinds': list(P_OBSERVE_ONLY),
                                 'cpu_seconds': t_p}},
        bound_completed={'per_config': per_cfg, 'real_K8': real_meta},
        assumptions=[
            'routing-table operations are sequential (KademliaProtocol serialises them under _split_lock), except '
            'in part P where exactly one complete operation runs while one add_peer is suspended in its probe; '
            'the probe is a coroutine that suspends once and then answers alive / TimeoutError / RemoteException '
            'for whichever contact is pinged',
            'liveness reports are issued only for addresses that currently have a table member',
            'virtual clock starts at 1e6 s (a real monotonic clock is never 0.0); time passes only through the '
            'clock operations (+61 s crosses the 60 s "recently replied" window, +721 s crosses '
            'CHECK_REFRESH_INTERVAL = 720 s)',
            'K scaled to 2 and 3 (the code reads K only through len()/slice comparisons); real K = 8 is covered '
            'by bounded-deviation histories only',
            'interpretation: a same-id add from a new address is a contact update, not a newcomer; a newcomer '
            'may displace the contact that holds its own address; find_close_peers(count=n) is held to the n '
            'nearest (count=None: K)',
            'ordinary (non-bootstrap) node: is_bootstrap_node=False; contact ids never equal the own id '
            '(KademliaProtocol.add_peer refuses it before the table sees it)',
        ],
        expected_witnesses=['split', 'join', 'join_both_neighbours', 'split_chain_100_deep', 'ping_eviction',
                            'ping_eviction_remote_error', 'ping_alive_newcomer_refused',
                            'refused_without_probe_recent_reply', 're_add', 'same_id_new_address_update',
                            'same_address_purge', 'remove_member',
                            'k8_split', 'k8_join', 'k8_join_both_neighbours', 'k8_ping_eviction',
                            'k8_ping_alive_newcomer_refused'],
    )


def replay(data):
    if data.get('part') == 'P':
        return replay_probe_window(data)
    cfg = {'name': 'replay', 'K': int(data['K']), 'own': data['own'],
           'contacts': [tuple(c) for c in data['contacts']]}
    hops = [tuple(o) for o in data['ops']]
    log = [f"K={cfg['K']} own={cfg['own'][:12]}.. contacts (distance from own id @ address):"]
    o = int(cfg['own'], 16)
    for i, (n, a, p) in enumerate(cfg['contacts']):
        log.append(f'  c{i}: d={hex(int(n, 16) ^ o)} @ {a}:{p}')
    log += observe(cfg, hops)
    # transition oracle after every operation; the query oracle judges the final state (the explorer never
    # expands a violating state, so the recorded history fails at its last operation or in its final state)
    step, bad = first_violations(cfg, hops, queries='last')
    for sig, what in bad:
        log.append(f'VIOLATED after operation {step}: {what}   signature={sig}')
    return bool(bad), '\n'.join(log)
