"""C12 - DHT network: announced blobs are findable until expiry and lookups terminate.

Real lbry.dht.node.Node objects on the in-memory UDP fabric (vf.udpfab) under the virtual loop.  Three harnesses:

hit      loss-free honest networks: join through node 0 to a routing-table fixed point, announce, every other node looks
         the blob up.  Default FIFO delivery for every (n, join order, announcer, hash); deviation-bounded DFS over
         delivery order / early delivery / duplication / delay past a timer (never past the datagram's own RPC timeout)
         on the announce+lookup phases, forked from a snapshot taken after the join.  Announcement histories (single,
         re-announced, second announcer, duplicated store, new tcp port, the real BlobAnnouncer loop) probed at
         latest announcement + 24 h -1 s / +0 / +1 s.
paging   one storing node holding N = 1..100 announcers (stored through the real store RPC by N scripted contacts);
         a client whose only contact is that node must be handed all N.
term     networks in which every subset of the non-searcher nodes is silent / answers garbage / answers with one of a
         catalogue of hostile replies; plus datagram loss and over-timeout delay as deviations.  Every node lookup and
         value lookup of the searcher must finish within (distinct endpoints contacted + 2) * rpc_timeout virtual seconds
         and within the step horizon, node lookups yield only endpoints that delivered a reply to the searcher and never
         the searcher, value lookups yield only well-formed public peer addresses.
"""
import json
import hashlib
import itertools

PROPERTY = 'C12'
LEVEL = 'model_checking'
HASHSEEDS = {'quick': 2, 'thorough': 8}

# constants of the *statement* / protocol (not imported from the code under test)
K = 8
RPC_TIMEOUT = 5.0
DAY = 86400
TCP_PORT = 3333
UDP_PORT = 4444

HIT_STEPS = 8_000           # step horizon of one announce / one lookup in an honest network
TERM_STEPS = 4_000          # step horizon of one lookup in the termination half
TERM_VTIME = 3600.0         # virtual-time horizon of one lookup in the termination half


# =====================================================================================================================
# alphabets
# =====================================================================================================================
def join_orders(n):
    ids = list(range(n))
    if n <= 4:
        return [list(p) for p in itertools.permutations(ids)]
    step = 1 if n <= 12 else 2          # n = 24, 40: every second rotation (budget)
    out = [ids[r:] + ids[:r] for r in range(0, n, step)]
    out.append(ids[::-1])
    return out


def announcers(n):
    return list(range(n)) if n <= 5 else sorted({0, 1, n - 1})


HASH_NAMES = ('near_ann', 'near_boot', 'far')


def blob_key(n, ann, hname):
    from vf.udpfab import node_id
    from refs.kademlia_ref import xor_distance
    ids = [node_id(i) for i in range(n)]
    if hname == 'near_ann':
        b = ids[ann]
        return b[:-1] + bytes([b[-1] ^ 1])
    if hname == 'near_boot':
        b = ids[0]
        return b[:-1] + bytes([b[-1] ^ 2])
    cands = [hashlib.sha384(b'far:%d' % d).digest() for d in range(64)]
    return max(cands, key=lambda c: min(xor_distance(c, i) for i in ids))


def alphabet(name):
    from vf import udpfab
    return {'full': udpfab.HIT_FULL, 'quiescent': udpfab.HIT_QUIESCENT, 'lossy': udpfab.LOSSY,
            'full+hold': udpfab.HIT_HOLD}[name]


# =====================================================================================================================
# shared pieces
# =====================================================================================================================
def build_net(n, order, stagger, seed):
    from vf.udpfab import Net
    net = Net(n, seed=seed)
    net.start(order=order, stagger=stagger)
    info = net.join()
    info['all_joined'] = all(nd.joined.is_set() for nd in net.nodes)
    info['complete_tables'] = all(len(net.known(i)) == n - 1 for i in range(n))
    return net, info


def join_violation(res, info, n, order, stagger, seed):
    """A network that cannot even be built is reported by the property's first clause ("nodes that have joined")."""
    rep = {'half': 'join', 'n': n, 'order': order, 'stagger': stagger, 'seed': seed}
    if info['stuck'] or not info['all_joined']:
        res.count('executions')          # the join itself is the (failed) execution
        res.count('evaluations')
        res.distinct_add('states', ('join', n, tuple(order), stagger))
    if info['stuck']:
        res.violation({'kind': 'join-never-quiesces', 'n': n},
                      f'virtual time stuck at {info["vtime"]} s after {info["datagrams"]} datagrams: an exchange started '
                      f'by the join never ends', rep)
        return True
    if not info['all_joined']:
        res.violation({'kind': 'join-failed', 'n': n}, f'not every node joined within {info["vtime"]} s', rep)
        return True
    return False


async def value_lookup(node, key, sink):
    from lbry.utils import aclosing
    async with aclosing(node.get_iterative_value_finder(key)) as finder:
        async for peers in finder:
            for p in peers:
                sink.append((p.address, p.tcp_port, p.node_id))


async def node_lookup(node, key, sink, replied_now):
    """What Node.peer_search iterates over, peer by peer (peer_search itself only sorts and truncates)."""
    from lbry.utils import aclosing
    async with aclosing(node.get_iterative_node_finder(key, max_results=K * 2)) as finder:
        async for peers in finder:
            seen = set(replied_now())
            for p in peers:
                sink.append((p.address, p.udp_port, p.node_id, (p.address, p.udp_port) in seen))


def task_outcome(status, task, lp=None):
    if status != 'done':
        task.cancel()
        if lp is not None:             # let the cancellation unwind (finder shutdown) while the loop is still open
            lp.run_until(task.done, max_steps=2000)
        return status, None
    if task.cancelled():
        return 'cancelled', None
    exc = task.exception()
    return ('raised', type(exc).__name__ + ': ' + str(exc)[:120]) if exc is not None else ('done', None)


def idx_of(net, nid):
    try:
        return net.ids.index(nid)
    except ValueError:
        return -1


def trim(choices):
    c = list(choices)
    while c and c[-1] == 0:
        c.pop()
    return c


def canon(obs):
    return json.dumps(obs, sort_keys=True, default=repr)


# =====================================================================================================================
# hit half
# =====================================================================================================================
IDLE = 1200       # virtual seconds after which a contact that answered is no longer "known good" (CHECK_REFRESH_INTERVAL
                  # is 720 s, and a node pings whoever stored on it 300 s later): lookups then confirm peers with a ping


PORTS = (1024, 3333, 32767, 32768, 50505, 65534)      # announcer tcp ports (one-factor); 65535 see PORT_REFUSED
PORT_REFUSED = 65535        # a legal tcp port, but store() demands port < 65535 on both sides: tallied, not enforced


def announce_phase(net, ann, key, drive, port=TCP_PORT):
    from vf.udpfab import node_ip
    from refs.kademlia_ref import closest_k
    lp = net.loop
    net.nodes[ann].protocol.peer_port = port                 # where this node's blob server listens
    net.nodes[ann].protocol.node_rpc.peer_port = port
    t0 = lp.time()
    status, task = drive(net.nodes[ann].announce_blob(key.hex()))
    st, exc = task_outcome(status, task, lp)
    stored = [idx_of(net, i) for i in task.result()] if st == 'done' else []
    ann_peer = (node_ip(ann), port)
    holding = []
    for i, nd in enumerate(net.nodes):
        for p in nd.protocol.data_store.get_peers_for_blob(key):
            if (p.address, p.tcp_port) == ann_peer:
                holding.append(i)
    ideal = [idx_of(net, i) for i in closest_k(key, net.ids, K, exclude=[net.ids[ann]])]
    return {'status': st, 'exc': exc, 'stored': sorted(stored), 'holding': sorted(holding),
            'ideal': sorted(ideal), 'duration': round(lp.time() - t0, 3)}


def hit_prepare(net, ann, key, idle, port=TCP_PORT):
    """Default-schedule prefix of a lookup-phase-only exploration: announce, then `idle` seconds of periodic traffic.
    Mutates the network (call it in the process that is forked per execution, or at the start of a replay)."""
    lp = net.loop
    lp.activate()
    a = announce_phase(net, ann, key, lambda coro: lp.run_task(coro, max_steps=HIT_STEPS), port)
    if idle:
        lp.advance_to(lp.time() + idle, max_steps=2_000_000)
    return a


def hit_case(net, ann, key, prefix=(), bound=0, alpha_name='full', entry='finder', idle=0, prepared=None,
             port=TCP_PORT):
    """announce by node `ann`, then every other node looks the key up (sequentially) through the entry point(s) named by
    `entry`: 'finder' = Node.get_iterative_value_finder, 'accumulate' = Node.accumulate_peers (the queue interface the
    downloader uses: found blob peers are confirmed with a DHT ping before they are queued), 'both'.
    `idle` virtual seconds of periodic traffic (default schedule) separate announce and lookups.  With `prepared` (the
    result of hit_prepare) the announce+idle prefix has already run and only the lookups are explored.
    Returns (trace, obs)."""
    import asyncio
    from vf.explore import Chooser
    from vf.udpfab import node_ip
    from refs.kademlia_ref import is_valid_peer_address
    lp = net.loop
    lp.activate()
    lp.trace_digest = hashlib.blake2b(digest_size=8)
    ch = Chooser(prefix)
    alpha = alphabet(alpha_name)
    devs = []
    it0, del0 = lp.iterations, lp.stats['delivered']

    def drive(coro):
        return lp.run_task(coro, chooser=ch if bound else None, budget=bound - ch.cost(), alpha=alpha,
                           max_steps=HIT_STEPS, on_choice=lambda kind, k, cost: devs.append(kind))

    n = net.n
    obs = {}
    ann_peer = (node_ip(ann), port)
    if prepared is not None:
        obs['announce'] = prepared
    else:
        obs['announce'] = announce_phase(net, ann, key, drive, port)
        if idle:
            lp.advance_to(lp.time() + idle, max_steps=2_000_000)
    obs['lookups'] = []
    obs['queue_lookups'] = []
    for s in range(n):
        if s == ann:
            continue
        if entry in ('finder', 'both'):
            sink = []
            first_contacts = {(p.address, p.udp_port) for p in net.nodes[s].protocol.routing_table.find_close_peers(key)}
            lp.sent_log = []
            t1 = lp.time()
            i1 = lp.iterations
            status, task = drive(value_lookup(net.nodes[s], key, sink))
            st, exc = task_outcome(status, task, lp)
            me = net.nodes[s].protocol
            asked = {dst for (_, _, src, dst, pt) in lp.sent_log if pt == 0 and src == (me.external_ip, me.udp_port)}
            lp.sent_log = None
            found = sorted({(a, p) for a, p, _ in sink})
            obs['lookups'].append({'searcher': s, 'status': st, 'exc': exc, 'hit': ann_peer in found, 'found': found,
                                   'duration': round(lp.time() - t1, 3), 'iterations': lp.iterations - i1,
                                   'beyond_shortlist': len(asked - first_contacts),
                                   'invalid': [f for f in found if not is_valid_peer_address(*f)]})
        if entry in ('accumulate', 'both'):
            # Node.accumulate_peers: blob hashes go in on one queue, lists of confirmed peers come out on the other; the
            # worker never ends by itself, so "the announcer is on the peer queue" is awaited up to a virtual horizon
            search_queue = asyncio.Queue()
            peer_queue, worker = net.nodes[s].accumulate_peers(search_queue)
            search_queue.put_nowait(key.hex())
            got = set()

            def announcer_queued():
                while not peer_queue.empty():
                    for p in peer_queue.get_nowait():
                        got.add((p.address, p.tcp_port))
                return ann_peer in got

            t1 = lp.time()
            pings0 = lp.stats['sent']
            status = lp.run_until(announcer_queued, chooser=ch if bound else None, budget=bound - ch.cost(), alpha=alpha,
                                  max_steps=HIT_STEPS, horizon_t=t1 + (n + 2) * RPC_TIMEOUT,
                                  on_choice=lambda kind, k, cost: devs.append(kind))
            took = round(lp.time() - t1, 3)
            worker.cancel()
            lp.run_until(worker.done, max_steps=2000)
            obs['queue_lookups'].append({'searcher': s, 'status': status, 'hit': ann_peer in got, 'queued': sorted(got),
                                         'idle': idle,
                                         'duration': took, 'datagrams': lp.stats['sent'] - pings0,
                                         'invalid': [f for f in sorted(got) if not is_valid_peer_address(*f)]})
    obs['deviations'] = devs
    obs['digest'] = lp.trace_digest.hexdigest()
    obs['end'] = round(lp.time(), 3)
    obs['work'] = [lp.iterations - it0, lp.stats['delivered'] - del0]
    obs['handler_exceptions'] = len(lp.dgram_errors)
    return ch.trace, obs


def judge_hit(case, obs, fixed):
    """-> [(signature, what)] ; the statement's first sentence, weaker readings (DESIGN.md A.6)."""
    n, hname = case['n'], case['hash']
    sched = 'default' if not trim(case.get('choices', ())) else 'deviation'
    out = []
    a = obs['announce']
    if a['status'] == 'raised':
        out.append(({'kind': 'announce-raised', 'n': n, 'schedule': sched}, f"announce_blob raised {a['exc']}"))
    elif a['status'] != 'done':
        out.append(({'kind': 'announce-not-finished', 'n': n, 'schedule': sched},
                    f"announce_blob did not finish ({a['status']})"))
    else:
        if not a['stored']:
            out.append(({'kind': 'announce-stored-nowhere', 'n': n, 'hash': hname, 'schedule': sched},
                        'announce_blob returned no storing node'))
        if -1 in a['stored'] or not set(a['stored']) <= set(a['holding']):
            out.append(({'kind': 'announce-reports-store-not-held', 'n': n, 'schedule': sched},
                        f"announce_blob reported {a['stored']} but the announcer is held by {a['holding']}"))
        if fixed and not set(a['holding']) <= set(a['ideal']):
            out.append(({'kind': 'stored-outside-k-closest', 'n': n, 'hash': hname, 'schedule': sched},
                        f"stored on {a['holding']}, K closest are {a['ideal']}"))
    if a['status'] == 'done' and a['stored']:
        for lk in obs['lookups']:
            if lk['status'] != 'done':
                out.append(({'kind': 'value-lookup-not-finished', 'n': n, 'status': lk['status'], 'schedule': sched},
                            f"value lookup by node {lk['searcher']}: {lk['status']} {lk['exc'] or ''}"))
            elif not lk['hit']:
                out.append(({'kind': 'lookup-miss', 'n': n, 'hash': hname, 'schedule': sched},
                            f"node {lk['searcher']} did not find announcer {case['ann']} (found {lk['found']})"))
            if lk['invalid']:
                out.append(({'kind': 'value-lookup-invalid-address', 'half': 'hit'},
                            f"value lookup yielded {lk['invalid']}"))
        for lk in obs.get('queue_lookups', ()):
            if not lk['hit']:
                out.append(({'kind': 'accumulate-peers-miss', 'n': n, 'hash': hname, 'schedule': sched},
                            f"Node.accumulate_peers of node {lk['searcher']} never queued announcer {case['ann']} within "
                            f"{n + 2} RPC timeouts ({lk['status']}, queued {lk['queued']})"))
            if lk['invalid']:
                out.append(({'kind': 'value-lookup-invalid-address', 'half': 'hit-queue'},
                            f"accumulate_peers queued {lk['invalid']}"))
    return out


def note_hit(res, case, obs, fixed):
    res.count('executions')
    res.count('evaluations')
    res.count('transitions', obs['work'][0] + obs['work'][1])
    ck = (case['n'], tuple(case['order']), case['stagger'], case['ann'], case['hash'])
    res.distinct_add('states', ('hit', ck, case.get('entry', 'both'), case.get('idle', 0), tuple(trim(case.get('choices', ())))))
    res.distinct_add('nontrivial', ('hit', ck, case.get('idle', 0), obs['digest']))
    res.distinct_add('outcomes', canon({k: obs[k] for k in ('announce', 'lookups', 'queue_lookups')}))
    a = obs['announce']
    if a['status'] == 'done' and a['stored']:
        res.witness('announce_stored')
        if fixed and set(a['holding']) == set(a['ideal']):
            res.witness('stored_on_exactly_k_closest')
        elif fixed:
            res.tally('interpretation_only:stored_on_fewer_than_all_k_closest')
    if any(lk['hit'] for lk in obs['queue_lookups']):
        res.witness('accumulate_peers_queued_announcer')
    if any(lk['hit'] and lk['datagrams'] for lk in obs['queue_lookups']):
        res.witness('accumulate_peers_queued_announcer_after_network_traffic')
    if any(lk['hit'] and lk['duration'] > 0 for lk in obs['queue_lookups']):
        res.witness('accumulate_peers_confirmation_overlapped_timers')
    if any(lk['beyond_shortlist'] for lk in obs['lookups']):
        res.witness('lookup_needed_2_rounds')
    if any(lk['duration'] > 0 for lk in obs['lookups']):
        res.witness('lookup_overlapped_timers')
    for d in obs['deviations']:
        res.witness('deviation_' + d.lower())
    if 'DGRAM' in obs['deviations']:
        res.witness('deviation_changed_delivery_order')
    if obs['handler_exceptions']:
        res.tally('datagram_handler_exceptions', obs['handler_exceptions'])
    res.setmax('max_lookup_virtual_seconds', max([lk['duration'] for lk in obs['lookups']] or [0]))
    res.setmax('max_iterations_of_a_finished_lookup',
               max([lk['iterations'] for lk in obs['lookups'] if lk['status'] == 'done'] or [0]))


def replay_dict(case):
    d = dict(case)
    d['choices'] = trim(d.get('choices', ()))
    return d


HOUR = 3600
ANNOUNCER_HOURS = {'quick': 26, 'thorough': 96}


def expiry_plan(n, tier=None):
    anns = announcers(n) if n <= 4 else [n - 1]
    return [(a, h, blob_key(n, a, h)) for a in anns for h in HASH_NAMES]


def histories(n, long, multi=False):
    """Announcement histories on one timeline: (label, key, [(offset seconds, announcer, duplicate the store datagrams)]).
    'single' = the (announcer, hash) alphabet of the hit half, announced once at offset 0.  The long part adds the same
    node announcing the same blob again 1 s / 12 h / 24 h - 1 s / 24 h 10 min later, a second node announcing it 12 h later,
    and a re-announcement whose store datagrams all arrive twice."""
    out = [('single', key, [(0, a, False)], h) for a, h, key in expiry_plan(n)]
    if long:
        x, y = n - 1, (n - 2) % n

        def hk(tag):
            return hashlib.sha384(b'history:' + tag).digest()
        out += [('re-announce+1s', hk(b'A'), [(0, x, False), (1, x, False)], ''),
                ('re-announce+12h', hk(b'B'), [(0, x, False), (12 * HOUR, x, False)], ''),
                ('re-announce+24h-1s', hk(b'C'), [(0, x, False), (DAY - 1, x, False)], ''),
                ('second-announcer+12h', hk(b'D'), [(0, x, False), (12 * HOUR, y, False)], ''),
                # expired at 24 h, not yet purged by the hourly refresh (t0 = 4600: next purge at t0 + 24 h + 2600 s)
                ('re-announce+24h10m-after-expiry', hk(b'G'), [(0, x, False), (DAY + 600, x, False)], ''),
                ('re-announce+12h-duplicated-store', hk(b'F'), [(0, x, True), (12 * HOUR, x, True)], '')]
        # up to three announcers of one blob with independent schedules: announcer i (node n-1-i) first announces at
        # t0 + i s (so the storing nodes list them in that order) and either never again ('O') or again 12 h later
        # ('R'): every combination of list position and record age occurs, before and after the hourly sweeps
        m = min(3, n) if multi else 0
        for pattern in (itertools.product('OR', repeat=m) if m else ()):
            tag = ''.join(pattern)
            anns = []
            for i, c in enumerate(pattern):
                anns.append((i, n - 1 - i, False))
                if c == 'R':
                    anns.append((12 * HOUR + i, n - 1 - i, False))
            out.append(('announcers-in-list-order:' + tag, hk(b'M' + tag.encode()), anns, ''))
    return out


SINGLE_PROBES = (DAY - 1, DAY, DAY + 1)
LONG_PROBES = (DAY - 1, DAY, DAY + 1, DAY + 2, 36 * HOUR - 1, 36 * HOUR + 1, 2 * DAY - 2, 2 * DAY, 2 * DAY + 599,
               2 * DAY + 600, 2 * DAY + 601)
# the several-announcer histories are probed every 12 h and, after each wave of records passed 24 h (24 h .. 24 h + 2 s and
# 36 h .. 36 h + 2 s), at once and after each of the next two hourly refresh_node sweeps (every node sweeps once per 3600 s),
# by the first and the last node
SWEEP_PROBES = tuple(h * HOUR + 100 for h in (12, 24, 25, 26, 36, 37, 38, 48)) + \
    (DAY - 1, DAY + 1, 36 * HOUR - 1, 36 * HOUR + 1)


def probes_of(label):
    return SINGLE_PROBES if label == 'single' else SWEEP_PROBES if label.startswith('announcers-in-list-order') \
        else LONG_PROBES


def is_store_request(d):
    return d.ptype == 0 and b'5:store' in d.data


def expected_at(now, stamps):
    """stamps = [(start, end)] of the completed announcements of one node for one blob.  Age counts from the LATEST
    announcement: 'found' while it is younger than 24 h, 'gone' from 24 h on ('gone-exact' at exactly 24 h), None while
    the latest announcement straddles the boundary (never on the default schedule, where an announce takes 0 s)."""
    past = [(lo, hi) for lo, hi in stamps if hi <= now]
    if not past:
        return None
    lo, hi = max(past, key=lambda x: x[1])
    if now - lo < DAY:
        return 'found'
    if now - hi >= DAY:
        return 'gone-exact' if (now - hi == DAY and lo == hi) else 'gone'
    return None


def expiry_case(net, long=False, multi=False):
    """Runs every history of histories(n, long) on one timeline that starts now (t0): announcements at their offsets (through
    the real announce_blob / store path), value lookups by every other node at t0+24h-1s, +24h, +24h+1s and, for the long
    histories, around 36 h and 48 h, all after unbroken periodic traffic.  The expectation of every probe is computed from
    the times at which the announcements actually completed (reference: age counts from the latest announcement)."""
    from vf.udpfab import node_ip
    lp = net.loop
    lp.activate()
    hs = histories(net.n, long, multi)
    t0 = lp.time()
    obs = {'announce': [], 'probes': [], 't0': t0}
    done = {}                      # (history index, announcer) -> [(start, end)]
    offsets = sorted({off for _, _, anns, _ in hs for off, _, _ in anns} | {off for h in hs for off in probes_of(h[0])})
    sweeps = []                    # (node, virtual time) of every refresh_node sweep (the real method, only observed)
    for i, nd in enumerate(net.nodes):
        def swept(i=i, real=nd.protocol.data_store.removed_expired_peers):
            sweeps.append((i, lp.time()))
            return real()
        nd.protocol.data_store.removed_expired_peers = swept
    for off in offsets:
        if not lp.advance_to(t0 + off, max_steps=6_000_000):
            obs['stuck'] = off
            break
        for hi_, (label, key, anns, hname) in enumerate(hs):
            for aoff, ann, dup in anns:
                if aoff != off:
                    continue
                lp.dup_on_send = is_store_request if dup else None
                start = lp.time()
                status, task = lp.run_task(net.nodes[ann].announce_blob(key.hex()), max_steps=HIT_STEPS)
                lp.dup_on_send = None
                lp.run_until(lambda: not lp.inflight and not lp._ready, max_steps=HIT_STEPS)   # late duplicates land
                st, exc = task_outcome(status, task, lp)
                stored = len(task.result()) if st == 'done' else 0
                obs['announce'].append({'history': label, 'hash': hname, 'ann': ann, 'at': off, 'status': st,
                                        'stored': stored, 'took': round(lp.time() - start, 3)})
                if stored:
                    done.setdefault((hi_, ann), []).append((start, lp.time()))
        for hi_, (label, key, anns, hname) in enumerate(hs):
            if off not in probes_of(label):
                continue
            who = sorted({a for _, a, _ in anns})
            for s in ((0, net.n - 1) if label.startswith('announcers-in-list-order') else range(net.n)):
                if who == [s]:
                    continue
                sink = []
                t1 = lp.time()
                status, task = lp.run_task(value_lookup(net.nodes[s], key, sink), max_steps=HIT_STEPS)
                st, exc = task_outcome(status, task, lp)
                found = {(a, p) for a, p, _ in sink}
                for ann in who:
                    if ann == s:
                        continue
                    obs['probes'].append({'at': off, 'history': label, 'hash': hname, 'ann': ann, 'searcher': s,
                                          'status': st, 'hit': (node_ip(ann), TCP_PORT) in found,
                                          'expect': expected_at(t1, done.get((hi_, ann), [])),
                                          'duration': round(lp.time() - t1, 3)})
    obs['sweeps'] = len(sweeps)
    # after each wave of records passed 24 h: how many nodes ran their hourly sweep before the probe one hour later
    obs['nodes_swept_before_probe'] = {
        str(hi_): len({i for i, t in sweeps if t0 + lo_ < t <= t0 + hi_})
        for lo_, hi_ in ((DAY + 2, 25 * HOUR + 100), (36 * HOUR + 2, 37 * HOUR + 100))}
    obs['duplicate_entries'] = sum(
        1 for nd in net.nodes for lst in nd.protocol.data_store._data_store.values()
        if len({(p.address, p.udp_port, p.node_id) for p, _ in lst}) != len(lst))
    return obs


def judge_expiry(n, obs):
    out = []
    if obs.get('stuck') is not None:
        out.append(({'kind': 'network-never-quiesces', 'n': n},
                    f"virtual time stopped advancing on the way to t0+{obs['stuck']} s after the announcement"))
    for p in obs['probes']:
        extra = {} if p['history'] == 'single' else {'history': p['history']}
        where = f"(history '{p['history']}', announcer {p['ann']}, t0+{p['at']} s, searcher {p['searcher']})"
        if p['expect'] is None:
            continue
        if p['status'] != 'done':
            out.append((dict({'kind': 'value-lookup-not-finished', 'n': n, 'status': p['status'], 'schedule': 'expiry'}),
                        f"lookup {where}: {p['status']}"))
        elif p['expect'] == 'found' and not p['hit'] and p['duration'] < 1:
            out.append((dict({'kind': 'expired-early', 'n': n}, **extra),
                        f"latest announcement is younger than 24 h but the announcer is not returned {where}"))
        elif p['expect'] == 'gone-exact' and p['hit']:
            out.append((dict({'kind': 'returned-at-24h', 'n': n}, **extra),
                        f"latest announcement is exactly 24 h old and still returned {where}"))
        elif p['expect'] == 'gone' and p['hit']:
            out.append((dict({'kind': 'returned-after-24h', 'n': n}, **extra),
                        f"latest announcement is older than 24 h and still returned {where}"))
    return out


def port_change_case(net):
    """The announcer moves its blob server to another TCP port and announces again 12 h later: lookups must return the
    new port (the entry is refreshed) and nothing at all once the second announcement is 24 h old."""
    from vf.udpfab import node_ip
    lp = net.loop
    lp.activate()
    x = net.n - 1
    key = hashlib.sha384(b'history:E').digest()
    t0 = lp.time()
    obs = {'announce': [], 'probes': []}
    for off, port in ((0, TCP_PORT), (12 * HOUR, TCP_PORT + 1)):
        if not lp.advance_to(t0 + off, max_steps=6_000_000):
            obs['stuck'] = off
            return obs
        net.nodes[x].protocol.peer_port = port
        net.nodes[x].protocol.node_rpc.peer_port = port
        status, task = lp.run_task(net.nodes[x].announce_blob(key.hex()), max_steps=HIT_STEPS)
        st, exc = task_outcome(status, task, lp)
        obs['announce'].append({'at': off, 'port': port, 'status': st, 'stored': len(task.result()) if st == 'done' else 0})
    for off in (12 * HOUR, DAY + 1, 36 * HOUR - 1, 36 * HOUR + 1):
        if not lp.advance_to(t0 + off, max_steps=6_000_000):
            obs['stuck'] = off
            return obs
        for s in range(net.n - 1):
            sink = []
            status, task = lp.run_task(value_lookup(net.nodes[s], key, sink), max_steps=HIT_STEPS)
            st, exc = task_outcome(status, task, lp)
            ports = sorted({p for a, p, _ in sink if a == node_ip(x)})
            obs['probes'].append({'at': off, 'searcher': s, 'status': st, 'ports': ports})
    obs['entries'] = max([sum(1 for p, _ in lst if p.address == node_ip(x))
                          for nd in net.nodes for k, lst in nd.protocol.data_store._data_store.items() if k == key] or [0])
    return obs


def judge_port_change(n, obs):
    out = []
    if obs.get('stuck') is not None:
        return [({'kind': 'network-never-quiesces', 'n': n}, f"virtual time stopped advancing before t0+{obs['stuck']} s")]
    if not all(a['status'] == 'done' and a['stored'] for a in obs['announce']):
        return [({'kind': 'announce-stored-nowhere', 'n': n, 'hash': 'history:E', 'schedule': 'port-change'},
                 f"announce failed: {obs['announce']}")]
    for p in obs['probes']:
        if p['status'] != 'done':
            out.append(({'kind': 'value-lookup-not-finished', 'n': n, 'status': p['status'], 'schedule': 'port-change'},
                        f"lookup at t0+{p['at']} s: {p['status']}"))
        elif p['at'] < 36 * HOUR and (TCP_PORT + 1) not in p['ports']:
            out.append(({'kind': 'expired-early', 'n': n, 'history': 're-announce+12h-new-tcp-port'},
                        f"re-announced from tcp port {TCP_PORT + 1} but node {p['searcher']} got ports {p['ports']} at t0+{p['at']} s"))
        elif p['at'] > 36 * HOUR and p['ports']:
            out.append(({'kind': 'returned-after-24h', 'n': n, 'history': 're-announce+12h-new-tcp-port'},
                        f"both announcements older than 24 h, node {p['searcher']} still got ports {p['ports']}"))
    return out


class StubStorage:
    """The two SQLiteStorage calls BlobAnnouncer makes, with SQLiteStorage's policy (a blob is due when its
    next_announce_time is in the past; a successful announce moves it DATA_EXPIRATION / 2 ahead) on the virtual clock."""

    def __init__(self, loop, blob_hashes):
        self.loop = loop
        self.next_announce_time = {h: 0 for h in blob_hashes}
        self.marked = []

    async def get_blobs_to_announce(self):
        now = int(self.loop.time())
        return [h for h, t in sorted(self.next_announce_time.items()) if t < now]

    async def update_last_announced_blobs(self, blob_hashes):
        now = self.loop.time()
        for h in blob_hashes:
            self.next_announce_time[h] = int(now + DAY / 2)
            self.marked.append((now, h))


def announcer_case(net, hours, follow_expiry=True):
    """The real lbry.dht.blob_announcer.BlobAnnouncer loop on the last node, one blob, `hours` of virtual time, then the
    announcer is stopped and the last announcement is followed to its expiry."""
    from lbry.dht.blob_announcer import BlobAnnouncer
    from vf.udpfab import node_ip
    lp = net.loop
    lp.activate()
    x = net.n - 1
    node = net.nodes[x]
    key = hashlib.sha384(b'history:announcer').digest()
    t0 = lp.time()
    log = []
    real = node.announce_blob

    async def logged(blob_hash):
        start = lp.time()
        r = await real(blob_hash)
        if r:
            log.append((start, lp.time()))
        return r
    node.announce_blob = logged
    storage = StubStorage(lp, [key.hex()])
    ba = BlobAnnouncer(lp, node, storage)
    ba.start(batch_size=10)
    obs = {'probes': [], 'hours': hours}

    def probe(off, label):
        if not lp.advance_to(t0 + off, max_steps=20_000_000):
            obs['stuck'] = off
            return False
        for s in (0, 1):
            sink = []
            t1 = lp.time()
            status, task = lp.run_task(value_lookup(net.nodes[s], key, sink), max_steps=HIT_STEPS)
            st, exc = task_outcome(status, task, lp)
            obs['probes'].append({'at': off, 'label': label, 'searcher': s, 'status': st,
                                  'hit': (node_ip(x), TCP_PORT) in {(a, p) for a, p, _ in sink},
                                  'expect': expected_at(t1, log), 'announcements': len(log),
                                  'since_first': round(t1 - log[0][0], 1) if log else None})
        return True

    offs = sorted(set([HOUR] + list(range(6 * HOUR, hours * HOUR, 6 * HOUR)) + [DAY + HOUR, hours * HOUR]))
    for off in offs:
        if off <= hours * HOUR and not probe(off, 'running'):
            return obs
    ba.stop()
    lp.run_until(lambda: not lp._ready, max_steps=1000)
    obs['announce_times'] = [round(a - t0, 1) for a, _ in log]
    obs['marked'] = len(storage.marked)
    if log and follow_expiry:
        last = log[-1][1] - t0
        for off, label in ((last + DAY - 1, 'stopped'), (last + DAY, 'stopped'), (last + DAY + 1, 'stopped')):
            if not probe(off, label):
                return obs
    return obs


def judge_announcer(n, obs):
    out = []
    if obs.get('stuck') is not None:
        return [({'kind': 'network-never-quiesces', 'n': n}, f"virtual time stopped advancing before t0+{obs['stuck']} s")]
    if not any(p['announcements'] for p in obs['probes']):
        return [({'kind': 'announce-stored-nowhere', 'n': n, 'hash': 'history:announcer', 'schedule': 'blob-announcer'},
                 'BlobAnnouncer never completed an announcement')]
    for p in obs['probes']:
        where = f"(BlobAnnouncer {p['label']}, t0+{p['at']} s, {p['announcements']} announcements so far, searcher {p['searcher']})"
        if p['expect'] is None:
            continue
        if p['status'] != 'done':
            out.append(({'kind': 'value-lookup-not-finished', 'n': n, 'status': p['status'], 'schedule': 'blob-announcer'},
                        f"lookup {where}: {p['status']}"))
        elif p['expect'] == 'found' and not p['hit']:
            out.append(({'kind': 'expired-early', 'n': n, 'history': 'blob-announcer-schedule'},
                        f"latest announcement is younger than 24 h but the announcer is not returned {where}"))
        elif p['expect'] == 'gone-exact' and p['hit']:
            out.append(({'kind': 'returned-at-24h', 'n': n, 'history': 'blob-announcer-schedule'},
                        f"latest announcement is exactly 24 h old and still returned {where}"))
        elif p['expect'] == 'gone' and p['hit']:
            out.append(({'kind': 'returned-after-24h', 'n': n, 'history': 'blob-announcer-schedule'},
                        f"latest announcement is older than 24 h and still returned {where}"))
    return out


def dfs_parts(net, case, fixed, bound, alpha_name, part, parts, res, cap=None):
    """Deviation-bounded DFS over the announce+lookup phases of one case, every execution in a fork of the joined
    network.  The tree is split by first deviation: this call explores first-level subtrees i with i % parts == part."""
    from vf.explore import dfs_deviation, Chooser
    from vf.udpfab import fork_call
    key = blob_key(case['n'], case['ann'], case['hash'])
    entry = case.get('entry', 'finder')
    idle = case.get('idle', 0)
    # lookup-only exploration: the announce + idle prefix runs once, here, on the default schedule
    prepared = hit_prepare(net, case['ann'], key, idle) if case.get('lookup_only') else None
    bad = []
    seqs = {'first': None, 'last': None}

    def run(ch):
        trace, obs = fork_call(hit_case, net, case['ann'], key, tuple(ch.prefix), bound, alpha_name, entry, idle, prepared)
        ch.trace[:] = trace
        return obs

    def on_result(ch, obs):
        c = dict(case, choices=trim(ch.choices), bound=bound, alphabet=alpha_name)
        note_hit(res, c, obs, fixed)
        res.setmax('max_choice_points', len(ch.trace))
        if seqs['first'] is None:
            seqs['first'] = (c['choices'], canon(obs))
        seqs['last'] = (c['choices'], canon(obs))
        for sig, what in judge_hit(c, obs, fixed):
            res.violation(sig, what, replay_dict(c))
            bad.append((c['choices'], canon(obs)))

    # default execution first: it defines the first-level alternatives
    ch0 = Chooser(())
    obs0 = run(ch0)
    firsts = []
    choices0 = ch0.choices
    for i, (npts, costs, _, c) in enumerate(ch0.trace):
        for alt in range(1, npts):
            if costs[alt] <= bound:
                firsts.append(choices0[:i] + [alt])
    if part == 0:
        on_result(ch0, obs0)
    if judge_hit(dict(case, choices=[]), obs0, fixed):
        # the default schedule already violates (reported by part 0): deviations would only repeat it, and a
        # non-terminating default execution would make every one of its endless steps a branching point
        res.tally('deviation_dfs_skipped_default_execution_already_violating')
        return 0
    capped = False
    for j, pre in enumerate(firsts):
        if j % parts != part:
            continue
        r = dfs_deviation(run, bound=bound, on_result=on_result, root_prefix=pre, max_executions=cap)
        capped = capped or r['capped']
    if capped:
        res.count('capped')
    # determinism self-check: first, last and every violating sequence twice
    for choices, want in [s for s in (seqs['first'], seqs['last']) if s] + bad[:4]:
        for _ in range(2):
            _, obs = fork_call(hit_case, net, case['ann'], key, tuple(choices), bound, alpha_name, entry, idle, prepared)
            res.count('determinism_replays')
            if canon(obs) != want:
                res.error(f'C12 hit: nondeterministic replay of {case} choices {choices}')
    return len(firsts)


def work_hit(item, res):
    """One joined network; item = dict(n, order, stagger, seed, cases=[(ann, hname)], expiry=bool,
    dfs=None | dict(ann, hash, bound, alphabet, part, parts))."""
    from vf.udpfab import fork_call
    n, order, stagger, seed = item['n'], item['order'], item['stagger'], item['seed']
    net, info = build_net(n, order, stagger, seed)
    try:
        fixed = info['fixed'] and info['all_joined']
        res.count('networks_joined')
        res.count('transitions', net.loop.iterations + net.loop.stats['delivered'])
        res.distinct_add('join_tables', (n, net.tables()))
        if not fixed:
            res.tally('join_did_not_reach_fixed_point')
        if info['complete_tables']:
            res.witness('complete_routing_tables')
        if join_violation(res, info, n, order, stagger, seed):
            return
        base = {'half': 'hit', 'n': n, 'order': order, 'stagger': stagger, 'seed': seed}
        for ann, hname in item.get('cases', ()):
            case = dict(base, ann=ann, hash=hname, choices=[], entry='both')
            key = blob_key(n, ann, hname)
            _, obs = fork_call(hit_case, net, ann, key, (), 0, 'full', 'both')
            note_hit(res, case, obs, fixed)
            viol = judge_hit(case, obs, fixed)
            for sig, what in viol:
                res.violation(sig, what, replay_dict(case))
            if item.get('selfcheck') or viol:
                for _ in range(2):
                    _, again = fork_call(hit_case, net, ann, key, (), 0, 'full', 'both')
                    res.count('determinism_replays')
                    if canon(again) != canon(obs):
                        res.error(f'C12 hit: nondeterministic default execution {case}')
            if item.get('selfcheck') and n <= 8:
                # the same case with stale contact knowledge: blob peers are confirmed by ping before they are queued
                case2 = dict(case, entry='accumulate', idle=IDLE)
                _, obs2 = fork_call(hit_case, net, ann, key, (), 0, 'full', 'accumulate', IDLE)
                note_hit(res, case2, obs2, fixed)
                for sig, what in judge_hit(case2, obs2, fixed):
                    res.violation(sig, what, replay_dict(case2))
            if len(res.samples) < 2:
                res.sample({'case': case, 'announce': obs['announce'],
                            'lookups': [(lk['searcher'], lk['hit']) for lk in obs['lookups']]})
        for ann, hname, port, entry in item.get('port_cases', ()):
            case = dict(base, ann=ann, hash=hname, choices=[], entry=entry, port=port)
            key = blob_key(n, ann, hname)
            _, obs = fork_call(hit_case, net, ann, key, (), 0, 'full', entry, 0, None, port)
            if port == PORT_REFUSED:
                res.count('executions')
                if not obs['announce']['stored']:
                    res.tally('interpretation_only:tcp_port_65535_cannot_be_announced_store_demands_port_below_65535')
                continue
            note_hit(res, case, obs, fixed)
            if port >= 32768 and any(lk['hit'] and lk['beyond_shortlist'] + 1 for lk in obs['lookups']):
                res.witness('announcer_with_tcp_port_above_32767_found')
            if any(lk['hit'] and lk['searcher'] not in obs['announce']['holding'] for lk in obs['lookups']):
                res.witness('announcer_found_by_searcher_that_does_not_store_the_blob')
            for sig, what in judge_hit(case, obs, fixed):
                res.violation(dict(sig, port=port), what + f' [announcer tcp port {port}]', replay_dict(case))
        d = item.get('dfs')
        if d:
            case = dict(base, ann=d['ann'], hash=d['hash'], entry=d.get('entry', 'finder'))
            if d.get('idle'):
                case.update(idle=d['idle'], lookup_only=True)
            dfs_parts(net, case, fixed, d['bound'], d['alphabet'], d['part'], d['parts'], res)
        if item.get('expiry'):
            long = item['expiry'].startswith('long')
            multi = item['expiry'] == 'long+multi'
            obs = fork_call(expiry_case, net, long, multi)
            res.count('executions')
            res.count('evaluations', len(obs['probes']))
            res.distinct_add('states', ('expiry', n, tuple(order), stagger, long, multi))
            for h in {p['history'] for p in obs['probes']}:
                res.distinct_add('nontrivial', ('expiry', n, tuple(order), stagger, h))
            for p in obs['probes']:
                if p['expect'] == 'gone-exact':
                    res.witness('expiry_probed_at_exact_boundary')
                if p['expect'] == 'found' and p['hit'] and p['history'] == 'single' and p['at'] == DAY - 1:
                    res.witness('hit_one_second_before_expiry')
                if p['history'] == 're-announce+24h10m-after-expiry' and p['expect'] == 'found' and p['hit'] and p['at'] > DAY + 600:
                    res.witness('reannounced_after_expiry_found_again')
                if p['expect'] == 'found' and p['hit'] and p['history'].startswith('re-announce') and p['at'] >= DAY:
                    res.witness('found_more_than_24h_after_first_announcement_thanks_to_reannouncement')
                if p['expect'] == 'found' and p['hit'] and p['history'] == 're-announce+12h-duplicated-store':
                    res.witness('reannouncement_with_duplicated_store_datagrams')
                if p['history'] == 'second-announcer+12h' and p['at'] == DAY + 1 and p['expect'] == 'found' and p['hit']:
                    res.witness('two_announcers_expire_on_their_own_clocks')
            if multi and obs.get('nodes_swept_before_probe') and \
                    all(v == n for v in obs['nodes_swept_before_probe'].values()):
                res.witness('every_node_ran_hourly_sweep_between_record_expiry_and_probe')
            res.setmax('refresh_sweeps_in_one_history_timeline', obs.get('sweeps', 0))
            for p in obs['probes']:
                if p['history'].startswith('announcers-in-list-order') and p['expect'] == 'found' and p['hit'] and \
                        p['at'] > DAY + HOUR and 'O' in p['history'].split(':')[1]:
                    res.witness('refreshed_record_found_after_sweep_removed_stale_records_of_same_blob')
            if obs['duplicate_entries']:
                res.tally('interpretation_only:data_store_lists_one_contact_twice_for_a_blob', obs['duplicate_entries'])
            for sig, what in judge_expiry(n, obs):
                res.violation(sig, what, dict(base, half='expiry', long=long, multi=multi))
        if item.get('port_change'):
            obs = fork_call(port_change_case, net)
            res.count('executions')
            res.count('evaluations', len(obs['probes']))
            res.distinct_add('states', ('port-change', n, tuple(order), stagger))
            res.distinct_add('nontrivial', ('port-change', n, tuple(order), stagger))
            if any(p['ports'] == [TCP_PORT + 1] for p in obs['probes']):
                res.witness('reannouncement_from_new_tcp_port_replaced_the_entry')
            if any(TCP_PORT in p['ports'] and p['at'] > 12 * HOUR for p in obs['probes']):
                res.tally('interpretation_only:old_tcp_port_still_returned_after_reannouncement')
            if obs.get('entries', 0) > 1:
                res.tally('interpretation_only:data_store_lists_one_contact_twice_for_a_blob')
            for sig, what in judge_port_change(n, obs):
                res.violation(sig, what, dict(base, half='portchange'))
        if item.get('announcer_hours'):
            hours = item['announcer_hours']
            obs = fork_call(announcer_case, net, hours, bool(item.get('follow_expiry')))
            res.count('executions')
            res.count('evaluations', len(obs['probes']))
            res.distinct_add('states', ('announcer', n, hours))
            res.distinct_add('nontrivial', ('announcer', n, hours))
            running = [p for p in obs['probes'] if p['label'] == 'running' and p['hit'] and p['expect'] == 'found']
            if running and max(p['announcements'] for p in running) >= 2 and \
                    max(p['since_first'] or 0 for p in running) > DAY:
                res.witness('blob_announcer_schedule_keeps_blob_findable_past_24h')
            res.setmax('blob_announcer_hours_continuously_findable', max([int((p['since_first'] or 0) // HOUR) for p in running] or [0]))
            res.setmax('blob_announcer_announcements', max([p['announcements'] for p in obs['probes']] or [0]))
            if any(p['label'] == 'stopped' and p['expect'] in ('gone', 'gone-exact') and not p['hit'] for p in obs['probes']):
                res.witness('blob_announcer_stopped_blob_expires')
            for sig, what in judge_announcer(n, obs):
                res.violation(sig, what, dict(base, half='announcer', hours=hours, follow_expiry=bool(item.get('follow_expiry'))))
    finally:
        net.stop()


# =====================================================================================================================
# paging
# =====================================================================================================================
def rpc_id_for(tag):
    return hashlib.sha1(tag).digest()


class Storer:
    """A scripted but protocol-conforming contact: findValue (to learn the token) then store, over the fabric."""

    def __init__(self, loop, j, target, key, port=TCP_PORT):
        from vf.udpfab import FakeEndpoint
        self.port = port
        self.ep = FakeEndpoint(loop, (f'5.6.{7 + j // 200}.{j % 200 + 1}', UDP_PORT))
        self.ep.datagram_received = self.on_datagram
        self.ep.attach()
        self.id = hashlib.sha384(b'storer:%d' % j).digest()
        self.j, self.target, self.key = j, target, key
        self.state = 'new'

    def begin(self):
        from vf.udpfab import benc
        self.state = 'token'
        self.ep.send(self.target, benc({0: 0, 1: rpc_id_for(b'fv%d' % self.j), 2: self.id, 3: b'findValue',
                                        4: [self.key, {b'p': 0, b'protocolVersion': 1}]}))

    def on_datagram(self, data, src):
        from vf.udpfab import benc, bdec
        m = bdec(data)
        if m.get(0) != 1:
            if m.get(0) == 2:
                self.state = 'error:' + repr(m.get(4))
            return          # requests (pings) from the storing node are left unanswered
        if self.state == 'token':
            self.state = 'store'
            self.ep.send(self.target, benc({0: 0, 1: rpc_id_for(b'st%d' % self.j), 2: self.id, 3: b'store',
                                            4: [self.key, m[3][b'token'], self.port, self.id, 0, {b'protocolVersion': 1}]}))
        elif self.state == 'store':
            self.state = 'stored' if m[3] == b'OK' else 'refused'


# blob server ports over the whole legal range (both sides of 2^15 and of the two port-guessing windows of node.py);
# 65534 because KademliaRPC.store refuses 65535 (tallied, see PORTS)
MIXED_PORTS = (1024, 3333, 32767, 32768, 50505, 65534)
PAGING_MIXED_COUNTS = (1, 6, 8, 9, 30, 100)


def paging_case(net, count, mixed=False):
    from vf.udpfab import node_addr
    lp = net.loop
    lp.activate()
    key = hashlib.sha384(b'paged blob').digest()
    it0, del0 = lp.iterations, lp.stats['delivered']
    storers = [Storer(lp, j, node_addr(0), key, MIXED_PORTS[j % len(MIXED_PORTS)] if mixed else TCP_PORT)
               for j in range(count)]
    for s in storers:
        s.begin()
    lp.run_until(lambda: all(s.state not in ('token', 'store') for s in storers) and not lp.inflight and not lp._ready,
                 max_steps=HIT_STEPS)
    held = sorted((s.ep.addr[0], s.port) for s in storers if s.state == 'stored')     # what the announcers were told
    sink = []
    lp.sent_log = []
    status, task = lp.run_task(value_lookup(net.nodes[1], key, sink), max_steps=HIT_STEPS)
    st, exc = task_outcome(status, task, lp)
    pages = sum(1 for (_, _, src, dst, pt) in lp.sent_log if pt == 0 and src == node_addr(1) and dst == node_addr(0))
    lp.sent_log = None
    return {'count': count, 'stored_ok': sum(s.state == 'stored' for s in storers), 'held': len(held),
            'status': st, 'exc': exc, 'found': len({(a, p) for a, p, _ in sink}),
            'missing': sorted(set(held) - {(a, p) for a, p, _ in sink})[:3],
            'extra': sorted({(a, p) for a, p, _ in sink} - set(held))[:3], 'requests': pages,
            'work': [lp.iterations - it0, lp.stats['delivered'] - del0]}


def judge_paging(obs):
    n = obs['count']
    out = []
    if obs['stored_ok'] != n or obs['held'] != n:
        return [({'kind': 'paging-setup-store-refused', 'n': n}, f"only {obs['held']} of {n} store RPCs were accepted")]
    if obs['status'] != 'done':
        out.append(({'kind': 'paging-lookup-not-finished', 'n': n}, f"value lookup {obs['status']} {obs['exc'] or ''}"))
    elif obs['missing']:
        out.append(({'kind': 'paging-tail', 'n': n},
                    f"{n} peers stored on one node, value lookup returned {obs['found']} (e.g. missing {obs['missing'][0]})"))
    elif obs['extra']:
        out.append(({'kind': 'paging-extra', 'n': n}, f"value lookup returned peers nobody stored: {obs['extra']}"))
    return out


def work_paging(item, res):
    from vf.udpfab import fork_call
    net, info = build_net(2, [0, 1], 0.0, item['seed'])
    try:
        if join_violation(res, info, 2, [0, 1], 0.0, item['seed']):
            return
        for count in [(c, False) for c in item['counts']] + [(c, True) for c in item.get('mixed_counts', ())]:
            count, mixed = count
            obs = fork_call(paging_case, net, count, mixed)
            res.count('executions')
            res.count('evaluations')
            res.count('transitions', sum(obs['work']))
            res.distinct_add('states', ('paging', count, mixed))
            res.distinct_add('nontrivial', ('paging', count, mixed, obs['requests']))
            if mixed and obs['found'] == count and not obs['missing']:
                res.witness('paging_returned_peers_with_tcp_ports_on_both_sides_of_32768')
            if obs['requests'] >= 2:
                res.witness('paging_needed_more_than_one_request')
            for sig, what in judge_paging(obs):
                if mixed:
                    sig = dict(sig, ports='mixed')
                res.violation(sig, what, {'half': 'paging', 'count': count, 'mixed': mixed, 'seed': item['seed']})
            if count in (1, 100):
                again = fork_call(paging_case, net, count, mixed)
                res.count('determinism_replays')
                if canon(again) != canon(obs):
                    res.error(f'C12 paging: nondeterministic replay for N={count}')
    finally:
        net.stop()


# =====================================================================================================================
# termination / validity half
# =====================================================================================================================
FAULT_KINDS = ('silent', 'garbage', 'reserved-ips', 'searcher-identity', 'bad-ports', 'truncated-compact',
               'duplicate-peers', 'endless-pages', 'non-dict', 'wrong-rpc-id', 'other-address', 'fresh-contacts')

RESERVED_IPS = ('10.0.0.1', '192.168.1.1', '127.0.0.1', '0.0.0.0', '224.0.0.1', '100.64.0.1', '192.88.99.1',
                '169.254.1.1', '240.0.0.1', '172.16.5.5', '255.255.255.255')


# one invalid blob-peer address at a time (a page is accepted or rejected as a whole, so each gets its own reply)
BAD_VALUES = [(ip, TCP_PORT) for ip in RESERVED_IPS] + [('8.8.4.9', port) for port in (0, 1, 80, 1023)]


def garbage_catalogue():
    from vf.udpfab import benc
    return [b'\x00\xff\xfegarbage', b'd', b'', b'i42e', b'l' * 64, b'd1:ai1e', benc({0: 7}), benc({1: b'x'}),
            benc({0: 1, 1: b'short', 2: b'id', 3: b'x'}), b'di0ei1ei1e20:abc', b'li0ee']


class Faulty:
    """A node that is silent, answers every request with garbage, or answers with one hostile reply shape."""

    def __init__(self, loop, addr, my_id, kind, searcher):
        from vf.udpfab import FakeEndpoint
        self.ep = FakeEndpoint(loop, addr)
        self.ep.datagram_received = self.on_datagram
        self.ep.attach()
        self.id, self.kind, self.searcher = my_id, kind, searcher     # searcher = (id, ip, udp, tcp)
        self.count = 0
        self.garbage = garbage_catalogue()

    def fresh_id(self, tag):
        return hashlib.sha384(b'%s:%s:%d' % (self.id[:6], tag, self.count)).digest()

    @staticmethod
    def compact(ip, port, nid):
        return bytes(int(x) for x in ip.split('.')) + (port & 0xffff).to_bytes(2, 'big') + nid

    def contacts(self, key):
        k, (sid, sip, sudp, stcp) = self.kind, self.searcher
        if k == 'reserved-ips':
            return [[self.fresh_id(b'r%d' % i), ip.encode(), UDP_PORT] for i, ip in enumerate(RESERVED_IPS)]
        if k == 'searcher-identity':
            return [[sid, sip.encode(), sudp], [sid, b'7.7.7.7', UDP_PORT], [self.fresh_id(b's'), sip.encode(), sudp],
                    [key, sip.encode(), sudp]]
        if k == 'bad-ports':
            return [[self.fresh_id(b'p%d' % i), b'8.8.4.%d' % (i + 1), port]
                    for i, port in enumerate((0, 65536, 1023, -1, 70000, 1))]
        if k == 'truncated-compact':
            return [[self.fresh_id(b't0'), b'8.8.5.1'], [self.fresh_id(b't1')[:47], b'8.8.5.2', UDP_PORT],
                    [self.fresh_id(b't2')], []]
        if k == 'duplicate-peers':
            return [[self.fresh_id(b'd'), b'8.8.6.1', UDP_PORT]] * (2 * K)
        if k == 'fresh-contacts':
            return [[key[:-2] + bytes([self.count & 255, i]), b'46.%d.%d.%d' % (self.id[0], self.count & 255, i + 1), UDP_PORT]
                    for i in range(K)]
        return []

    def values(self, key, page):
        k, (sid, sip, sudp, stcp) = self.kind, self.searcher
        if k.startswith('one-bad-value:'):
            _, ip, port = k.split(':')
            return [self.compact(ip, int(port), self.fresh_id(b'one'))], 1
        if k == 'reserved-ips':
            return [self.compact(ip, TCP_PORT, self.fresh_id(b'v%d' % i)) for i, ip in enumerate(RESERVED_IPS[:K])], 1
        if k == 'searcher-identity':
            return [self.compact(sip, stcp, sid)], 1
        if k == 'bad-ports':
            return [self.compact('8.8.4.9', port, self.fresh_id(b'q%d' % port)) for port in (0, 1023, 1, 80)], 1
        if k == 'truncated-compact':
            good = self.compact('8.8.5.9', TCP_PORT, self.fresh_id(b'g'))
            return [b'', good[:5], good[:6], good[:53], good + b'\x00'], 1
        if k == 'duplicate-peers':
            return [self.compact('8.8.6.9', TCP_PORT, hashlib.sha384(b'dup').digest())] * K, 2
        if k == 'endless-pages':
            base = self.id[0] * 1_000_000 + page * K
            return [self.compact('45.%d.%d.%d' % ((j >> 16) & 255, (j >> 8) & 255, j & 255), TCP_PORT,
                                 hashlib.sha384(b'endless:%d' % j).digest()) for j in range(base, base + K)], 10 ** 9
        return [], 0

    def on_datagram(self, data, src):
        from vf.udpfab import benc, bdec
        try:
            m = bdec(data)
        except Exception:   # noqa
            return
        if not isinstance(m, dict) or m.get(0) != 0:
            return                       # only requests get an answer
        self.count += 1
        rpc_id, method, args = m.get(1), m.get(3), m.get(4) or []
        k = self.kind
        if k == 'silent':
            return
        if k == 'garbage':
            self.ep.send(src, self.garbage[self.count % len(self.garbage)])
            return
        key = args[0] if args and isinstance(args[0], bytes) else b''
        page = args[1].get(b'p', 0) if len(args) > 1 and isinstance(args[1], dict) else 0
        if method == b'ping':
            payload = b'pong'
        elif method == b'store':
            payload = b'OK'
        elif method == b'findNode':
            payload = self.contacts(key)
        else:
            vals, pages = self.values(key, page)
            payload = {b'token': hashlib.sha384(b'token').digest(), b'p': pages, b'protocolVersion': 1}
            if page == 0:
                payload[b'contacts'] = self.contacts(key)
            if vals:
                payload[key] = vals
        if k == 'non-dict':
            payload = ([b'x', b'y'], 7, b'zz', {b'a': 1})[self.count % 4]
        reply_id = rpc_id
        if k == 'wrong-rpc-id' and isinstance(rpc_id, bytes):
            reply_id = bytes(b ^ 0xff for b in rpc_id)
        out = benc({0: 1, 1: reply_id, 2: self.id, 3: payload})
        self.ep.send(src, out, src=('9.9.9.9', UDP_PORT) if k == 'other-address' else None)


def term_keys(n, searcher):
    from vf.udpfab import node_id
    other = (searcher + 1) % n
    return {'far': blob_key(n, searcher, 'far'), 'other_id': node_id(other), 'own_id': node_id(searcher),
            'stored': blob_key(n, other, 'near_boot')}


TERM_LOOKUPS = (('node', 'far'), ('node', 'other_id'), ('node', 'own_id'), ('value', 'stored'), ('value', 'far'))


def term_prepare(net, searcher):
    """Before any node is marked: one honest node announces the 'stored' key."""
    lp = net.loop
    lp.activate()
    keys = term_keys(net.n, searcher)
    other = (searcher + 1) % net.n
    status, task = lp.run_task(net.nodes[other].announce_blob(keys['stored'].hex()), max_steps=HIT_STEPS)
    return task_outcome(status, task)[0] == 'done' and len(task.result()) > 0


def term_case(net, searcher, assign, prefix=(), bound=0, alpha_name='lossy'):
    """assign: tuple of fault kinds ('honest' = unchanged) for the non-searcher nodes in index order."""
    from vf.explore import Chooser
    from vf.udpfab import node_addr, node_ip
    from refs.kademlia_ref import is_valid_peer_address
    lp = net.loop
    lp.activate()
    lp.trace_digest = hashlib.blake2b(digest_size=8)
    n = net.n
    me = net.nodes[searcher]
    my_addr = node_addr(searcher)
    sdesc = (net.ids[searcher], node_ip(searcher), UDP_PORT, TCP_PORT)
    others = [i for i in range(n) if i != searcher]
    for i, kind in zip(others, assign):
        if kind != 'honest':
            net.nodes[i].stop()
            lp.endpoints.pop(node_addr(i), None)
            Faulty(lp, node_addr(i), net.ids[i], kind, sdesc)
    lp.run_until(lambda: not lp._ready, max_steps=1000)
    keys = term_keys(n, searcher)
    ch = Chooser(prefix)
    alpha = alphabet(alpha_name)
    devs = []
    it0, del0 = lp.iterations, lp.stats['delivered']
    obs = {'lookups': []}
    for what, kname in TERM_LOOKUPS:
        key = keys[kname]
        sink = []
        lp.sent_log = []
        t0 = lp.time()
        e0 = len(lp.dgram_errors)
        i0 = lp.iterations
        coro = node_lookup(me, key, sink, lambda: lp.replied[my_addr]) if what == 'node' else value_lookup(me, key, sink)
        status, task = lp.run_task(coro, chooser=ch if bound else None, budget=bound - ch.cost(), alpha=alpha,
                                   max_steps=TERM_STEPS, horizon_t=t0 + TERM_VTIME,
                                   on_choice=lambda kind, k, cost: devs.append(kind))
        st, exc = task_outcome(status, task, lp)
        reqs = [dst for (_, _, src, dst, pt) in lp.sent_log if pt == 0 and src == my_addr]
        lp.sent_log = None
        per_dst = {}
        for d in reqs:
            per_dst[d] = per_dst.get(d, 0) + 1
        rec = {'lookup': what, 'key': kname, 'status': st, 'exc': exc, 'duration': round(lp.time() - t0, 3),
               'contacted': len(per_dst), 'max_requests_to_one_endpoint': max(per_dst.values() or [0]),
               'yielded': len(sink), 'handler_exceptions': len(lp.dgram_errors) - e0, 'iterations': lp.iterations - i0}
        if what == 'node':
            rec['never_replied'] = sorted({(a, p) for a, p, _, ok in sink if not ok})
            rec['self'] = sorted({(a, p) for a, p, nid, _ in sink if nid == net.ids[searcher] or (a, p) == my_addr})
        else:
            rec['invalid'] = sorted({(a, p) for a, p, _ in sink if not is_valid_peer_address(a, p)})
            rec['self'] = sorted({(a, p) for a, p, nid in sink if (a, p) == (node_ip(searcher), TCP_PORT)})
        obs['lookups'].append(rec)
        if st in ('horizon_steps', 'horizon_time', 'deadlock'):
            break                      # the searcher is wedged; later lookups would only repeat it
    obs['deviations'] = devs
    obs['digest'] = lp.trace_digest.hexdigest()
    obs['work'] = [lp.iterations - it0, lp.stats['delivered'] - del0]
    return ch.trace, obs


def judge_term(case, obs):
    out = []
    kinds = sorted(set(case['assign']) - {'honest'})
    fault = '+'.join(kinds) or 'none'
    sched = 'default' if not trim(case.get('choices', ())) else 'faulty-delivery'
    for r in obs['lookups']:
        lk = r['lookup']
        if r['status'] in ('horizon_steps', 'horizon_time', 'deadlock'):
            if r['max_requests_to_one_endpoint'] > 50 and lk == 'value':
                sig = {'kind': 'endless-pages'}
                what = (f"value lookup never finishes: {r['max_requests_to_one_endpoint']} page requests to one node "
                        f"that keeps returning fresh full pages ({r['status']} after {r['duration']} virtual s)")
            else:
                sig = {'kind': 'lookup-not-finished', 'lookup': lk, 'fault': fault, 'status': r['status'], 'schedule': sched}
                what = f"{lk} lookup for '{r['key']}' did not finish: {r['status']} (contacted {r['contacted']})"
            out.append((sig, what))
            continue
        limit = (r['contacted'] + 2) * RPC_TIMEOUT
        if r['duration'] > limit:
            out.append(({'kind': 'lookup-too-slow', 'lookup': lk, 'fault': fault, 'schedule': sched},
                        f"{lk} lookup for '{r['key']}' took {r['duration']} virtual s > ({r['contacted']}+2)*{RPC_TIMEOUT}"))
        if lk == 'node':
            if r['never_replied']:
                out.append(({'kind': 'node-lookup-yielded-silent-contact', 'fault': fault, 'schedule': sched},
                            f"node lookup for '{r['key']}' yielded {r['never_replied'][:3]} which never delivered a reply"))
            if r['self']:
                out.append(({'kind': 'node-lookup-yielded-searcher', 'fault': fault, 'schedule': sched},
                            f"node lookup for '{r['key']}' yielded the searcher itself {r['self']}"))
        else:
            if r['invalid']:
                out.append(({'kind': 'value-lookup-invalid-address', 'fault': fault, 'schedule': sched},
                            f"value lookup for '{r['key']}' yielded {r['invalid'][:3]}"))
    return out


def note_term(res, case, obs):
    res.count('executions')
    res.count('evaluations', len(obs['lookups']))
    res.count('transitions', sum(obs['work']))
    ck = (case['n'], case['searcher'], tuple(case['assign']))
    res.distinct_add('states', ('term', ck, tuple(trim(case.get('choices', ())))))
    res.distinct_add('nontrivial', ('term', ck, obs['digest']))
    for r in obs['lookups']:
        if r['status'] == 'done' and r['duration'] >= RPC_TIMEOUT:
            res.witness('lookup_survived_rpc_timeouts')
        if r['status'] == 'raised':
            res.tally('lookup_raised:' + (r['exc'] or '').split(':')[0])
        if r['handler_exceptions']:
            res.tally('datagram_handler_exceptions', r['handler_exceptions'])
        if r['lookup'] == 'value' and r['self']:
            res.tally('interpretation_only:value_lookup_yielded_searcher_own_address')
        if r['lookup'] == 'value' and r['yielded']:
            res.witness('value_lookup_yielded_peers')
        if r['lookup'] == 'node' and r['yielded']:
            res.witness('node_lookup_yielded_contacts')
        if r['status'] == 'done':
            res.setmax('max_iterations_of_a_finished_lookup', r['iterations'])
            res.setmax('max_lookup_seconds_over_limit_ratio_x1000',
                       int(1000 * r['duration'] / ((r['contacted'] + 2) * RPC_TIMEOUT)))
    for d in obs['deviations']:
        res.witness('deviation_' + d.lower())


def term_assignments(n, mixed):
    m = n - 1
    out = [tuple(['honest'] * m)]
    for kind in FAULT_KINDS:
        for r in range(1, m + 1):
            for sub in itertools.combinations(range(m), r):
                out.append(tuple(kind if i in sub else 'honest' for i in range(m)))
    if n == 3:
        out += [('one-bad-value:%s:%d' % bv, 'honest') for bv in BAD_VALUES]
    if mixed:
        seen = set(out)
        for combo in itertools.product(('honest',) + FAULT_KINDS, repeat=m):
            if combo not in seen:
                out.append(combo)
    return out


def work_term(item, res):
    """item = dict(n, searcher, seed, assigns=[...], dfs_bound, dfs_assigns=set of assign tuples)"""
    from vf.udpfab import fork_call
    from vf.explore import dfs_deviation
    n, searcher, seed = item['n'], item['searcher'], item['seed']
    net, info = build_net(n, list(range(n)), 0.0, seed)
    try:
        res.count('networks_joined')
        if join_violation(res, info, n, list(range(n)), 0.0, seed):
            return
        if not term_prepare(net, searcher):
            # an honest, loss-free, joined network in which a plain announce stores nowhere: the hit half owns this
            res.violation({'kind': 'announce-stored-nowhere', 'n': n, 'hash': 'near_boot', 'schedule': 'default'},
                          'announce_blob (preparing the termination half) returned no storing node',
                          {'half': 'hit', 'n': n, 'order': list(range(n)), 'stagger': 0.0, 'seed': seed,
                           'ann': (searcher + 1) % n, 'hash': 'near_boot', 'choices': []})
            return
        base = {'half': 'term', 'n': n, 'searcher': searcher, 'seed': seed}
        wedged = set()
        judged = set()
        rechecked = 0
        for assign in item['assigns']:
            assign = tuple(assign)
            judged.add(assign)
            case = dict(base, assign=list(assign), choices=[])
            _, obs = fork_call(term_case, net, searcher, assign)
            note_term(res, case, obs)
            viol = judge_term(case, obs)
            if any(r['status'] != 'done' and r['status'] != 'raised' for r in obs['lookups']):
                wedged.add(assign)
            for sig, what in viol:
                res.violation(sig, what, replay_dict(case))
            if (viol and rechecked < 2) or item.get('selfcheck'):
                rechecked += 1 if viol else 0
                _, again = fork_call(term_case, net, searcher, assign)
                res.count('determinism_replays')
                if canon(again) != canon(obs):
                    res.error(f'C12 term: nondeterministic execution {case}')
            if len(res.samples) < 1 and any(k != 'honest' for k in assign):
                res.sample({'case': case, 'lookups': [(r['lookup'], r['key'], r['status'], r['duration'], r['contacted'])
                                                      for r in obs['lookups']]})
        bound = item.get('dfs_bound', 0)
        for assign in item.get('dfs_assigns', ()):
            assign = tuple(assign)
            if assign not in judged:
                _, obs = fork_call(term_case, net, searcher, assign)
                if any(r['status'] != 'done' and r['status'] != 'raised' for r in obs['lookups']):
                    wedged.add(assign)
            if assign in wedged:
                # the default execution already never finishes (every datagram of an endless exchange would be a
                # choice point): reported above, nothing to add by losing datagrams
                res.tally('loss_dfs_skipped_default_execution_already_nonterminating')
                continue
            last = {}

            def run(ch):
                trace, obs = fork_call(term_case, net, searcher, assign, tuple(ch.prefix), bound, 'lossy')
                ch.trace[:] = trace
                return obs

            def on_result(ch, obs):
                c = dict(base, assign=list(assign), choices=trim(ch.choices), bound=bound, alphabet='lossy')
                if not c['choices']:
                    return           # the default execution was already counted above
                note_term(res, c, obs)
                last['c'], last['obs'] = c, obs
                for sig, what in judge_term(c, obs):
                    res.violation(sig, what, replay_dict(c))

            r = dfs_deviation(run, bound=bound, on_result=on_result, max_executions=20000)
            if r['capped']:
                res.count('capped')
            if last:
                _, again = fork_call(term_case, net, searcher, assign, tuple(last['c']['choices']), bound, 'lossy')
                res.count('determinism_replays')
                if canon(again) != canon(last['obs']):
                    res.error(f"C12 term: nondeterministic replay {last['c']}")
    finally:
        net.stop()


# =====================================================================================================================
# run / replay
# =====================================================================================================================
def dispatch(item, res):
    {'hit': work_hit, 'paging': work_paging, 'term': work_term}[item['half']](item, res)


def plan(tier, seed):
    quick = tier == 'quick'
    items = []
    hit_ns = [2, 3, 4, 5, 8, 24] if quick else [2, 3, 4, 5, 8, 9, 12, 24, 40]
    for n in hit_ns:
        orders = join_orders(n)
        if quick and n == 24:
            # the smallest size at which PYTHONHASHSEED changes the join (set order in the routing task) and lookups
            # need a second round: identity and reversed order only
            orders = [orders[0], orders[-1]]
        staggers = [0.0, 3.0] if n <= 5 else [3.0]
        for oi, order in enumerate(orders):
            for stagger in staggers:
                cases = [(a, h) for a in announcers(n) for h in HASH_NAMES]
                items.append({'half': 'hit', 'n': n, 'order': order, 'stagger': stagger, 'seed': seed, 'cases': cases,
                              'selfcheck': oi == 0})
                # announcement histories (own items: one 24-48 h time travel each).  'long' = single announcements + the
                # re-announcement histories over 48 h, 'short' = single announcements over 24 h + 1 s only
                if stagger == staggers[0]:
                    if quick:
                        expiry = ('long+multi' if n <= 3 else 'long') if (oi == 0 and n <= 4) else False
                    elif oi == 0 and n <= 12:
                        expiry = 'long+multi' if n <= 5 else 'short'
                    else:
                        expiry = 'short' if (oi == len(orders) - 1 and n <= 5) else False
                    if expiry:
                        items.append({'half': 'hit', 'n': n, 'order': order, 'stagger': stagger, 'seed': seed,
                                      'cases': [], 'expiry': expiry})
                    if oi == 0 and n in ((3,) if quick else (3, 5)):
                        items.append({'half': 'hit', 'n': n, 'order': order, 'stagger': stagger, 'seed': seed,
                                      'cases': [], 'port_change': True})
    # announcer tcp port, one factor at a time: small n through both entry points (every searcher also stores the blob and
    # knows the announcer's udp port), n = 12 through the finder (three searchers learn the announcer from the network
    # only; accumulate_peers would have to guess the udp port from the tcp port there, which node.py only does for 3333+)
    for n, entry in ((2, 'both'), (3, 'both'), (12, 'finder')):
        items.append({'half': 'hit', 'n': n, 'order': list(range(n)), 'stagger': 0.0, 'seed': seed, 'cases': [],
                      'port_cases': [(n - 1, 'far', port, entry) for port in PORTS + (PORT_REFUSED,)]})
    # the real BlobAnnouncer loop needs more than 4 storing peers to consider a blob announced: n = 6
    items.append({'half': 'hit', 'n': 6, 'order': list(range(6)), 'stagger': 0.0, 'seed': seed, 'cases': [],
                  'announcer_hours': ANNOUNCER_HOURS[tier], 'follow_expiry': not quick})
    # deviation DFS (separate items: each re-runs the deterministic join prefix once, then forks per execution)
    for d in dfs_scope(tier):
        for part in range(d['parts']):
            items.append({'half': 'hit', 'n': d['n'], 'order': d['order'], 'stagger': d['stagger'], 'seed': seed,
                          'dfs': {'ann': d['ann'], 'hash': d['hash'], 'bound': d['bound'], 'alphabet': d['alphabet'],
                                  'part': part, 'parts': d['parts'], 'entry': d['entry'], 'idle': d['idle']}})
    counts = list(range(1, 101))
    for lo in range(0, 100, 10):
        items.append({'half': 'paging', 'counts': counts[lo:lo + 10], 'seed': seed,
                      'mixed_counts': [c for c in PAGING_MIXED_COUNTS if lo < c <= lo + 10]})
    for n in (3, 4, 5, 6):
        searchers = [n - 1] if (quick or n >= 5) else [n - 1, 0]
        for s in searchers:
            assigns = term_assignments(n, mixed=(not quick and n <= 3))
            dfs_b, dfs_a = term_dfs_scope(tier, n, s, assigns)
            chunks = max(1, (len(assigns) + 23) // 24)        # round robin: the slow (never-ending) kinds are spread out
            for c in range(chunks):
                items.append({'half': 'term', 'n': n, 'searcher': s, 'seed': seed, 'assigns': assigns[c::chunks],
                              'selfcheck': c == 0 and n <= 4})
            dfs_list = [a for a in assigns if a in dfs_a]
            per = 1 if dfs_b >= 2 else 6
            for lo in range(0, len(dfs_list), per):
                items.append({'half': 'term', 'n': n, 'searcher': s, 'seed': seed, 'assigns': [],
                              'dfs_bound': dfs_b, 'dfs_assigns': dfs_list[lo:lo + per]})
    return items


def dfs_scope(tier):
    """Which (network, announcer, hash) cases get the deviation DFS, with which bound / alphabet / split."""
    out = []

    def add(n, order, stagger, ann, h, bound, alpha, parts=1, entry='finder'):
        out.append({'n': n, 'order': list(order), 'stagger': stagger, 'ann': ann, 'hash': h, 'bound': bound,
                    'alphabet': alpha, 'parts': parts, 'entry': entry, 'idle': IDLE if entry == 'accumulate' else 0})
    if tier == 'quick':
        for order in join_orders(2):
            for ann in range(2):
                for h in HASH_NAMES:
                    add(2, order, 0.0, ann, h, 1, 'full')
        for order in join_orders(3):
            for ann in ((0, 2) if order == [0, 1, 2] else (2,)):
                add(3, order, 0.0, ann, 'far', 1, 'full')
        add(4, join_orders(4)[0], 0.0, 3, 'far', 1, 'full', parts=2)
        add(4, join_orders(4)[-1], 0.0, 0, 'far', 1, 'full', parts=2)
        # the queue entry point (Node.accumulate_peers): the confirming ping / pong are datagrams of the lookup phase too
        # (lookup phase only, after IDLE seconds so that peers need the ping; HOLD = one datagram delayed as long as
        # possible without a timer firing is an extra deviation here)
        for order in join_orders(2):
            for ann in range(2):
                add(2, order, 0.0, ann, 'far', 1, 'full+hold', entry='accumulate')
        for ann in (0, 2):
            add(3, [0, 1, 2], 0.0, ann, 'far', 1, 'full+hold', entry='accumulate')
    else:
        for order in join_orders(2):
            for ann in range(2):
                add(2, order, 0.0, ann, 'far', 1, 'full+hold', entry='accumulate')
        add(2, [0, 1], 0.0, 1, 'far', 2, 'full+hold', parts=2, entry='accumulate')
        for order in join_orders(3):
            add(3, order, 0.0, 2, 'far', 1, 'full+hold', entry='accumulate')
        add(4, [0, 1, 2, 3], 0.0, 3, 'far', 1, 'full+hold', parts=2, entry='accumulate')
        for order in join_orders(2):
            for ann in range(2):
                for h in HASH_NAMES:
                    add(2, order, 0.0, ann, h, 1, 'full')
        for order in join_orders(3):
            for ann in range(3):
                for h in (HASH_NAMES if order == [0, 1, 2] else ('far',)):
                    add(3, order, 0.0, ann, h, 1, 'full')
        for order in join_orders(4):
            add(4, order, 0.0, 3, 'far', 1, 'full', parts=2)
        for order in join_orders(2):
            add(2, order, 0.0, 1, 'far', 2, 'full', parts=4)
        add(3, [0, 1, 2], 0.0, 2, 'far', 2, 'quiescent', parts=8)
        add(4, [0, 1, 2, 3], 0.0, 3, 'far', 2, 'quiescent', parts=32)
        for ann in (0, 4):
            add(5, list(range(5)), 0.0, ann, 'far', 1, 'quiescent', parts=2)
        for n in (8, 9):
            add(n, list(range(n)), 0.0, n - 1, 'far', 1, 'quiescent', parts=4)
    return out


def term_dfs_scope(tier, n, searcher, assigns):
    """Loss / over-timeout delay as deviations: which assignments, which bound."""
    single = [a for a in assigns if len(set(a) - {'honest'}) <= 1 and not any(k.startswith('one-bad-value') for k in a)]
    if tier == 'quick':
        if n == 3:
            return 1, set(single)
        return 0, set()
    light = {'honest', 'silent', 'garbage', 'fresh-contacts', 'duplicate-peers'}
    if n == 3:
        if searcher == n - 1:
            return 2, set(a for a in single if set(a) <= {'honest', 'silent', 'garbage'})
        return 1, set(single)
    if n == 4 and searcher == n - 1:
        return 1, set(a for a in single if set(a) <= light)
    return 0, set()


def estimate(it):
    """Rough relative cost of a work item (only used to order the pool's queue)."""
    n = it.get('n', 2)
    if it['half'] == 'paging':
        return 1
    if it['half'] == 'term':
        return len(it['assigns']) * 0.1 * n / 3 + len(it.get('dfs_assigns', ())) * (25 if it.get('dfs_bound', 0) >= 2 else 1.5)
    d = it.get('dfs')
    if d:
        return (60 if d['bound'] >= 2 else 3 * n) / d['parts'] * (1 if d['alphabet'] == 'full' else 0.5) + 0.1 * n
    return 0.12 * n + 0.01 * n * len(it.get('cases', ())) + ({'long+multi': 3.0, 'long': 2.4, 'short': 1.1}.get(it.get('expiry'), 0) * n) + \
        (1.7 * n if it.get('port_change') else 0) + it.get('announcer_hours', 0) / 24 * 1.1 * n


def run(ctx):
    from refs import kademlia_ref
    kademlia_ref.selftest()
    items = plan(ctx.tier, ctx.seed)
    # longest items first so the pool drains evenly
    items.sort(key=lambda it: -estimate(it))
    ctx.pmap(dispatch, items)
    quick = ctx.quick
    scope = dfs_scope(ctx.tier)
    ctx.meta.update(
        rule=('hit: every (n, join order, start stagger 0/3 s, announcer, blob hash in {next to announcer id, next to '
              'bootstrap id, far from all ids}) on the default FIFO schedule; every choice sequence within the deviation '
              'bound (early / non-oldest delivery, duplication, a timer overtaking pending datagrams but never an RPC '
              'timeout) over the announce+lookup phases of the cases listed in bounds.deviation_cases, lookups through '
              'the value finder and, after 1200 idle seconds (contacts no longer known good, so blob peers are confirmed '
              'by ping), through Node.accumulate_peers (lookup phase only, + HOLD = one datagram delayed until nothing else '
              'can happen without a timer), announcer must reach the peer queue within (n+2) RPC timeouts; announcement '
              'histories on one 24-48 h timeline of unbroken periodic traffic: every (announcer, hash) announced once, the '
              'same node re-announcing 1 s / 12 h / 24 h-1 s / 24 h 10 min later, a second node announcing 12 h later, a re-announcement '
              'with every store datagram duplicated, a re-announcement from a new tcp port, up to three announcers of one '
              'blob listed in first-announcement order each announcing once or again 12 h later (all 2^3 patterns, probed '
              'every 12 h and after each of the hourly refresh_node sweeps that follow a wave of expiries), probed by every other node at '
              'latest+24h-1s (found), +24h exactly and +24h+1s (gone), judged against "age counts from the latest '
              'announcement"; the real BlobAnnouncer loop (stub storage with SQLiteStorage policy) for 26 h (quick) / 96 h '
              'then stopped and followed to expiry (thorough); paging: every N = 1..100; term: for every '
              'fault kind every subset of the non-searcher nodes (n=3: also one node answering with each single invalid '
              'peer address; thorough n=3: every mixed assignment) x 5 lookups (3 node, 2 value), plus loss / over-timeout '
              'delay of each datagram as deviations. Distinct non-trivial = distinct (case, digest of the observed delivery '
              'sequence); states = distinct (case, choice prefix) nodes.'),
        exhaustive=True,
        bounds={'hit_n': [2, 3, 4, 5, 8, '24 (identity + reversed order only)'] if quick else [2, 3, 4, 5, 8, 9, 12, 24, 40],
                'join_orders': 'all permutations n<=4; all rotations + reversed n<=12; every 2nd rotation + reversed n=24,40',
                'announcers': 'all (n<=5) else {0, 1, n-1}', 'hashes': list(HASH_NAMES),
                'deviation_cases': sorted({(d['n'], d['bound'], d['alphabet'], d['entry'],
                                           sum(1 for e in scope if (e['n'], e['bound'], e['alphabet'], e['entry']) ==
                                               (d['n'], d['bound'], d['alphabet'], d['entry']))) for d in scope}),
                'deviation_cases_format': '(n, bound, alphabet, lookup entry point, number of (order, announcer, hash) '
                                          'cases); see dfs_scope()',
                'history_n': {'reannouncement_histories_48h': [2, 3, 4] if quick else [2, 3, 4, 5],
                              'single_announcement_24h_only': [] if quick else [8, 9, 12],
                              'new_tcp_port': [3] if quick else [3, 5], 'blob_announcer': {'n': 6, 'hours': ANNOUNCER_HOURS[ctx.tier]}},
                'paging_counts': '1..100 (+ mixed tcp ports for N in %s)' % (PAGING_MIXED_COUNTS,),
                'announcer_tcp_ports': {'enforced': list(PORTS), 'tallied': [PORT_REFUSED], 'n': [2, 3, 12]}, 'term_n': [3, 4, 5, 6], 'fault_kinds': list(FAULT_KINDS),
                'single_invalid_values': ['%s:%d' % bv for bv in BAD_VALUES],
                'term_loss_scope': 'quick: n=3 bound 1; thorough: n=3 bound 2 (honest/silent/garbage) + bound 1 (all '
                                   'kinds), n=4 bound 1 (light kinds)',
                'step_horizon': {'hit': HIT_STEPS, 'term': TERM_STEPS}, 'join_virtual_seconds': '>= 4600'},
        bound_completed={'hit_deviation_bound': 1 if quick else 2, 'term_loss_bound': 1 if quick else 2},
        assumptions=[
            'n nodes share one process: lbry.dht.peer.make_kademlia_peer is a module-level lru_cache, so KademliaPeer '
            'objects (and the tcp_port a store RPC sets on them) are shared between nodes, as in upstream tests',
            'hit half: exploration never delays a datagram or stalls the loop long enough for an RPC to time out (A.6: '
            'that is loss); shorter delays across the 0.1 s / 1 s periodic timers are explored',
            'join phase runs on the default schedule; closest-K is judged only when routing tables were unchanged over '
            'a 600 s window after >= 4000 virtual s',
            'an exception escaping datagram_received is logged by the loop and the transport stays open (what CPython '
            '3.12 selector datagram transports do)',
            'os.urandom / random used by lbry.dht are replaced by deterministic streams keyed by VERIF_SEED',
            'a lookup "finishes" when its async iterator is exhausted or raises; faulty nodes are marked after the join',
            'BlobAnnouncer runs against a stub of the two SQLiteStorage calls it makes (due when next_announce_time is '
            'past; success moves it DATA_EXPIRATION/2 ahead), on the virtual clock',
        ],
        expected_witnesses=['announce_stored', 'stored_on_exactly_k_closest', 'deviation_changed_delivery_order',
                            'announcer_with_tcp_port_above_32767_found',
                            'announcer_found_by_searcher_that_does_not_store_the_blob',
                            'paging_returned_peers_with_tcp_ports_on_both_sides_of_32768',
                            'deviation_dup', 'deviation_timer', 'deviation_hold', 'paging_needed_more_than_one_request',
                            'accumulate_peers_queued_announcer_after_network_traffic',
                            'accumulate_peers_confirmation_overlapped_timers',
                            'every_node_ran_hourly_sweep_between_record_expiry_and_probe',
                            'refreshed_record_found_after_sweep_removed_stale_records_of_same_blob',
                            'lookup_survived_rpc_timeouts', 'deviation_drop', 'deviation_late',
                            'expiry_probed_at_exact_boundary', 'hit_one_second_before_expiry',
                            'found_more_than_24h_after_first_announcement_thanks_to_reannouncement',
                            'two_announcers_expire_on_their_own_clocks', 'reannouncement_with_duplicated_store_datagrams',
                            'reannouncement_from_new_tcp_port_replaced_the_entry',
                            'blob_announcer_schedule_keeps_blob_findable_past_24h',
                            'node_lookup_yielded_contacts', 'value_lookup_yielded_peers'] +
                           ['lookup_needed_2_rounds'],
    )


def replay(data):
    from vf.core import Result
    res = Result()
    half = data['half']
    log = [f'C12 replay {json.dumps(data, sort_keys=True)}']
    if half == 'paging':
        net, info = build_net(2, [0, 1], 0.0, data.get('seed', 0))
        try:
            obs = paging_case(net, data['count'], bool(data.get('mixed')))
        finally:
            net.stop()
        viol = judge_paging(obs)
        log.append(canon(obs))
    elif half in ('hit', 'expiry', 'join', 'portchange', 'announcer'):
        net, info = build_net(data['n'], data['order'], data['stagger'], data.get('seed', 0))
        try:
            fixed = info['fixed'] and info['all_joined']
            log.append(f'join: {info}')
            if half == 'join':
                viol = [({'kind': 'join-never-quiesces', 'n': data['n']}, 'virtual time does not advance')] if info['stuck'] \
                    else [] if info['all_joined'] else [({'kind': 'join-failed', 'n': data['n']}, 'not every node joined')]
            elif half == 'expiry':
                obs = expiry_case(net, bool(data.get('long')), bool(data.get('multi')))
                viol = judge_expiry(data['n'], obs)
                log.append(canon(obs['announce']))
                log += [canon(p) for p in obs['probes'] if (p['expect'] == 'found') != p['hit']]
            elif half == 'portchange':
                obs = port_change_case(net)
                viol = judge_port_change(data['n'], obs)
                log.append(canon(obs))
            elif half == 'announcer':
                obs = announcer_case(net, data['hours'], bool(data.get('follow_expiry')))
                viol = judge_announcer(data['n'], obs)
                log.append(canon({k: v for k, v in obs.items() if k != 'probes'}))
                log += [canon(p) for p in obs['probes'] if (p['expect'] == 'found') != p['hit']]
            else:
                key = blob_key(data['n'], data['ann'], data['hash'])
                prepared = hit_prepare(net, data['ann'], key, data.get('idle', 0), data.get('port', TCP_PORT)) \
                    if data.get('lookup_only') else None
                _, obs = hit_case(net, data['ann'], key, tuple(data.get('choices', ())), data.get('bound', 0),
                                  data.get('alphabet', 'full'), data.get('entry', 'finder'), data.get('idle', 0), prepared,
                                  data.get('port', TCP_PORT))
                viol = judge_hit(data, obs, fixed)
                log.append(canon(obs))
        finally:
            net.stop()
    else:
        net, info = build_net(data['n'], list(range(data['n'])), 0.0, data.get('seed', 0))
        try:
            term_prepare(net, data['searcher'])
            _, obs = term_case(net, data['searcher'], tuple(data['assign']), tuple(data.get('choices', ())),
                               data.get('bound', 0), data.get('alphabet', 'lossy'))
        finally:
            net.stop()
        viol = judge_term(data, obs)
        log.append(canon(obs))
    for sig, what in viol:
        log.append(f'VIOLATED {json.dumps(sig, sort_keys=True)}: {what}')
    return bool(viol), '\n'.join(log)
