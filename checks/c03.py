"""C03 - transaction funding: conservation, fee bounds, change, clean failure.

Bounded-exhaustive enumeration (no sampling) of wallet UTXO multisets x target placements x output-list
shapes x pre-chosen inputs x fee rates x coin-selection strategies, every case executed on the real
Ledger/Database/Account/Transaction code (vf.wallet_h) and judged by refs/fee_ref.py, a reference written
from the property statement and the public transaction encoding.
"""
import itertools
import traceback

PROPERTY = 'C03'
LEVEL = 'exploration'
HASHSEEDS = {'quick': 1, 'thorough': 1}

COIN = 10 ** 8
CENT = 10 ** 6
DUST = 1000
IN_BYTES = 148
OUT_BYTES = 34          # a real P2PKH output
PRICE_BYTES = 46        # what the wallet charges for a prospective change output (32-byte placeholder hash)
ALL_STRATEGIES = ['sqlite', 'prefer_confirmed', 'only_confirmed', 'standard', 'branch_and_bound',
                  'closest_match', 'random_draw']
QUICK_STRATEGIES = ['prefer_confirmed', 'sqlite', 'branch_and_bound']
CHUNK = 160     # cases per pool item


# ------------------------------------------------------------------------------------------------
# alphabets
# ------------------------------------------------------------------------------------------------

def amount_of(sym, fpb):
    """Amount classes taken from the branch conditions of the funding code (I = fee of a 148-byte input)."""
    i = IN_BYTES * fpb
    return {
        'neg': i // 2,              # below the input fee: negative effective amount
        'zero': i,                  # effective amount 0
        'one': i + 1,               # fee + 1: effective amount 1
        'dust': i + DUST,           # effective amount == DUST
        'dust1': i + DUST + 1,      # effective amount == DUST + 1
        'cent': CENT,               # 0.01 LBC
        '1': COIN,
        '1e': COIN + 1,             # 1 + epsilon
        '5': 5 * COIN,
        '10': 10 * COIN,
        'u1': i + 60 * fpb,         # pays an empty transaction's fee and the price of a change output, leaves < DUST
    }[sym]


QUICK_AMOUNTS = ['neg', 'one', 'dust', 'cent', '1', '1e', '5']
FULL_AMOUNTS = ['neg', 'zero', 'one', 'dust', 'dust1', 'cent', '1', '1e', '5', '10']
STATE_AMOUNTS_Q = ['cent', '1']
STATE_AMOUNTS_T = ['neg', 'cent', '1', '5']
STATES = ['conf', 'mem0', 'memneg']


def multisets(alphabet, max_size):
    for n in range(0, max_size + 1):
        for c in itertools.combinations_with_replacement(alphabet, n):
            yield c


def surpluses(fpb):
    """Where the selected effective sum S lies relative to the deficit D (surplus = S - D): the branch
    boundaries of exact match (0..c), closest match (>= c), change (surplus - C > DUST)."""
    c = PRICE_BYTES * fpb               # the selector's cost of change (as the wallet prices it)
    big_c = (10 + PRICE_BYTES) * fpb    # the builder's cost of change
    c34 = OUT_BYTES * fpb               # the same two with the size of the output really added
    big_c34 = (10 + OUT_BYTES) * fpb
    return [-1, 0, 1, c // 2, c34, c, c + 1, big_c34 + DUST + 1, big_c, big_c + 1, big_c + DUST, big_c + DUST + 1,
            big_c + DUST + c + 7]


def reference_sums(effective, rich):
    """Sums the target is placed against: every subset sum for <= 3 spendable coins, otherwise singles,
    total, two largest, total minus smallest (rich) / largest single, smallest single, total (not rich)."""
    pos = sorted((e for e in effective if e > 0), reverse=True)
    if not pos:
        return []
    out = []
    if rich and len(pos) <= 3:
        for r in range(1, len(pos) + 1):
            for comb in itertools.combinations(pos, r):
                out.append(sum(comb))
    elif rich:
        out = list(pos) + [sum(pos), pos[0] + pos[1], sum(pos) - pos[-1]]
    else:
        out = [pos[0], pos[-1], sum(pos)]
        if len(pos) >= 3:
            out.append(pos[0] + pos[1])
    seen, res = set(), []
    for s in out:
        if s not in seen:
            seen.add(s)
            res.append(s)
    return res[:10]


def deficits_for(effective, fpb, rich):
    pos_total = sum(e for e in effective if e > 0)
    ds = []
    for r in reference_sums(effective, rich):
        for s in surpluses(fpb):
            ds.append(r - s)
    ds.append(pos_total + 1)                 # total short by one dewy
    ds.append(2 * pos_total + COIN)          # total short
    if any(e <= 0 for e in effective):
        ds.append(sum(effective))            # what the code believes is available
        ds.append(sum(effective) + 1)
    seen, res = set(), []
    for d in ds:
        if d not in seen:
            seen.add(d)
            res.append(d)
    return res


# ------------------------------------------------------------------------------------------------
# case generation.  A case is a plain dict (JSON-able; it is also the replay record):
#   coins [[amount,state,kind,flags,addr]..], shape, deficit, strategy, fpb, fpnc, pre (bool),
#   used_change, perm, choice
# ------------------------------------------------------------------------------------------------

def mk_coins(syms, fpb, states=None):
    out = []
    for i, s in enumerate(syms):
        if isinstance(s, tuple):
            sym, st = s
        else:
            sym, st = s, 'conf'
        out.append([amount_of(sym, fpb), st, 'coin', [], i % 4])
    return out


def effective_of(coins, fpb, strategy=None):
    out = []
    for a, st, kind, flags, addr in coins:
        if flags or kind == 'claim':
            continue
        if kind == 'purchase' and strategy == 'sqlite':
            continue
        out.append(a - IN_BYTES * fpb)
    return out


def wallet_cases(coins, fpb, strategies, rich, shape='pay1', fpnc=0, used_change=0, seed=0):
    eff = effective_of(coins, fpb)
    for d in deficits_for(eff, fpb, rich):
        for st in strategies:
            yield {'coins': coins, 'shape': shape, 'deficit': d, 'strategy': st, 'fpb': fpb, 'fpnc': fpnc,
                   'pre': False, 'used_change': used_change, 'perm': 0, 'choice': seed}


DECOYS = [[10 * COIN, 'conf', 'coin', ['reserved'], 1], [10 * COIN, 'conf', 'coin', ['spent'], 2],
          [10 * COIN, 'conf', 'coin', ['other'], 0], [10 * COIN, 'conf', 'claim', [], 3]]


def gen_items(tier, seed):
    """-> list of (group, list of generator-arguments).  Each element of the inner list expands (inside the
    worker) to the cases of one wallet."""
    quick = tier == 'quick'
    strategies = QUICK_STRATEGIES if quick else ALL_STRATEGIES
    items = []

    # G1: amount multisets (confirmed), one payment, fpb 50
    for ms in multisets(QUICK_AMOUNTS if quick else FULL_AMOUNTS, 3 if quick else 5):
        items.append(('G1', {'syms': list(ms), 'fpb': 50, 'strategies': strategies, 'rich': len(ms) <= (2 if quick else 4)}))
    # G2: confirmation states
    sa = STATE_AMOUNTS_Q if quick else STATE_AMOUNTS_T
    types = [(a, s) for a in sa for s in STATES]
    st2 = ['prefer_confirmed', 'only_confirmed', 'sqlite'] if quick else ALL_STRATEGIES
    for ms in multisets(types, 3 if quick else 4):
        if not ms or all(s == 'conf' for _, s in ms):
            continue        # covered by G1
        items.append(('G2', {'syms': [list(x) for x in ms], 'fpb': 50, 'strategies': st2, 'rich': len(ms) <= 2}))
    # G3: output-list shapes x name fee
    shape_wallets = [[], ['1'], ['5', '5'], ['cent', '1', '10'], ['neg', 'one', '1'], ['cent', 'cent', 'cent', 'cent']]
    shapes = [('pay1', 0), ('pay2', 0)] + [(name, fee) for name in CLAIM_NAMES for fee in (0, 200000)] + [
              ('update', 0), ('support', 0), ('support_data', 0), ('purchase', 0)]
    for shape, fpnc in shapes:
        for w in (shape_wallets[1:4] if quick and shape in CLAIM_NAMES and shape not in ('claim1', 'claim30') else shape_wallets):
            for fpb in ([50] if quick else [1, 50, 1000]):
                items.append(('G3', {'syms': w, 'fpb': fpb, 'strategies': strategies if quick else ALL_STRATEGIES,
                                     'rich': True, 'shape': shape, 'fpnc': fpnc}))
    # G4: pre-chosen reserved input worth cost - d
    pre_wallets = [[], ['1'], ['1', '1'], ['cent', '1'], ['one'], ['neg'], ['neg', '1'], ['dust1', 'cent']]
    for w in pre_wallets:
        for fpb in ([50] if quick else [1, 50, 1000]):
            items.append(('G4', {'syms': w, 'fpb': fpb, 'strategies': ALL_STRATEGIES + [None], 'pre': True}))
    # G5: fee rates
    for fpb in (1, 1000):
        for ms in multisets(['neg', 'dust', 'cent', '1', '5'] if quick else QUICK_AMOUNTS, 2 if quick else 3):
            items.append(('G5', {'syms': list(ms), 'fpb': fpb, 'strategies': strategies, 'rich': len(ms) <= 2}))
    # G6: decoys that must never be selected (reserved, spent, other account's, a claim) + received purchase
    for w in [[], ['1'], ['cent', '1'], ['5', '5', '1']]:
        items.append(('G6', {'syms': w, 'fpb': 50, 'strategies': ALL_STRATEGIES + [None], 'rich': True, 'decoys': True}))
        items.append(('G6', {'syms': w, 'fpb': 50, 'strategies': ALL_STRATEGIES, 'rich': True, 'purchase': True}))
    # G7: state of the change chain (0, 1, 2 of the two change addresses already used -> a new key is derived)
    for used in (0, 1, 2):
        for ch in (0, 1):
            for w in [['1'], ['5', '1']]:
                items.append(('G7', {'syms': w, 'fpb': 50, 'strategies': QUICK_STRATEGIES if quick else ALL_STRATEGIES,
                                     'rich': False, 'used_change': used, 'choice': ch}))
    # G8: sweep (pre-chosen inputs, no requested output: the multi-round edge case of the balancing loop)
    for w in [[], ['1'], ['neg'], ['dust'], ['u1'], ['u1', 'u1'], ['u1', 'u1', 'u1'], ['one', 'one'], ['dust', 'dust1'],
              ['dust', 'dust1', 'cent'],
              ['neg', 'neg', 'neg', 'neg', 'neg', 'neg', '1']]:
        items.append(('G8', {'syms': w, 'fpb': 50, 'strategies': strategies if quick else ALL_STRATEGIES}))
    # G9: singles at the 250 limits
    for st in (['prefer_confirmed', 'sqlite', 'random_draw'] if quick else ALL_STRATEGIES):
        items.append(('G9', {'kind': 'pay250', 'strategy': st}))
        items.append(('G9', {'kind': 'utxo250_equal', 'strategy': st}))
        if not quick or st != 'random_draw':
            items.append(('G9', {'kind': 'utxo250_distinct', 'strategy': st}))
    # G12: funding layout - the same coins spread over funding transactions in different ways (the sqlite chooser
    #      returns outputs grouped by funding transaction); selections of >= 3 coins
    for amounts in ([1, 4, 2, 10, 10], [1, 2, 3, 5], [1, 1, 4, 2, 6]):
        for layout in ('one', 'per-coin', 'interleaved', 'pairs'):
            items.append(('G12', {'amounts': amounts, 'layout': layout,
                                  'strategies': ['sqlite', 'prefer_confirmed', 'random_draw'] if quick else ALL_STRATEGIES}))
    # G11: two builds requested together (asyncio.gather, default schedule only - interleavings are C14's)
    for w in [['1'], ['1', '1'], ['5', '1'], ['cent', '1', '1'], ['1', '1', '1', '1']]:
        items.append(('G11', {'syms': w, 'fpb': 50, 'strategies': ALL_STRATEGIES + [None]}))
    # G10: histories on one ledger (anything remembered about a UTXO across builds must follow the database)
    for a in history_items(tier):
        items.append(('G10', dict(a, tier=tier)))
    return items


HISTORY_WALLETS = [
    [('1', 'conf'), ('5', 'mem0')], [('1', 'conf'), ('5', 'memneg')], [('5', 'conf'), ('1', 'mem0')],
    [('cent', 'conf'), ('1', 'conf'), ('5', 'mem0')], [('5', 'mem0')], [('1', 'conf'), ('1', 'conf')],
]
HISTORY_REFS = ['max', 'total', 'cmax', 'ctotal', 'min']


def history_items(tier):
    """G10: multi-step histories on ONE ledger object.  history = list of steps executed before the judged
    build: ['build', deficit, strategy|'same', 'release'|'hold'|'save'] (a real Transaction.create that
    enumerates the wallet, then abandoned / kept / recorded as seen in the mempool), ['confirm'] (every
    unconfirmed funding transaction gets a block height through save_transaction_io), ['reorg'] (confirmed ->
    mempool), ['reserve'|'release'|'spend', coin index], ['arrive', amount, state], ['fpb', fee rate]."""
    quick = tier == 'quick'
    small = 30000
    b_release = ['build', small, 'same', 'release']
    b_hold = ['build', small, 'same', 'hold']
    b_save = ['build', small, 'same', 'save']
    b_refused = ['build', 10 ** 11, 'same', 'release']
    items = []
    for w in HISTORY_WALLETS:
        big = max(range(len(w)), key=lambda i: (amount_of(w[i][0], 50), -i))
        tails = {
            'none': [], 'confirm': [['confirm']], 'reorg': [['reorg']], 'resync': [['resync']], 'reserve': [['reserve', big]],
            'spend': [['spend', big]], 'arrive-conf': [['arrive', 3 * COIN, 'conf']],
            'arrive-mem0': [['arrive', 3 * COIN, 'mem0']], 'fpb-up': [['fpb', 1000]], 'fpb-down': [['fpb', 1]],
        }
        for name, tail in tails.items():
            if name in ('none', 'confirm') or not quick:
                firsts = [b_release, b_hold, b_save, b_refused]
            elif name in ('reorg', 'resync'):       # sync rewrites the table while build #1 holds its coins
                firsts = [b_release, b_hold, b_save]
            else:
                firsts = [b_release, b_save]
            for first in firsts:
                items.append({'syms': w, 'history': [first] + tail})
        # reserved while the wallet is enumerated, released afterwards; coin arrives unconfirmed, is enumerated, confirms
        items.append({'syms': w, 'history': [['reserve', big], b_release, ['release', big]]})
        items.append({'syms': w, 'history': [b_release, ['arrive', 3 * COIN, 'mem0'], b_release, ['confirm']]})
        items.append({'syms': w, 'history': [b_release, ['confirm'], b_release, ['reorg']]})
        items.append({'syms': w, 'history': [['reserve', big], ['resync'], b_hold, ['confirm'], ['resync']]})
    return items


def history_cases(a, tier, seed):
    quick = tier == 'quick'
    strategies = (['only_confirmed', 'prefer_confirmed', 'sqlite', 'standard'] if quick
                  else ALL_STRATEGIES + [None])
    fpb = 50
    big_c = (10 + PRICE_BYTES)
    coins = mk_coins([tuple(x) for x in a['syms']], fpb)
    for st in strategies:
        for ref in (HISTORY_REFS[:4] if quick else HISTORY_REFS):
            # surplus in units that scale with the fee rate in force at the judged build: (fee bytes, dewies)
            for sur in ([(0, -1), (0, 0), (big_c, DUST + 1)] if quick else
                        [(0, -1), (0, 0), (0, 1), (PRICE_BYTES, 0), (PRICE_BYTES, 1), (big_c, DUST), (big_c, DUST + 1)]):
                yield {'coins': coins, 'shape': 'pay1', 'deficit': None, 'deficit_spec': [ref, list(sur)], 'strategy': st,
                       'fpb': fpb, 'fpb0': fpb, 'fpnc': 0, 'pre': False, 'used_change': 0, 'perm': 0, 'choice': seed,
                       'history': a['history']}


def expand(group, a, seed):
    """Cases of one generator item."""
    if group == 'G9':
        return list(single_cases(a, seed))
    if group == 'G10':
        return list(history_cases(a, a['tier'], seed))
    if group == 'G12':
        fpb = 50
        coins = [[a * COIN, 'conf', 'coin', [], i] for i, a in enumerate(a['amounts'])]
        eff = [c[0] - IN_BYTES * fpb for c in coins]
        sums = sorted({sum(x) for r in range(1, len(eff) + 1) for x in itertools.combinations(eff, r)})
        out = []
        for st in a['strategies']:
            for d in sorted({v - sur for v in sums for sur in (0, PRICE_BYTES * fpb, COIN // 2)}):
                if d > 0:
                    out.append({'coins': coins, 'shape': 'pay1', 'deficit': d, 'strategy': st, 'fpb': fpb, 'fpnc': 0,
                                'pre': False, 'used_change': 0, 'perm': 0, 'choice': seed, 'layout': a['layout']})
        return out
    if group == 'G11':
        coins = mk_coins(a['syms'], a['fpb'])
        eff = sorted(e for e in effective_of(coins, a['fpb']) if e > 0)
        big_c = (10 + PRICE_BYTES) * a['fpb']
        out = []
        for st in a['strategies']:
            for d in sorted({eff[0] - big_c - DUST - 1, eff[0], eff[-1] // 2, sum(eff) // 2, sum(eff) - big_c - DUST - 1}):
                if d > 0:
                    out.append({'coins': coins, 'shape': 'pay1', 'deficit': d, 'strategy': st, 'fpb': a['fpb'], 'fpnc': 0,
                                'pre': False, 'used_change': 0, 'perm': 0, 'choice': seed, 'concurrent': 2})
        return out
    fpb = a['fpb']
    coins = mk_coins([tuple(s) if isinstance(s, list) else s for s in a['syms']], fpb)
    if a.get('decoys'):
        coins = coins + [list(d) for d in DECOYS]
    if a.get('purchase'):
        coins = coins + [[2 * COIN, 'conf', 'purchase', [], 1]]
    if group == 'G4':
        return list(pre_cases(coins, fpb, a['strategies'], seed))
    if group == 'G8':
        return list(sweep_cases(coins, fpb, a['strategies'], seed))
    if a.get('purchase'):
        # the received purchase is spendable by every strategy except sqlite: enumerate per strategy
        out = []
        for st in a['strategies']:
            eff = effective_of(coins, fpb, st)
            for d in deficits_for(eff, fpb, True):
                out.append({'coins': coins, 'shape': 'pay1', 'deficit': d, 'strategy': st, 'fpb': fpb, 'fpnc': 0,
                            'pre': False, 'used_change': 0, 'perm': 0, 'choice': seed})
        return out
    return list(wallet_cases(coins, fpb, a['strategies'], a.get('rich', False), a.get('shape', 'pay1'),
                             a.get('fpnc', 0), a.get('used_change', 0), a.get('choice', seed)))


def pre_cases(coins, fpb, strategies, seed):
    big_c = (10 + PRICE_BYTES) * fpb
    eff = effective_of(coins, fpb)
    ds = [5, 9, 10, 11, 50, 99, 100, 0, -1, -DUST, -(big_c + DUST), -(big_c + DUST + 1), -COIN]
    pos = [e for e in eff if e > 0]
    if pos:
        ds += [max(pos), max(pos) - PRICE_BYTES * fpb, sum(pos) + 1]
    for d in ds:
        for st in strategies:
            yield {'coins': coins, 'shape': 'pay1', 'deficit': d, 'strategy': st, 'fpb': fpb, 'fpnc': 0,
                   'pre': True, 'used_change': 0, 'perm': 0, 'choice': seed}


def sweep_cases(coins, fpb, strategies, seed):
    big_c = (10 + PRICE_BYTES) * fpb
    i = IN_BYTES * fpb
    # amount of the pre-chosen input: effective amount around the points where the loop needs another round
    for pre_eff in [-1, 0, 1, 10 * fpb - 1, 10 * fpb, 10 * fpb + 1, 10 * fpb + big_c, 10 * fpb + big_c + DUST,
                    10 * fpb + big_c + DUST + 1, COIN]:
        for st in strategies:
            yield {'coins': coins, 'shape': 'sweep', 'deficit': None, 'pre_amount': pre_eff + i, 'strategy': st,
                   'fpb': fpb, 'fpnc': 0, 'pre': True, 'used_change': 0, 'perm': 0, 'choice': seed}


def single_cases(a, seed):
    kind, st = a['kind'], a['strategy']
    fpb = 50
    i = IN_BYTES * fpb
    if kind == 'pay250':
        coins = mk_coins(['10', '5', '1'], fpb)
        for d in (10 * COIN - i, 10 * COIN - i - 4000, 16 * COIN - 3 * i + 1, 3 * COIN):
            yield {'coins': coins, 'shape': 'pay250', 'deficit': d, 'strategy': st, 'fpb': fpb, 'fpnc': 0,
                   'pre': False, 'used_change': 0, 'perm': 0, 'choice': seed}
    else:
        if kind == 'utxo250_equal':
            coins = [[CENT, 'conf', 'coin', [], k % 4] for k in range(250)]
        else:
            coins = [[CENT + 1000 * k, ('conf', 'mem0')[k % 2], 'coin', [], k % 4] for k in range(250)]
        total = sum(c[0] - i for c in coins)
        c = PRICE_BYTES * fpb
        for d in (total, total - c, total - c - 1, total + 1, total // 2, total - (10 + PRICE_BYTES) * fpb - DUST - 1):
            yield {'coins': coins, 'shape': 'pay1', 'deficit': d, 'strategy': st, 'fpb': fpb, 'fpnc': 0,
                   'pre': False, 'used_change': 0, 'perm': 0, 'choice': seed}


# ------------------------------------------------------------------------------------------------
# executing one case on the implementation
# ------------------------------------------------------------------------------------------------

# claim names: the name fee is charged per BYTE of the encoded name (what lbrycrd counts), so names whose UTF-8
# length differs from their character count are part of the alphabet
CLAIM_NAMES = {
    'claim1': 'a', 'claim30': 'a' * 30,
    'claim_cyr9': '\u043f\u0440\u0438\u0432\u0435\u0442\u043c\u0438\u0440',   # 9 Cyrillic characters, 18 bytes
    'claim_e12': '\u00e9' * 12,                                                      # 2-byte: 12 characters, 24 bytes
    'claim_cjk7': '\u65e5\u672c\u8a9e\u306e\u306a\u307e\u3048',                 # 3-byte: 7 characters, 21 bytes
    'claim_euro1': '\u20ac',                                                         # 3-byte: 1 character, 3 bytes
    'claim_emoji6': '\U0001f600' * 6,                                                # 4-byte: 6 characters, 24 bytes
    'claim_mixed': 'abc-\u043f\u0440\u0438-\u65e5\u672c-\U0001f600-xyz',           # ASCII + 2/3/4-byte: 16 characters, 26 bytes
}


def p2pkh(h):
    return b'\x76\xa9\x14' + h + b'\x88\xac'


PAYEE2 = b'\x0a' * 20


def build_request(h, case):
    """-> (coroutine, expected requested outputs [(amount, script)], prechosen txoids).  The main amount x is
    solved from the wanted deficit with the reference's deficit() (affine in x, slope 1)."""
    from refs import fee_ref
    from lbry.wallet import Transaction, Input, Output
    from lbry.schema.claim import Claim
    from vf.wallet_h import PAYEE_HASH, CLAIM_ID
    ledger, acct = h.ledger, h.account
    fpb, fpnc = case['fpb'], case['fpnc']
    shape = case['shape']
    hold = h.addresses[1]
    hold_h = ledger.address_to_hash160(hold)
    pre_coins = [c for c in h.coins if 'pre' in c.flags]
    pre_amounts = [c.amount for c in pre_coins]

    def claim_obj():
        c = Claim()
        c.stream.title = 'title'
        return c

    def outputs_for(x):
        if shape == 'pay1':
            return [(x, p2pkh(PAYEE_HASH))]
        if shape == 'pay2':
            return [(x, p2pkh(PAYEE_HASH)), (CENT, p2pkh(PAYEE2))]
        if shape == 'pay250':
            return [(x, p2pkh(PAYEE_HASH))] + [(DUST + 1 + k, p2pkh(PAYEE2)) for k in range(249)]
        if shape in CLAIM_NAMES:
            name = CLAIM_NAMES[shape]
            return [(x, Output.pay_claim_name_pubkey_hash(x, name, claim_obj(), hold_h).script.source)]
        if shape == 'update':
            prev = pre_coins[0].txo
            o = Output.pay_update_claim_pubkey_hash(x, prev.claim_name, prev.claim_id, claim_obj(), hold_h)
            o.clear_signature()
            return [(x, o.script.source)]
        if shape == 'support':
            return [(x, Output.pay_support_pubkey_hash(x, 'decoy', CLAIM_ID, hold_h).script.source)]
        if shape == 'support_data':
            from lbry.schema.support import Support
            s = Support()
            s.comment = 'hi'
            return [(x, Output.pay_support_data_pubkey_hash(x, 'decoy', CLAIM_ID, s, hold_h).script.source)]
        if shape == 'purchase':
            from lbry.schema.purchase import Purchase
            return [(x, p2pkh(PAYEE_HASH)), (0, Output.add_purchase_data(Purchase(CLAIM_ID)).script.source)]
        if shape == 'sweep':
            return []
        raise ValueError(shape)

    if shape == 'sweep':
        x = None
        expected = []
    else:
        d0 = fee_ref.deficit(outputs_for(0), pre_amounts, fpb, fpnc)
        x = case['deficit'] - d0
        if x < 1:
            return None, None, None
        expected = outputs_for(x)
        assert fee_ref.deficit(expected, pre_amounts, fpb, fpnc) == case['deficit'], 'harness: deficit not affine'
    pre_inputs = [Input.spend(c.txo) for c in pre_coins]
    accts = [acct]
    payee = ledger.hash160_to_address(PAYEE_HASH)
    if shape == 'pay1' and not pre_inputs:
        coro = Transaction.pay(x, payee, accts, acct)
    elif shape in ('pay1', 'pay2', 'pay250'):
        outs = [Output.pay_pubkey_hash(a, s[3:23]) for a, s in expected]
        coro = Transaction.create(pre_inputs, outs, accts, acct)
    elif shape in CLAIM_NAMES:
        coro = Transaction.claim_create(CLAIM_NAMES[shape], claim_obj(), x, hold, accts, acct)
    elif shape == 'update':
        coro = Transaction.claim_update(pre_coins[0].txo, claim_obj(), x, hold, accts, acct)
    elif shape == 'support':
        coro = Transaction.support('decoy', CLAIM_ID, x, hold, accts, acct)
    elif shape == 'support_data':
        coro = Transaction.support('decoy', CLAIM_ID, x, hold, accts, acct, comment='hi')
    elif shape == 'purchase':
        coro = Transaction.purchase(CLAIM_ID, x, payee, accts, acct)
    elif shape == 'sweep':
        coro = Transaction.create(pre_inputs, [], accts, acct)
    else:
        raise ValueError(shape)
    return coro, expected, [c.txo.id for c in pre_coins]


def lbry_site(tb):
    """Innermost lbry frame of a traceback: 'file.py:function'."""
    site = None
    for fr in traceback.extract_tb(tb):
        if '/lbry/' in fr.filename:
            site = fr.filename.rsplit('/', 1)[-1] + ':' + fr.name
    return site or 'outside-lbry'


def make_harness(case):
    from vf.wallet_h import WalletH, Coin
    coins = [Coin.from_spec(c) for c in case['coins']]
    fpb = case.get('fpb0', case['fpb'])      # histories may change the fee rate before the judged build
    if case['shape'] == 'update':
        # the claim being updated: a claim output of the wallet, spent by the update (not reserved)
        coins.append(Coin(CENT, 'conf', 'claim', ['pre'], 2))
    elif case['shape'] == 'sweep':
        coins.append(Coin(case['pre_amount'], 'conf', 'coin', ['pre', 'reserved'], 2))
    elif case['pre']:
        # a wallet output the caller reserved and passes in; worth (cost - deficit) after its own fee.
        # cost of [pay x] is x + 44*fpb; x is solved later from the deficit, so fix the input's amount here
        coins.append(Coin(3 * CENT + IN_BYTES * fpb, 'conf', 'coin', ['pre', 'reserved'], 2))
    return WalletH(coins, strategy=case['strategy'], fee_per_byte=fpb, fee_per_name_char=case['fpnc'],
                   used_change=case['used_change'], perm=case['perm'], choice=case['choice'],
                   layout=case.get('layout', 'one'))


class Session:
    """Keeps one harness alive across the cases of a wallet (same coins, fee rate, change-chain state): the
    txo table is put back to its recorded baseline through plain SQL and compared row by row before it is
    used again; any difference (a derived change key, a pending job, ...) makes the next case build a fresh
    wallet.  Violations seen on a reused wallet are re-judged on a fresh one (eval_case)."""

    def __init__(self):
        self.h = None
        self.key = None
        self.base_rows = None
        self.base_addr = None
        self.fresh = True

    @staticmethod
    def key_of(case):
        return repr((case['coins'], case['shape'] in ('update', 'sweep') and case['shape'], case.get('pre_amount'),
                     case['pre'], case['fpb'], case['used_change'], case.get('layout')))

    def get(self, case):
        key = self.key_of(case)
        if self.h is not None and key == self.key and self._restore():
            self.fresh = False
        else:
            self.close()
            self.h = make_harness(case)
            self._observe(self.h)
            self.key = key
            self.base_rows = self.h.rows()
            self.base_addr = self.h.address_count()
            self.base_addresses = [r['address'] for r in
                                   self.h.conn.execute("SELECT address FROM pubkey_address").fetchall()]
            self.fresh = True
        h = self.h
        h.ledger.coin_selection_strategy = case['strategy']
        h.ledger.fee_per_name_char = case['fpnc']
        h.script.perm, h.script.choice = case['perm'], case['choice']
        h.script.shuffles, h.script.choices = [], []
        del h.selected[:]
        return h

    @staticmethod
    def _observe(h):
        """Observation seam: how many outputs each ledger.get_spendable_utxos call handed out (forwarded unchanged)."""
        h.selected = []
        orig = h.ledger.get_spendable_utxos

        async def observed(*a, **kw):
            sp = await orig(*a, **kw)
            h.selected.append(len(sp))
            return sp
        h.ledger.get_spendable_utxos = observed

    def _restore(self):
        h = self.h
        loop = h.loop
        if h.closed or loop.jobs or loop._ready or loop._scheduled or loop.exc_contexts or h.network.pending:
            return False
        now = h.rows()
        if now.keys() != self.base_rows.keys():
            return False
        for k, r in self.base_rows.items():
            if now[k]['is_reserved'] != r['is_reserved']:
                h.conn.execute("UPDATE txo SET is_reserved = ? WHERE txoid = ?", (r['is_reserved'], k))
        if h.address_count() != self.base_addr:
            # change keys derived by the previous case: forget them (the address managers keep no state of their own)
            marks = ','.join('?' * len(self.base_addresses))
            h.conn.execute(f"DELETE FROM account_address WHERE address NOT IN ({marks})", self.base_addresses)
            h.conn.execute(f"DELETE FROM pubkey_address WHERE address NOT IN ({marks})", self.base_addresses)
        h.conn.commit()
        return (h.rows() == self.base_rows and h.address_count() == self.base_addr and
                [r['address'] for r in h.conn.execute("SELECT address FROM pubkey_address").fetchall()] == self.base_addresses)

    def close(self):
        if self.h is not None:
            self.h.close()
        self.h = None
        self.key = None


async def apply_history(h, case, log):
    """Execute the steps of case['history'] on the harness's one ledger through the real code paths."""
    from lbry.error import InsufficientFundsError
    from lbry.wallet import Transaction, Input, Output
    from vf.wallet_h import PAYEE_HASH, FOREIGN_HASH, STATES
    ledger, acct, db = h.ledger, h.account, h.ledger.db
    h160 = ledger.address_to_hash160
    final_strategy = ledger.coin_selection_strategy
    coins = [c for c in h.coins]

    async def resave(ftx, txos):
        seen = set()
        for txo in txos:
            address = txo.get_address(ledger)
            if address in seen:
                continue
            seen.add(address)
            await db.save_transaction_io(ftx, address, h160(address), f'{ftx.id}:{ftx.height}:')

    def funding_of(pred):
        out = {}
        for c in coins:
            ftx = c.txo.tx_ref.tx
            if pred(ftx):
                out.setdefault(id(ftx), (ftx, []))[1].append(c.txo)
        return list(out.values())

    serial = 0
    held = set(h.reserved())      # what must be reserved: inputs of builds that were not abandoned + explicit reservations
    for step in case['history']:
        op = step[0]
        serial += 1
        if op == 'build':
            _, d1, strat, then = step
            ledger.coin_selection_strategy = final_strategy if strat == 'same' else strat
            x = d1 - (10 + OUT_BYTES) * ledger.fee_per_byte
            try:
                tx = await Transaction.create([], [Output.pay_pubkey_hash(x, PAYEE_HASH)], [acct], acct)
            except InsufficientFundsError:
                log.append('build: refused')
                tx = None
            ledger.coin_selection_strategy = final_strategy
            if tx is not None:
                log.append(f'build: {len(tx.inputs)} input(s), then {then}')
                if then != 'release':
                    held |= {txi.txo_ref.id for txi in tx.inputs}
                if then == 'release':
                    await ledger.release_tx(tx)
                elif then == 'save':
                    # the wallet sees its own transaction in the mempool (what history sync records)
                    tx.height, tx.is_verified = 0, False
                    mine = [txi.txo_ref.txo for txi in tx.inputs] + \
                        [o for o in tx.outputs[1:] if o.script.is_pay_pubkey_hash]
                    await resave(tx, mine)
        elif op in ('confirm', 'reorg', 'resync'):
            # what wallet sync does when it meets a transaction again: the raw transaction is parsed anew and written
            # with save_transaction_io_batch for every own address it touches (same height / 0 -> n / n -> 0)
            pred = {'confirm': lambda t: t.height <= 0, 'reorg': lambda t: t.height > 0, 'resync': lambda t: True}[op]
            for ftx, txos in funding_of(pred):
                if op == 'confirm':
                    ftx.height, ftx.is_verified = 7, True
                elif op == 'reorg':
                    ftx.height, ftx.is_verified = 0, False
                seen = set()
                for txo in txos:
                    address = txo.get_address(ledger)
                    if address in seen:
                        continue
                    seen.add(address)
                    again = Transaction(ftx.raw, height=ftx.height, is_verified=ftx.is_verified)
                    await db.save_transaction_io_batch([again], address, h160(address), f'{ftx.id}:{ftx.height}:')
            log.append(op)
        elif op == 'reserve':
            await ledger.reserve_outputs([coins[step[1]].txo])
            held.add(coins[step[1]].txo.id)
        elif op == 'release':
            await ledger.release_outputs([coins[step[1]].txo])
            held.discard(coins[step[1]].txo.id)
        elif op == 'spend':
            txo = coins[step[1]].txo
            spender = Transaction(is_verified=True, height=8).add_inputs([Input.spend(txo)]).add_outputs(
                [Output.pay_pubkey_hash(txo.amount - 10000, FOREIGN_HASH)])
            await resave(spender, [txo])
        elif op == 'arrive':
            _, amount, state = step
            out = Output.pay_pubkey_hash(amount, h160(h.addresses[serial % 2]))
            fake = Output.pay_pubkey_hash(amount + 7000 + serial, FOREIGN_HASH)
            Transaction(is_verified=True, height=1).add_outputs([fake])
            ftx = Transaction(**STATES[state]).add_inputs([Input.spend(fake)]).add_outputs([out])
            await resave(ftx, [out])
            from vf.wallet_h import Coin
            c = Coin(amount, state)
            c.txo = out
            coins.append(c)
        elif op == 'fpb':
            ledger.fee_per_byte = step[1]
        else:
            raise ValueError(step)
    return held


def logical_rows(h, held):
    """The txo table with is_reserved forced to 1 for outputs that are held by an earlier, not abandoned build of
    the history (or were reserved explicitly): they are not available whatever a later writer did to the flag."""
    rows = h.rows()
    lost = [k for k in held if k in rows and not rows[k]['is_reserved']]
    for k in lost:
        rows[k] = dict(rows[k], is_reserved=1)
    return rows, lost


def resolve_deficit(h, case, rows=None):
    """deficit_spec = [reference, [fee bytes, dewies]] -> number, from the CURRENT txo table."""
    ref, (nbytes, extra) = case['deficit_spec']
    fpb = h.ledger.fee_per_byte
    acc = h.account.public_key.address
    types = (0,) if case['strategy'] == 'sqlite' else (0, 4)
    eff = [(r['amount'] - IN_BYTES * fpb, r['height']) for r in (rows or h.rows()).values()
           if not r['spent'] and not r['is_reserved'] and r['account'] == acc and r['txo_type'] in types]
    pos = [e for e, _ in eff if e > 0]
    cpos = [e for e, hgt in eff if e > 0 and hgt > 0]
    value = {'max': max(pos, default=None), 'min': min(pos, default=None), 'total': sum(pos) if pos else None,
             'cmax': max(cpos, default=None), 'ctotal': sum(cpos) if cpos else None}[ref]
    if value is None:
        return None
    return value - (nbytes * fpb + extra)


def history_name(case):
    return '+'.join(':'.join(str(x) for x in (st[0], st[3]) if x) if st[0] == 'build' else st[0]
                    for st in case.get('history') or [])


def execute(case, session=None):
    """Run one case.  -> observation dict (everything the oracle needs)."""
    from lbry.error import InsufficientFundsError
    obs = {'skipped': False}
    own = session is None or bool(case.get('history'))
    if own:
        session = Session()     # histories always start from a fresh ledger
    try:
        h = session.get(case)
        obs['fresh_wallet'] = session.fresh
        if case.get('history'):
            obs['history_log'] = []
            try:
                held = h.run(apply_history(h, case, obs['history_log']))
            except Exception as e:   # noqa - a step of the history failed inside lbry: judged like any other failure
                obs.update(outcome='exception', exc_type=type(e).__name__, exc_site=lbry_site(e.__traceback__),
                           exc_text=repr(e)[:200], expected=[], pre_ids=[], before=h.rows(), after=h.rows(),
                           account=h.account.public_key.address, new_addresses=0, change_chain=set(), selected=[],
                           shuffles=[], choices=[], loop_exceptions=[], in_history=True)
                return obs
            case['fpb'] = h.ledger.fee_per_byte
            hist_rows, obs['reservations_lost_in_history'] = logical_rows(h, held)
            case['deficit'] = resolve_deficit(h, case, hist_rows)
            del h.selected[:]
            h.script.shuffles, h.script.choices = [], []
            if case['deficit'] is None:
                obs['skipped'] = True
                return obs
        before = logical_rows(h, held)[0] if case.get('history') else h.rows()
        naddr = h.address_count()
        coro, expected, pre_ids = build_request(h, case)
        if coro is None:
            obs['skipped'] = True
            return obs
        obs['expected'] = expected
        obs['pre_ids'] = pre_ids
        obs['before'] = before
        obs['account'] = h.account.public_key.address
        try:
            tx = h.run(coro)
            obs['outcome'] = 'tx'
            obs['raw'] = bytes(tx.raw)
        except InsufficientFundsError:
            obs['outcome'] = 'insufficient'
        except Exception as e:   # noqa - judged by the oracle ("never fails in any other way")
            obs['outcome'] = 'exception'
            obs['exc_type'] = type(e).__name__
            obs['exc_site'] = lbry_site(e.__traceback__)
            obs['exc_text'] = repr(e)[:200].replace('_make_scripted_random.<locals>.ScriptedRandom', 'Random')
        obs['after'] = h.rows()
        obs['new_addresses'] = h.address_count() - naddr
        obs['change_chain'] = h.change_chain_addresses()
        obs['selected'] = list(h.selected)
        obs['shuffles'] = list(h.script.shuffles)
        obs['choices'] = list(h.script.choices)
        obs['loop_exceptions'] = [str(c.get('exception') or c.get('message'))[:200] for c in h.loop.exc_contexts]
        if obs['loop_exceptions']:
            session.close()
    finally:
        if own:
            session.close()
    return obs


# ------------------------------------------------------------------------------------------------
# oracle
# ------------------------------------------------------------------------------------------------

def wallet_class(case, obs):
    """Facts about the wallet used in signatures (input class of a refusal)."""
    fee_in = IN_BYTES * case['fpb']
    acc = obs['account']
    sp = [r for k, r in obs['before'].items()
          if not r['spent'] and not r['is_reserved'] and r['account'] == acc and r['txo_type'] in (0, 4)]
    return {'nonpositive': any(r['amount'] - fee_in <= 0 for r in sp),
            'unconfirmed': any(r['height'] <= 0 for r in sp),
            'n': len(sp)}


def judge(case, obs, res):
    """Apply the oracle of DESIGN 4/C03.  Reports violations into res; returns a list of human lines."""
    from refs import fee_ref
    lines = []
    if obs['skipped']:
        return lines
    fpb, fpnc, strat = case['fpb'], case['fpnc'], case['strategy']
    before, after = obs['before'], obs['after']
    acc = obs['account']
    reserved_before = {k for k, r in before.items() if r['is_reserved']}
    reserved_after = {k for k, r in after.items() if r['is_reserved']}
    spendable_before = {k for k, r in before.items() if not r['spent'] and not r['is_reserved'] and r['account'] == acc}
    pre_ids = obs['pre_ids']
    shape = case['shape']

    def viol(sig, what):
        sig = dict(sig)
        if case.get('history'):
            sig['history'] = history_name(case)
            what += f' [after history {sig["history"]}]'
        lines.append('VIOLATION ' + what)
        res.violation(sig, what, case)

    for k in before:
        b, a = before[k], after.get(k)
        if a is None or (b['amount'], b['spent'], b['txo_type']) != (a['amount'], a['spent'], a['txo_type']):
            viol({'kind': 'txo-table-changed'}, f'building a transaction changed row {k} of the txo table')
            break
    if obs['loop_exceptions']:
        viol({'kind': 'loop-exception', 'strategy': strat}, f"event loop reported {obs['loop_exceptions'][0]}")
    if obs.get('reservations_lost_in_history'):
        res.tally('observed:a_history_step_cleared_is_reserved_of_a_held_output')

    if obs['outcome'] == 'exception':
        viol({'kind': 'unexpected-exception', 'type': obs['exc_type'], 'site': obs['exc_site']},
             f"Transaction funding raised {obs['exc_text']} at {obs['exc_site']} (strategy {strat}, shape {shape}) - "
             f"only InsufficientFundsError is allowed")
    if obs['outcome'] in ('exception', 'insufficient'):
        leaked = reserved_after - reserved_before
        if any(obs['selected']):
            res.witness('failure_after_outputs_were_reserved')
            if len(obs['selected']) >= 2:
                res.witness('failure_in_round_2_or_later_after_reserving')
                if strat == 'sqlite':
                    res.witness('failure_in_round_2_or_later_after_reserving_sqlite')
        if leaked:
            viol({'kind': 'reserved-after-failure', 'outcome': obs['outcome'], 'strategy_is_sqlite': strat == 'sqlite'},
                 f'{len(leaked)} output(s) stay reserved after a failed build ({obs["outcome"]}, strategy {strat})')
        if (reserved_before - set(pre_ids)) - reserved_after:
            res.tally('interpretation_only:failure_unreserved_an_unrelated_output')
        if set(pre_ids) & reserved_after:
            res.tally('interpretation_only:prechosen_input_still_reserved_after_failure')
    if obs['outcome'] == 'insufficient':
        coins = [before[k] for k in spendable_before]
        wc = wallet_class(case, obs)
        if shape == 'sweep':
            res.tally('interpretation_only:sweep_refused_not_judged')
        else:
            need = case['deficit']
            ok, why = fee_ref.feasible(strat, coins, need, fpb)
            if need <= 0:
                viol({'kind': 'refused-no-deficit', 'strategy': strat}, f'refused although the pre-chosen input covers the cost')
            elif ok is None:
                res.tally('refusal_not_judged:subset_sum_reference_too_large')
            elif ok:
                cls = ('tiny-deficit' if need < 10 and strat == 'sqlite' else
                       'nonpositive-effective-coin' if wc['nonpositive'] else 'plain')
                viol({'kind': 'refused-although-feasible', 'strategy': strat or 'standard', 'class': cls},
                     f'InsufficientFundsError with strategy {strat} for deficit {need} although the reference says it '
                     f'can be covered ({why}); wallet amounts '
                     f'{sorted(c["amount"] for c in coins if c["txo_type"] in (0, 4))[:8]}, fee_per_byte {fpb}')
            else:
                res.count('refusals_justified')
                if fee_ref.feasible(strat, coins, need, fpb, change_bytes=OUT_BYTES)[0]:
                    res.tally('interpretation_only:refusal_unjustified_if_change_output_priced_at_34_bytes')
                # stronger reading (tallied): the wallet as a whole could have paid
                if fee_ref.feasible('standard', coins, need, fpb)[0]:
                    res.tally('interpretation_only:strategy_refused_but_wallet_total_covers')
        lines.append(f'refused (InsufficientFundsError); deficit {case["deficit"]}')
        return lines
    if obs['outcome'] != 'tx':
        return lines

    # ---- a transaction came back ----
    try:
        t = fee_ref.parse_tx(obs['raw'])
    except Exception as e:   # noqa
        viol({'kind': 'unparsable-transaction'}, f'returned transaction does not parse: {e!r}')
        return lines
    exp = obs['expected']
    got = [o['raw'] for o in t['outputs'][:len(exp)]]
    want = [fee_ref.encode_output(a, s) for a, s in exp]
    if got != want:
        viol({'kind': 'requested-outputs-altered', 'shape': shape}, 'requested outputs are not an unchanged prefix of tx.outputs')
    in_ids = [i['txoid'] for i in t['inputs']]
    if in_ids[:len(pre_ids)] != pre_ids:
        viol({'kind': 'prechosen-inputs-altered', 'shape': shape}, 'pre-chosen inputs are not an unchanged prefix of tx.inputs')
    added = in_ids[len(pre_ids):]
    if len(set(in_ids)) != len(in_ids):
        viol({'kind': 'duplicate-input', 'strategy': strat}, f'an output is spent twice by one transaction ({strat})')
    bad = [k for k in added if k not in spendable_before]
    if bad:
        r = before.get(bad[0])
        why = ('unknown' if r is None else 'spent' if r['spent'] else 'reserved' if r['is_reserved'] else
               'other-account' if r['account'] != acc else '?')
        viol({'kind': 'bad-input', 'why': why, 'strategy_is_sqlite': strat == 'sqlite'},
             f'added input {bad[0]} is not an unspent, unreserved output of the funding account: {why} ({strat})')
    if any(k in before and before[k]['txo_type'] not in (0, 4) for k in added):
        res.tally('interpretation_only:claim_or_support_output_used_as_funding')
    unknown = [k for k in in_ids if k not in before]
    if unknown:
        return lines
    fee = sum(before[k]['amount'] for k in in_ids) - sum(o['amount'] for o in t['outputs'])
    lo = fee_ref.min_fee(t, fpb, fpnc)
    hi = fee_ref.max_fee(t, fpb, fpnc)
    lo_placeholder = fee_ref.min_fee(t, fpb, fpnc, placeholder_inputs=True)
    n_extra = len(t['outputs']) - len(exp)
    if fee < lo:
        viol({'kind': 'fee-below-minimum', 'change': n_extra > 0, 'shape_has_name_fee': fpnc > 0},
             f'fee {fee} < required {lo} (size {t["size"]} x {fpb}, name fee rate {fpnc}); inputs {len(in_ids)}, '
             f'change {"yes" if n_extra else "no"} ({strat}, {shape})')
    if fee > hi:
        viol({'kind': 'fee-above-maximum', 'change': n_extra > 0},
             f'fee {fee} > allowed {hi} = byte/name fee {lo_placeholder} + 6 change costs + DUST ({strat}, {shape})')
    elif fee > lo_placeholder + fee_ref.cost_of_change(fpb) + DUST:
        res.tally('interpretation_only:fee_excess_over_one_change_cost_plus_dust')
    if n_extra > 1:
        viol({'kind': 'more-than-one-extra-output'}, f'{n_extra} outputs were added to the requested ones')
    elif n_extra == 1:
        ch = t['outputs'][-1]
        hsh = fee_ref.p2pkh_hash(ch['script'])
        if hsh is None:
            viol({'kind': 'change-not-p2pkh'}, 'change output is not pay-to-pubkey-hash')
        elif fee_ref.lbry_address(hsh) not in obs['change_chain']:
            viol({'kind': 'change-not-on-change-chain'},
                 f'change goes to {fee_ref.lbry_address(hsh)}, not an address of the account\'s chain 1')
        if ch['amount'] <= DUST:
            viol({'kind': 'dust-change', 'amount_class': 'nonpositive' if ch['amount'] <= 0 else 'dust'},
                 f'change output of {ch["amount"]} dewies (<= DUST)')
    want_reserved = reserved_before | set(added)
    if reserved_after != want_reserved:
        missing = want_reserved - reserved_after
        extra = reserved_after - want_reserved
        viol({'kind': 'reservation-bookkeeping', 'missing': bool(missing), 'extra': bool(extra),
              'strategy_is_sqlite': strat == 'sqlite'},
             f'after a successful build is_reserved != before + added inputs: not reserved {sorted(missing)[:2]}, '
             f'reserved but unused {sorted(extra)[:2]} ({strat})')
    # coverage facts
    surplus = fee - lo_placeholder
    res.count('built')
    if added:
        if n_extra == 0 and surplus == 0:
            res.witness('exact_match_no_change')
        if n_extra == 0 and 0 < surplus <= PRICE_BYTES * fpb:
            res.witness('inside_cost_of_change_window')
        if n_extra == 1 and len(added) == 1:
            res.witness('single_input_with_change')
        if len(added) > 1:
            res.witness('accumulation_of_several_inputs')
    if obs['shuffles']:
        res.witness('random_draw_reached')
    if case.get('history') and strat == 'only_confirmed' and any(st[0] == 'confirm' for st in case['history']) and added:
        res.witness('history_confirmed_coin_used_by_only_confirmed')
    if obs['new_addresses']:
        res.witness('new_change_key_derived')
    if len(in_ids) >= 250:
        res.witness('250_inputs')
    if case.get('layout', 'one') != 'one' and len(added) >= 3:
        res.witness('three_or_more_inputs_from_several_funding_transactions')
    if len(t['outputs']) >= 250:
        res.witness('250_outputs')
    if n_extra == 1 and t['outputs'][-1]['amount'] == DUST + 1:
        res.witness('change_of_exactly_dust_plus_1')
    if n_extra == 0 and surplus == fee_ref.cost_of_change(fpb) + DUST:
        res.witness('largest_surplus_without_change')
    lines.append(f'built: {len(in_ids)} input(s) ({len(added)} added), {len(t["outputs"])} output(s), fee {fee} in '
                 f'[{lo}, {hi}], change {"%d" % t["outputs"][-1]["amount"] if n_extra else "none"}')
    return lines


def eval_pair(case, res):
    """G11: the same payment requested twice at once on a fresh wallet; default schedule.  Judged: only
    InsufficientFundsError may be raised, no output is an input of both transactions (the later one would
    have added a reserved output), inputs come from the unspent unreserved set, fee bounds, bookkeeping."""
    import asyncio
    from refs import fee_ref
    from lbry.error import InsufficientFundsError
    res.count('evaluations')
    res.count('executions')
    h = make_harness(case)
    try:
        before = h.rows()
        acc = h.account.public_key.address
        reqs = [build_request(h, case) for _ in range(case['concurrent'])]
        if reqs[0][0] is None:
            res.count('skipped_target_not_positive')
            return
        results = h.run(asyncio.gather(*[r[0] for r in reqs], return_exceptions=True))
        after = h.rows()
    finally:
        h.close()
    strat, fpb = case['strategy'], case['fpb']

    def viol(sig, what):
        res.violation(dict(sig, concurrent=case['concurrent']), what + ' [two builds requested together]', case)
    spendable = {k for k, r in before.items() if not r['spent'] and not r['is_reserved'] and r['account'] == acc}
    used = []
    for r in results:
        if isinstance(r, InsufficientFundsError):
            continue
        if isinstance(r, BaseException):
            viol({'kind': 'unexpected-exception', 'type': type(r).__name__, 'site': lbry_site(r.__traceback__)},
                 f'Transaction funding raised {r!r:.150} (strategy {strat})')
            continue
        t = fee_ref.parse_tx(bytes(r.raw))
        ids = [i['txoid'] for i in t['inputs']]
        if any(k not in spendable for k in ids):
            viol({'kind': 'bad-input', 'why': 'not-spendable', 'strategy_is_sqlite': strat == 'sqlite'},
                 f'an added input is not an unspent, unreserved output of the funding account ({strat})')
            continue
        fee = sum(before[k]['amount'] for k in ids) - sum(o['amount'] for o in t['outputs'])
        if fee < fee_ref.min_fee(t, fpb, 0) or fee > fee_ref.max_fee(t, fpb, 0):
            viol({'kind': 'fee-out-of-bounds'}, f'fee {fee} outside [{fee_ref.min_fee(t, fpb, 0)}, {fee_ref.max_fee(t, fpb, 0)}] ({strat})')
        used.append(set(ids))
    if len(used) == 2 and used[0] & used[1]:
        viol({'kind': 'bad-input', 'why': 'reserved-by-concurrent-build', 'strategy_is_sqlite': strat == 'sqlite'},
             f'both transactions spend {sorted(used[0] & used[1])[0]}: the later build added an output that was already '
             f'reserved ({strat})')
    reserved_after = {k for k, r in after.items() if r['is_reserved']}
    want = {k for k, r in before.items() if r['is_reserved']}.union(*used) if used else {k for k, r in before.items() if r['is_reserved']}
    if reserved_after != want:
        viol({'kind': 'reservation-bookkeeping', 'strategy_is_sqlite': strat == 'sqlite'},
             f'is_reserved after two concurrent builds != inputs of the built transactions ({strat})')
    if len(used) == 2:
        res.witness('two_concurrent_builds_both_funded')
    res.distinct_add('nontrivial', ('pair', tuple(map(repr, case['coins'])), case['deficit'], strat))


def run_and_judge(case, res, session):
    """One execution + verdict.  A violation seen on a reused wallet is only reported if a fresh wallet
    gives the same verdict (otherwise the harness leaked state: hard error)."""
    from vf.core import Result
    obs = execute(case, session)
    res.count('evaluations')
    if obs['skipped']:
        res.count('skipped_target_not_positive')
        return obs
    res.count('executions')
    tmp = Result()
    judge(case, obs, tmp)
    if tmp.violations and not obs['fresh_wallet']:
        session.close()
        tmp2 = Result()
        obs2 = execute(case, None)
        judge(case, obs2, tmp2)
        res.count('violations_rechecked_on_fresh_wallet')
        if set(tmp2.violations) != set(tmp.violations):
            res.error(f'verdict differs between reused and fresh wallet for case {case!r:.400}: '
                      f'{sorted(tmp.violations)} vs {sorted(tmp2.violations)}')
        tmp = tmp2
    elif tmp.violations:
        session.close()
    res.merge(tmp)
    return obs


def eval_case(case, res, session):
    """Execute + judge one case, including every scripted shuffle outcome when random_draw is reached."""
    import math
    obs = run_and_judge(case, res, session)
    if obs['skipped']:
        return
    spendable_n = sum(1 for c in case['coins'] if not c[3] and c[2] != 'claim')
    if spendable_n:
        res.distinct_add('nontrivial', (tuple(map(repr, case['coins'])), case['shape'], case['deficit'],
                                        case.get('pre_amount'), case['strategy'], case['fpb'], case['fpnc'],
                                        case['pre'], case['used_change'], case['choice'],
                                        repr(case.get('history')), repr(case.get('deficit_spec')), case.get('layout')))
        res.distinct_add('outcome_classes', (case['strategy'], case['shape'], obs['outcome'],
                                             len(obs.get('raw', b'')) if obs['outcome'] == 'tx' else 0))
    if obs['shuffles'] and case['perm'] == 0:
        n = obs['shuffles'][0]
        full = case.get('full_perms', 3)
        ks = range(1, math.factorial(n)) if n <= full else sorted({1, n // 2, n - 1})
        for k in ks:
            run_and_judge(dict(case, perm=k), res, session)
            res.count('shuffle_permutations')


def work(item, res):
    import time
    t0 = time.process_time()
    group, args, seed, full_perms = item
    from refs import fee_ref
    if not getattr(work, '_ref_ok', False):
        fee_ref.selftest()
        work._ref_ok = True
    session = Session()
    try:
        for arg in args:
            cases = expand(group, arg, seed)
            cases.sort(key=Session.key_of)      # stable: keeps simplest-first order inside one wallet
            for case in cases:
                case['full_perms'] = full_perms
                if case.get('concurrent'):
                    eval_pair(case, res)
                else:
                    eval_case(case, res, session)
            res.count('wallets')
    finally:
        session.close()
    res.count('items_' + group)
    res.setmax('max_pool_item_cpu_s', round(time.process_time() - t0, 1))
    res.count('cpu_seconds', int(round(time.process_time() - t0)))


def run(ctx):
    items = gen_items(ctx.tier, ctx.seed)
    # group generator items into pool items of comparable cost
    weights = {'G1': 12, 'G2': 12, 'G3': 8, 'G4': 2, 'G5': 12, 'G6': 1, 'G7': 10, 'G8': 4, 'G9': 1, 'G10': 4, 'G11': 5, 'G12': 2}
    pool_items = []
    by_group = {}
    for g, a in items:
        by_group.setdefault(g, []).append(a)
    for g, lst in by_group.items():
        w = weights[g]
        for i in range(0, len(lst), w):
            pool_items.append((g, lst[i:i + w], ctx.seed, 3))
    ctx.pmap(work, pool_items)
    # a few written-out cases
    for case in (
        {'coins': mk_coins(['5', '5'], 50), 'shape': 'pay1', 'deficit': 8 * COIN, 'strategy': None, 'fpb': 50, 'fpnc': 0,
         'pre': False, 'used_change': 0, 'perm': 0, 'choice': 0},
        {'coins': mk_coins(['1', '1'], 50), 'shape': 'pay1', 'deficit': 5, 'strategy': 'sqlite', 'fpb': 50, 'fpnc': 0,
         'pre': True, 'used_change': 0, 'perm': 0, 'choice': 0},
    ):
        ctx.res.sample({'case': case, 'note': 'replayable with ./check C03 --replay <file containing this dict>'})
    ctx.meta.update(
        rule=('Product of: wallet UTXO multisets over amount classes taken from the branch conditions (below input fee, '
              'effective 0/1/DUST/DUST+1, 0.01, 1, 1+1 dewy, 5, 10 LBC) x confirmation state (verified@5, unverified@0, '
              'unverified@-1); targets placed at reference sums (subset sums / singles / total) minus surplus in '
              '{-1,0,1,c/2,c34,c,c+1,C34+DUST+1,C,C+1,C+DUST,C+DUST+1,..} (c = 46 x fee rate, the selector cost of change, C = 56 x '
              'fee rate, the builder cost of change, c34/C34 the same with a 34-byte output) plus '
              'short-by-1 and far-short; funding layout (all coins in one funding transaction / one per coin / alternating between two transactions in amount order / pairs in amount order); output shapes pay1, pay2, claim (ASCII names of 1/30 bytes and 2-, 3-, 4-byte and mixed UTF-8 names whose byte length differs from their character count; name fee rate 0/200000 per byte), update, '
              'support, support+data, purchase, 250 outputs, 250 UTXOs, input-only sweep; pre-chosen reserved input worth '
              'cost-d for d in {5,9,10,11,50,99,100,0,-1,-DUST,..}; fee_per_byte 1/50/1000; decoys (reserved, spent, '
              "other account's, claim, received purchase); used change addresses 0/1/2; multi-step histories on one ledger "
              '(G10: a build that enumerates the wallet and is released / held / recorded as seen in the mempool, then a '
              'transaction confirms / is reorganised / a coin is reserved, released, spent or arrives / the fee rate '
              'changes, then the judged build with its target placed on the CURRENT table: largest / total / largest '
              'confirmed / confirmed total / smallest); when random_draw is reached every '
              'shuffle permutation of <= 3 coins and permutations number 1, n/2, n-1 (lexicographic / rotations) beyond.  Non-trivial = the wallet holds at least one spendable coin; distinct = distinct '
              'tuples of all dimension values.'),
        exhaustive=True,
        bounds={'max_multiset': 3 if ctx.quick else 5, 'strategies_in_core_product': QUICK_STRATEGIES if ctx.quick else ALL_STRATEGIES,
                'fee_per_byte': [1, 50, 1000], 'generator_items': len(items)},
        assumptions=['default schedule only (one build at a time; G11 requests two builds together on the default '
                     'schedule, every other interleaving is C14)',
                     'accounts are hierarchical-deterministic with gaps 2/2; sqlite :memory: trusted',
                     'fee upper bound = byte/name fee on placeholder-signature sizes + 6 change-output costs + DUST; a '
                     'change-output cost is what the wallet itself charges: (10 + 46) bytes x fee_per_byte (it prices the '
                     'prospective change output with a 32-byte placeholder hash, 12 bytes more than the real output); '
                     'refusals that would be unjustified under a 34-byte price are tallied',
                     'one wallet object serves consecutive cases with the same coins: the txo table is restored by SQL and '
                     'compared with its baseline before reuse; every violation is re-judged on a fresh wallet',
                     'InsufficientFundsError is judged against per-strategy feasibility predicates (refs/fee_ref.feasible), '
                     'counting only outputs worth more than the fee to spend them',
                     'input-only builds (no requested output, five balancing rounds): refusals are tallied, not judged',
                     'a claim/support output used as funding input is tallied (the statement only says unspent/unreserved)'],
        expected_witnesses=['exact_match_no_change', 'inside_cost_of_change_window', 'single_input_with_change',
                            'accumulation_of_several_inputs', 'random_draw_reached', 'new_change_key_derived',
                            '250_inputs', '250_outputs', 'failure_after_outputs_were_reserved',
                            'failure_in_round_2_or_later_after_reserving', 'history_confirmed_coin_used_by_only_confirmed',
                            'two_concurrent_builds_both_funded', 'three_or_more_inputs_from_several_funding_transactions', 'change_of_exactly_dust_plus_1', 'largest_surplus_without_change'],
    )


def replay(data):
    from vf.core import Result
    res = Result()
    if data.get('concurrent'):
        eval_pair(data, res)
        lines = [f"two builds requested together: strategy {data['strategy']} deficit {data['deficit']} coins "
                 f"{[c[0] for c in data['coins']]}"] + ['VIOLATION ' + v['what'] for v in res.violations.values()]
        return bool(res.violations), '\n'.join(lines)
    obs = execute(data)
    lines = [f"case: shape {data['shape']} strategy {data['strategy']} fee_per_byte {data['fpb']} deficit {data.get('deficit')} "
             f"pre-chosen {data['pre']} coins {[(c[0], c[1], c[2], c[3]) for c in data['coins']][:8]}"]
    if data.get('history'):
        lines.append(f"history before the judged build: {data['history']} -> {obs.get('history_log')}; target {data.get('deficit_spec')}")
    if obs['skipped']:
        lines.append('skipped (target amount would be < 1)')
    else:
        lines.append(f"outcome: {obs['outcome']} {obs.get('exc_text', '')}")
        lines += judge(data, obs, res)
    return bool(res.violations), '\n'.join(lines)
